#!/opt/veriftools/pyvenv/bin/python
"""Validate MANIFEST.json and every evidence file against the schemas."""
import json, jsonschema, glob, sys
ok = True
try:
    jsonschema.validate(json.load(open('/verif/MANIFEST.json')), json.load(open('/root/.vp/MANIFEST.schema.json')))
except Exception as e:
    ok = False; print("MANIFEST:", str(e)[:300])
for f in sorted(glob.glob('/verif/evidence/*.json')):
    try:
        jsonschema.validate(json.load(open(f)), json.load(open('/root/.vp/EVIDENCE.schema.json')))
    except Exception as e:
        ok = False; print(f, str(e)[:300])
print("valid" if ok else "INVALID"); sys.exit(0 if ok else 1)

#!/usr/bin/env python3
"""Regenerate MANIFEST.json from the table below (kept in one place so that it is always valid)."""
import json

CLAIMED = {
 "C01": ("translation_validation", "5 (C01)", "verified simulation checker (Coq) on exported output; closed-set product exploration",
  "Coq theorem sim_check_sound/c01_check_sound: for each exported instance the checker accepts, the restructured hierarchy visits the original blocks in the original order for ALL decision lists, under the flat and the region-by-region walk, after each of the three stages. The instance space (all closed CFGs with <=4 blocks, generated ones up to 40 blocks, three payload types) is enumerated, not quantified by theorem; the universal statement over the pipeline is not proved."),
 "C02": ("exploration", "5 (C02)", "exhaustive enumeration of closed CFGs up to a node bound on the implementation; Coq proofs of component totality",
  "NOT a proof of the pipeline-level claim. The implementation is run on ALL closed CFGs with <=4 blocks (thorough: <=5 blocks, 443 400 graphs), on generated ones up to 40 blocks and on the closed CFGs of real functions from both front ends; any exception or a 10 s timeout is a violation with the graph as replay. Coq (Props/C02.v) proves totality of the components that own the anchored assertion sites: the value-table rewrite with equal arity, find_head whenever a unique un-targeted block exists, termination of the breadth-first iterators."),
 "C03": ("translation_validation", "5 (C03)", "verified structure checker (Coq) with rank certificates",
  "Coq theorem struct_check_sound: accepted instances are acyclic at every level and flat (minus declared back edges), back edges run from the latch of a loop region to its header, branching blocks are exiting blocks of head regions continuing to distinct branch regions with one common tail. Per instance; instances enumerated/generated."),
 "C04": ("translation_validation", "5 (C04)", "verified well-formedness checker (Coq)",
  "Coq theorem wf_check_sound: accepted instances satisfy WfHier (unique names, tree consistency, header/exiting inside, scoping through exiting blocks only, region targets = exiting targets, recorded parent). Per instance, every stage."),
 "C05": ("translation_validation", "5 (C05)", "verified conservation checker (Coq)",
  "Coq theorem cons_check_sound: accepted instances keep every input block once, with payload, arity and positional successors (renamed only to new names). Per instance, every stage, three payload types."),
 "C06": ("translation_validation", "5 (C06)", "verified closed-set control-variable checker (Coq)",
  "Coq theorem ctrl_check_sound/c06_check_sound: in accepted instances ALL decision lists run without an unset, out-of-range or stale control-variable read, and every value table agrees with the block's successors. Per instance, every stage."),
 "C07": ("translation_validation", "5 (C07)", "verified all-paths checker (Coq, extracted) on the regenerated tree of every instance + universal front-end theorem (control skeleton) + path-exhaustive differential execution against CPython",
  "Front leg: universal Coq theorem (C07_front_leg = C08_pruned_graph_means_source) for the control skeleton. Graph -> regenerated tree: per instance, the implementation's tree must equal the tree of the Coq model of SCFG2ASTTransformer node for node (or both refuse), and the verified checker back_check must accept it: laid out as a walk (Model/BackSem.v, the modelled reading of the generated Python) it passes through the original blocks exactly as the input graph does under every decision list (C07_back_leg). In addition generated programs and closed CFGs of AST blocks are pushed through the whole pipeline; the outcome must be ok or an explicit NotImplementedError, the regenerated source must compile and agree with the original on every enumerated decision path (oracle answers 0/1/2; sequence of external calls, returned value or exception type). Known findings (nested and/or evaluated eagerly, and/or inside larger expressions, for target initialised to None) are listed in known_findings.json."),
 "C08": ("proof", "5 (C08)", "Coq proof of the pruning passes with order-exact correspondence (census half); path-exhaustive differential execution for the semantic half",
  "PARTIAL. Proved in Coq over a line-by-line model of prune_unreachable / prune_noops / prune_empty: exactly the blocks unreachable from the entry, the no-op statements and the blocks without instructions are removed, every other instruction survives once and in order; the model's pruning of the implementation's unpruned graph equals the implementation's pruned graph for every generated program. NOT proved: that interpreting the graph equals running the function - that half is decided by path-exhaustive differential execution against CPython under an oracle (exploration). Two known findings listed."),
 "C09": ("proof", "5 (C09)", "Coq proof of the block cutter over all well-formed instruction streams; opcode tables translated from source and from the interpreters' opcode modules",
  "Universal Coq theorem C09_cut_spec: for every instruction stream satisfying WfStream the line-by-line model of FlowInfo.from_bytecode + build_basicblocks succeeds and its blocks tile the stream, are entered only at their begin, contain jumps only as last instruction and carry exactly the ordered successors of their last instruction. Finite obligations re-checked on every run over the translated tables: every in-domain opcode of each interpreter present (3.12, 3.11) is classified as the interpreter treats it, non-fall-through jumps/returns carry no inline cache, the offset helpers are +2/-2. Model blocks = implementation blocks on >1000 standard-library functions under both interpreters, with WfStream decided (soundly) per function."),
 "C10": ("translation_validation", "5 (C10)", "verified multiset checker (Coq) on the identities of statements in the hierarchy vs the regenerated tree",
  "Per regenerated tree - every accepted generated program and every accepted closed CFG of AST blocks - the verified checker census_check (sound: accepts only equal multisets) compares the original statements, the control-variable assignments and the branching tests used as if-conditions with what the restructured hierarchy holds: nothing dropped, nothing duplicated, also on paths no input exercises. The harness additionally compiles the output and checks that new identifiers match ^__scfg_.*__$ (the control-variable template is shown reserved in Coq). A universal census theorem over a model of SCFG2AST is not proved."),
 "C11": ("proof", "5 (C11)", "Coq proof by induction over statement trees on a dispatcher translated from handle_ast_node and the interpreter's ast classes",
  "Over the dispatcher translated on every run from handle_ast_node (plus the handlers' statement-visiting skeleton and the statement classes of the running interpreter's ast module): every statement class outside the supported subset reaches the not-implemented arm, handlers descend into every statement-list field (finite obligations by vm_compute), and - by induction over statement trees of any depth - if the front end accepts a module body then no statement anywhere below it is of a refused class and the only function definition is the first top-level node; non-function input is refused. Model outcome = implementation outcome on every unsupported class at every structural position and on random trees."),
 "C12": ("proof", "5 (C12)", "translated inventory of set-iteration sites checked against a reviewed table in Coq; permutation-invariance lemmas; cross-hash-seed runs",
  "PARTIAL by nature: the model is a function, hash randomisation lives in CPython. Proved: every place where the library iterates over a set (inventory re-scanned from the source on every run) is a reviewed site, and for the site classes sorted-result / singleton / len-member / delete-keys / commutative the result is invariant under every permutation of the enumeration order (universal lemmas over the models of the queries). Not proved: the fixpoint-class sites (dominator work-list, _imm_doms, to_dict queue, prune_unreachable) and CPython's string hashing itself - the runtime behaviour the model cannot exhibit; those rest on running graphs, generated programs (front end, restructuring, regenerated source) and bytecode functions in separate processes under 4 (thorough: 32) hash seeds and comparing order-sensitive dumps."),
 "C13": ("proof", "5 (C13)", "Coq proofs of line-by-line query models and of closure-based reference definitions; implementation compared with them exhaustively on small graphs",
  "Universal Coq theorems over arbitrary graphs: find_head is sound and complete; headers/entries and exiting/exits equal their set definitions and come out sorted (line-by-line models); reference reachability (>=1 edge), dominance in both directions and strongly connected components equal their path-based definitions. The implementation's answers (find_head, both subset queries for all subsets, is_reachable_dfs for all pairs, _doms, _post_doms, compute_scc) are compared with these on ALL graphs with <=3 nodes/out-degree 2 and on random graphs up to 30 nodes."),
 "C14": ("proof", "5 (C14)", "Coq proofs over line-by-line models of the edit primitives; order-exact correspondence; verified checker for control-block arcs",
  "Universal Coq theorems over the line-by-line models: insert_block's successor rewrite keeps the order of remaining successors, removes every arc into S and adds the new block exactly once; only predecessors change, back edges untouched, the new block has exactly the successors S; join_returns is a no-op with at most one exit and otherwise adds one exit reached from every former exit. The control-block variant is decided per result by the verified checker cb_ok (each rerouted arc has its own assignment block; the head's table leads to the arc's original target). All four primitives are compared order-exactly (incl. KeyError/AssertionError) with the implementation over all small graphs x all (P,S). Path preservation under arbitrary sequences of edits is not proved (per-run by C01)."),
 "C15": ("proof", "5 (C15)", "Coq proof that the written dictionary determines the hierarchy; per-graph evaluation of the implementation's round trips; dictionaries compared with the model",
  "Universal Coq theorems over the model of to_dict: an entry determines its block (class, payload, ordered successors, back edges, value table / assignments, region kind, header, exiting, recorded parent, children) and two hierarchies with unique names and the same dictionary have the same blocks and nesting. Per graph (all stages, plain and bytecode payloads) the implementation's write-read-write chain is evaluated through dict and YAML, and each written dictionary is compared with the model's to_dict of the exported graph - so the re-read graph equals the written one in everything the dictionary records. from_dict's reconstruction and the YAML text layer (PyYAML) are exercised, not modelled."),
 "C16": ("proof", "5 (C16)", "Coq proof of the breadth-first iterator model for arbitrary graphs; order-exact correspondence on every (sub)graph of every stage",
  "Universal Coq theorems (any graph, any successor function, no bound on size): the breadth-first iterator with the code's queue discipline terminates, yields the head first, no item twice, only items of the level, everything reachable, and every other item after one of its predecessors; so the region-concealing view is a permutation of the graph's own items and SCFG.__iter__ a permutation of all descendants whenever each level is connected from its head - a hypothesis evaluated per instance. The model's lists equal the implementation's, order included, for every sub-region at every depth after every stage."),
 "C17": ("proof", "5 (C17)", "Coq census theorems over a model of the renderers; parsed DOT body compared command by command",
  "Universal Coq theorems over the render model: exactly one node per non-region block and one cluster per region, in hierarchy order and properly nested (structural induction); an edge is drawn exactly for each jump target (solid) and back edge (dashed) of each non-region block of the iteration, to the innermost header. The DOT body the implementation produces (SCFGRenderer for all payload types after every stage, ByteFlowRenderer on real functions) is parsed and compared command by command with the model; label text is checked by the harness, not proved; no dot binary or viewer is involved."),
 "C18": ("proof", "5 (C18)", "Coq proof over a model of NameGenerator translated from source; exact correspondence on recorded histories",
  "Universal Coq theorems over the NameGenerator model: joint injectivity of the three name templates for arbitrary kind strings, pairwise distinctness for any request interleaving from any generator state, parse(render)=id, Covers after reserve, and C18_request_fresh: after ANY history of SCFG constructions, add_block calls and requests a requested name is neither present nor handed out before. Templates, counter discipline, the regular expression, reserve_names and its call sites are re-translated from scfg.py on every run (fail-closed); model and implementation agree exactly on recorded histories."),
}
NOTE = ("Trusted: Coq 8.16.1 kernel (vm_compute; no native_compute), %s. Print Assumptions of every theorem in "
        "coq/Props/%s.v: Closed under the global context.")
TB = {"exploration": "the enumeration harness (harness/vh/gen_graphs.py, snap.py); component theorems in Coq",
      "translation_validation": "extraction (ExtrOcamlBasic only), ocaml/driver.ml, harness/vh/export.py",
      "proof": "the fail-closed translators harness/vh/tr_*.py and the correspondence harness"}
ENGINE = {"translation_validation": "coq-validators", "proof": "coq-models", "exploration": "coq-models"}

props = [json.loads(l) for l in open('/verif/properties.jsonl')]
try:
    NA = json.load(open('/verif/bin/not_applicable.json'))
except FileNotFoundError:
    NA = {}
checks = []
for pid, (lvl, ref, tech, text) in CLAIMED.items():
    checks.append({
        "property_id": pid,
        "quick_cmd": "./bin/check %s --tier quick" % pid,
        "thorough_cmd": "./bin/check %s --tier thorough" % pid,
        "evidence_file": "/verif/evidence/%s.json" % pid,
        "replay_cmd_template": "./bin/check %s --replay {path}" % pid,
        "engine": ENGINE[lvl],
        "level_claimed": {"category": lvl, "text": text, "design_ref": "DESIGN.md section " + ref},
        "level_note": NOTE % (TB[lvl], pid),
        "technique": tech})
m = {"version": 1,
     "setup_cmd": "./bin/build.sh clean",
     "hooks": {"guard": "NUMBA_SCFG_VERIF",
               "enable": "no source hooks: the harness wraps the library from outside (monkey-patching in the harness process); NUMBA_SCFG_VERIF=1 is exported by bin/check for future hooks",
               "baseline_off_cmd": "cd /repo && /venv/bin/python -m pytest -ra -q -p no:cacheprovider --timeout=900",
               "source_commits": [], "add_only": True},
     "engines": [
         {"name": "coq-validators", "path": "/verif/coq/Valid", "serves_properties": sorted(p for p, v in CLAIMED.items() if v[0] == "translation_validation"),
          "kind_free_text": "Coq 8.16.1: verified validators extracted to OCaml, run on the implementation's exported output"},
         {"name": "coq-models", "path": "/verif/coq/Model", "serves_properties": sorted(p for p, v in CLAIMED.items() if v[0] in ("proof", "exploration")),
          "kind_free_text": "Coq 8.16.1: hand-written executable models with universal theorems, tied to /repo by translators (coq/Gen) and exact correspondence runs"}],
     "checks": checks,
     "notes": "Repairs of genuine defects in /repo are separate 'fix:' commits listed in known_findings.json.",
     "not_applicable": [{"property_id": p["id"], "reason": NA.get(p["id"], "check not built yet (work in progress; see DESIGN.md section 11)")}
                        for p in props if p["id"] not in CLAIMED]}
json.dump(m, open('/verif/MANIFEST.json', 'w'), indent=1)
print("claimed:", sorted(CLAIMED))

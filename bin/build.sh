#!/bin/sh
# Full build of the Coq development, extraction and the OCaml driver.
# Usage: bin/build.sh [clean]
set -e
cd "$(dirname "$0")/.."
VERIF=$(pwd)
mkdir -p build/extract
PYTHONPATH="$VERIF/harness" /venv/bin/python -m vh.gen > "$VERIF/build/gen.log" 2>&1 || { cat "$VERIF/build/gen.log"; exit 1; }
cd coq
if [ "$1" = "clean" ]; then
  [ -f Makefile ] && make clean >/dev/null 2>&1 || true
  find . -name '*.vo' -o -name '*.vos' -o -name '*.vok' -o -name '*.glob' -o -name '.*.aux' | xargs rm -f
fi
coq_makefile -f _CoqProject -o Makefile >/dev/null
# -k: a file that does not check must not keep the files that do not depend on it from being built
MAKE_OK=1
timeout 1800 make -k -j16 > "$VERIF/build/make.log" 2>&1 || MAKE_OK=0
DISPATCH_OK=1
if [ $MAKE_OK = 0 ]; then make -q Valid/Dispatch.vo >/dev/null 2>&1 || DISPATCH_OK=0; fi
cd "$VERIF/build/extract"
if [ $DISPATCH_OK = 0 ]; then
  # the checker's own sources did not build: never run a stale binary
  rm -f vchk
  tail -40 "$VERIF/build/make.log"; exit 1
fi
if [ ! -x vchk ] || [ "$VERIF/coq/Valid/Dispatch.vo" -nt vchk ] || [ "$VERIF/ocaml/driver.ml" -nt vchk ]; then
  timeout 600 coqc -Q "$VERIF/coq" V -o "$VERIF/build/extract/Extract.vo" "$VERIF/coq/Extract/Extract.v" > extract.log 2>&1 || { cat extract.log; exit 1; }
  cp "$VERIF/ocaml/driver.ml" .
  timeout 600 ocamlfind ocamlopt -O2 -w -a vchk.mli vchk.ml driver.ml -o vchk > ocaml.log 2>&1 || { cat ocaml.log; exit 1; }
fi
if [ $MAKE_OK = 0 ]; then tail -40 "$VERIF/build/make.log"; exit 1; fi
echo "build ok"

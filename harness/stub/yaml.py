"""Stand-in for PyYAML under interpreters that do not have it installed (the
byte-flow path of numba_scfg imports scfg.py, which imports yaml, but never
calls it)."""


def safe_load(s):
    raise NotImplementedError("yaml stub")

"""Export the implementation's live objects as rows of integers for the Coq
checkers (format: coq/Valid/Hier.v).  Names are interned order-preservingly:
the integer order of two names is Python's sorted() order of their strings."""
import ast

CLS = {
    "SyntheticBlock": 1,
    "SyntheticExit": 2,
    "SyntheticReturn": 3,
    "SyntheticTail": 4,
    "SyntheticFill": 5,
    "SyntheticBranch": 10,
    "SyntheticHead": 11,
    "SyntheticExitingLatch": 12,
    "SyntheticExitBranch": 13,
}
RK = {"meta": 1, "loop": 2, "head": 3, "branch": 4, "tail": 5}
ORIG_CLASSES = ("BasicBlock", "PythonBytecodeBlock", "PythonASTBlock")


class ExportError(Exception):
    pass


def payload_repr(b):
    cn = type(b).__name__
    if cn == "BasicBlock":
        return "basic"
    if cn == "PythonBytecodeBlock":
        return "bc:%r:%r" % (b.begin, b.end)
    if cn == "PythonASTBlock":
        return "ast:%r:%r:%s" % (
            b.begin,
            b.end,
            "|".join(ast.dump(t) if isinstance(t, ast.AST) else repr(t) for t in b.tree),
        )
    raise ExportError("not an input block class: " + cn)


def original_of(scfg):
    """The input graph as the checkers see it: name -> (payload, successors).
    Taken before any stage runs."""
    out = {}
    for name, b in scfg.graph.items():
        if type(b).__name__ not in ORIG_CLASSES:
            raise ExportError("input block of class " + type(b).__name__)
        out[name] = (payload_repr(b), tuple(b._jump_targets))
    return out


def walk_nodes(scfg):
    """Yield (block, containing SCFG, containing region name) for every block
    and region at every depth, in dictionary order."""
    from numba_scfg.core.datastructures.basic_block import RegionBlock

    def rec(g, rname):
        for name, b in g.graph.items():
            yield name, b, g, rname
            if isinstance(b, RegionBlock):
                if b.subregion is None:
                    raise ExportError("region without subregion: " + name)
                yield from rec(b.subregion, name)

    yield from rec(scfg, scfg.region.name)


def export(orig, scfg, extra_names=(), extra_vars=(), extra_payloads=()):
    """rows (list of int lists) and the interning tables."""
    from numba_scfg.core.datastructures.basic_block import (
        RegionBlock,
        SyntheticAssignment,
        SyntheticBranch,
        SyntheticBlock,
    )

    nodes = list(walk_nodes(scfg))
    strs = set(orig)
    for _, (pl, succ) in orig.items():
        strs.update(succ)
    strs.add(scfg.region.name)
    strs.update(extra_names)
    variables = set(extra_vars)
    payloads = set(pl for pl, _ in orig.values()) | set(extra_payloads)
    for key, b, g, rname in nodes:
        strs.add(key)
        strs.add(b.name)
        strs.update(b._jump_targets)
        strs.update(b.backedges)
        if isinstance(b, RegionBlock):
            for x in (b.header, b.exiting):
                if x is not None:
                    strs.add(x)
            if b.parent_region is not None:
                strs.add(b.parent_region.name)
        elif isinstance(b, SyntheticBranch):
            variables.add(b.variable)
            strs.update(b.branch_value_table.values())
        elif isinstance(b, SyntheticAssignment):
            variables.update(b.variable_assignment.keys())
        elif type(b).__name__ in ORIG_CLASSES:
            payloads.add(payload_repr(b))
    for s in strs:
        if not isinstance(s, str):
            raise ExportError("non-string name %r" % (s,))
    names = {s: i + 1 for i, s in enumerate(sorted(strs))}
    vars_ = {s: i + 1 for i, s in enumerate(sorted(variables))}
    pls = {s: i + 1 for i, s in enumerate(sorted(payloads))}

    def L(xs):
        xs = list(xs)
        return [len(xs)] + [names[x] for x in xs]

    rows = []
    for name, (pl, succ) in orig.items():
        rows.append([1, names[name], pls[pl]] + L(succ))
    top = scfg.region
    rows.append([6, names[top.name], 0, RK.get(top.kind, 9), 0, 0, 0, 1, 0, 0] + L(scfg.graph.keys()))
    for key, b, g, rname in nodes:
        if key != b.name:
            raise ExportError("dictionary key %r holds block named %r" % (key, b.name))
        nm, par = names[key], names[rname]
        jt, be = L(b._jump_targets), L(b.backedges)
        if isinstance(b, RegionBlock):
            idok = (
                b.subregion.region.name == b.name
                and b.parent_region is not None
                and b.parent_region.subregion is g
            )
            rows.append(
                [6, nm, par, RK.get(b.kind, 9), names[b.header] if b.header is not None else 0,
                 names[b.exiting] if b.exiting is not None else 0,
                 names[b.parent_region.name] if b.parent_region is not None else 0,
                 1 if idok else 0] + jt + be + L(b.subregion.graph.keys())
            )
        elif isinstance(b, SyntheticAssignment):
            asg = []
            for v, z in b.variable_assignment.items():
                if not isinstance(z, int):
                    raise ExportError("non-integer assignment %r" % (z,))
                asg += [vars_[v], z]
            rows.append([4, nm, par] + jt + be + [len(b.variable_assignment)] + asg)
        elif isinstance(b, SyntheticBranch):
            tbl = []
            for z, t in b.branch_value_table.items():
                if not isinstance(z, int):
                    raise ExportError("non-integer table key %r" % (z,))
                tbl += [z, names[t]]
            rows.append([5, nm, par, CLS.get(type(b).__name__, 19), vars_[b.variable]] + jt + be
                        + [len(b.branch_value_table)] + tbl)
        elif isinstance(b, SyntheticBlock):
            rows.append([3, nm, par, CLS.get(type(b).__name__, 9)] + jt + be)
        elif type(b).__name__ in ORIG_CLASSES:
            rows.append([2, nm, par, pls[payload_repr(b)]] + jt + be)
        else:
            raise ExportError("unknown block class " + type(b).__name__)
    return rows, {"names": names, "vars": vars_, "payloads": pls}


def rows_text(label, rows):
    return "#" + label + "\n" + "\n".join(" ".join(str(x) for x in r) for r in rows) + "\n0\n"


def dump(scfg, ind=0):
    """Human-readable dump of a hierarchy (for replay files)."""
    from numba_scfg.core.datastructures.basic_block import (
        RegionBlock, SyntheticAssignment, SyntheticBranch)

    out = []
    for n, b in scfg.graph.items():
        extra = ""
        if isinstance(b, RegionBlock):
            extra = " kind=%s header=%s exiting=%s parent=%s" % (
                b.kind, b.header, b.exiting, b.parent_region.name if b.parent_region else None)
        if isinstance(b, SyntheticBranch):
            extra = " var=%s table=%s" % (b.variable, b.branch_value_table)
        if isinstance(b, SyntheticAssignment):
            extra = " assign=%s" % (b.variable_assignment,)
        out.append(" " * ind + "%s [%s] jt=%s be=%s%s" % (
            n, type(b).__name__, b._jump_targets, b.backedges, extra))
        if isinstance(b, RegionBlock) and b.subregion is not None:
            out += dump(b.subregion, ind + 4)
    return out

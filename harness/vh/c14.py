"""C14: edit primitives — implementation vs the line-by-line model (order-exact)."""
import itertools
import random

from . import common, par, export
from .c13 import EXT, tuples

XCLS = dict(export.CLS)
XCLS.update({"BasicBlock": 100, "PythonBytecodeBlock": 101, "PythonASTBlock": 102, "RegionBlock": 50,
             "SyntheticAssignment": 20})


def graphs_small(n, maxdeg):
    names = [str(i) for i in range(n)] + [EXT]
    opts = tuples(names, maxdeg)
    for combo in itertools.product(opts, repeat=n):
        yield combo


def build(spec):
    """spec: list of (name, jt, be, kind) with kind 'basic' | 'branch' | 'tail' | 'region' | 'region2'
    (a region whose exiting block - for region2 an inner region with its own exiting block -
    mirrors the region's targets, as extract_region builds them)."""
    from numba_scfg.core.datastructures.scfg import SCFG
    from numba_scfg.core.datastructures.basic_block import (
        BasicBlock, SyntheticBranch, SyntheticTail, SyntheticHead, RegionBlock)

    def region(name, jt, be, depth, latch=False):
        h, x = name + "_h", name + "_x"
        if depth > 1:
            inner_x = region(x, jt, be, depth - 1)
        elif latch:
            # as restructure_loop leaves it: the exiting block is the latch, its last target the declared
            # back edge to the header, which the region block's targets do not list
            inner_x = BasicBlock(name=x, _jump_targets=tuple(jt) + (h,), backedges=tuple(be) + (h,))
        else:
            inner_x = BasicBlock(name=x, _jump_targets=tuple(jt), backedges=tuple(be))
        sub = SCFG({h: BasicBlock(name=h, _jump_targets=(x,)), x: inner_x})
        r = RegionBlock(name=name, _jump_targets=tuple(jt), backedges=tuple(be), kind="branch",
                        header=h, exiting=x, subregion=sub)
        object.__setattr__(sub, "region", r)
        if isinstance(inner_x, RegionBlock):
            object.__setattr__(inner_x, "parent_region", r)
        return r

    g = {}
    for name, jt, be, kind in spec:
        if kind in ("region", "region2", "loopregion"):
            g[name] = region(name, jt, be, 2 if kind == "region2" else 1, latch=(kind == "loopregion"))
        elif kind == "branch":
            tbl = {i: t for i, t in enumerate(jt)}
            g[name] = SyntheticHead(name=name, _jump_targets=tuple(jt), backedges=tuple(be),
                                    variable="__scfg_control_var_7__", branch_value_table=tbl)
        elif kind == "tail":
            g[name] = SyntheticTail(name=name, _jump_targets=tuple(jt), backedges=tuple(be))
        elif kind == "return":
            # the common exit of an earlier closing (or of a graph that was written out and read back): closing
            # again must still join it with whatever other exits there are
            from numba_scfg.core.datastructures.basic_block import SyntheticReturn
            g[name] = SyntheticReturn(name=name, _jump_targets=tuple(jt), backedges=tuple(be))
        else:
            g[name] = BasicBlock(name=name, _jump_targets=tuple(jt), backedges=tuple(be))
    sc = SCFG(g)
    from numba_scfg.core.datastructures.basic_block import RegionBlock as _R
    for b in g.values():
        if isinstance(b, _R):
            object.__setattr__(b, "parent_region", sc.region)
    return sc


def mirror_faults(sc, relevant):
    """Regions whose exiting block (recursively) was not rerouted like the region block itself: the two
    must agree on which of the names in `relevant` (the successors S, the new block, the assignment
    blocks of the call) they jump to - control follows the exiting block, the region block declares."""
    from numba_scfg.core.datastructures.basic_block import RegionBlock

    bad = []

    def rec(g):
        for name, b in g.graph.items():
            if isinstance(b, RegionBlock):
                x = b.subregion.graph.get(b.exiting)
                if x is None or (set(x._jump_targets) & relevant) != (set(b._jump_targets) & relevant):
                    bad.append(name)
                rec(b.subregion)

    rec(sc)
    return bad


def exiting_rest(sc, relevant):
    """For every region: the targets of its exiting block (recursively) that are none of `relevant`, in order."""
    from numba_scfg.core.datastructures.basic_block import RegionBlock

    out = {}

    def rec(g):
        for name, b in g.graph.items():
            if isinstance(b, RegionBlock):
                x = b.subregion.graph.get(b.exiting)
                out[name] = None if x is None else (tuple(t for t in x._jump_targets if t not in relevant),
                                                    tuple(t for t in x.backedges if t not in relevant))
                rec(b.subregion)

    rec(sc)
    return out


def graph_rows(tag, sc, ids, vids):
    from numba_scfg.core.datastructures.basic_block import (
        SyntheticAssignment, SyntheticBranch)

    rows = []
    for name, b in sc.graph.items():
        r = [tag, ids[name], len(b._jump_targets)] + [ids[t] for t in b._jump_targets]
        r += [len(b.backedges)] + [ids[t] for t in b.backedges]
        if isinstance(b, SyntheticBranch):
            r += [2, XCLS.get(type(b).__name__, 19), vids[b.variable], len(b.branch_value_table)]
            for z, t in b.branch_value_table.items():
                r += [z, ids[t]]
        elif isinstance(b, SyntheticAssignment):
            r += [1, len(b.variable_assignment)]
            for v, z in b.variable_assignment.items():
                r += [vids[v], z]
        else:
            r += [0, XCLS.get(type(b).__name__, 99)]
        rows.append(r)
    return rows


def export_case(case):
    """case: (spec, op) with op = ('ib', new, P, S) | ('cb', new, P, S) | ('jr',) | ('jte', T, E)."""
    from .checks_more import Recorder

    spec, op = case
    sc = build(spec)
    strs = set(n for n, _, _, _ in spec) | {EXT, "N", "zz"}
    for _, jt, be, _ in spec:
        strs.update(jt)
        strs.update(be)
    # names the generator may hand out during the op
    pool = ["synth_asign_block_%d" % i for i in range(12)] + [
        "synth_return_block_0", "synth_tail_block_0", "synth_exit_block_0"]
    strs.update(pool)
    if op[0] in ("ib", "cb"):
        strs.update(op[2])
        strs.update(op[3])
        strs.add(op[1])
    if op[0] == "jte":
        strs.update(op[1])
        strs.update(op[2])
    ids = {s: i + 1 for i, s in enumerate(sorted(strs))}
    vids = {"__scfg_control_var_7__": 1, "__scfg_control_var_0__": 2, "__scfg_control_var_8__": 3}
    rows = [[114]] + graph_rows(21, sc, ids, vids)
    L = lambda xs: [len(xs)] + [ids[x] for x in xs]  # noqa: E731
    rel0 = (set(op[3]) | {op[1]}) if op[0] in ("ib", "cb") else set()
    rest_before = exiting_rest(sc, rel0 | set(pool)) if rel0 else {}
    status = 0
    extra = []
    with Recorder() as rec:
        try:
            if op[0] == "ib":
                sc.insert_SyntheticTail(op[1], list(op[2]), list(op[3]))
            elif op[0] == "cb":
                sc.insert_block_and_control_blocks(op[1], list(op[2]), list(op[3]))
            elif op[0] == "jr":
                sc.join_returns()
            elif op[0] == "jte":
                t, e = sc.join_tails_and_exits(list(op[1]), list(op[2]))
                extra = [ids[t], ids[e]]
        except KeyError:
            status = 1
        except AssertionError:
            status = 2
        except Exception:
            status = 3
        events = rec.events
    reqs = [ev for ev in events if ev[0] == "request"]
    if op[0] == "ib":
        rows.append([40, ids[op[1]], XCLS["SyntheticTail"]] + L(op[2]) + L(op[3]))
    elif op[0] == "cb":
        var = [r[3] for r in reqs if r[1] == "var"]
        names = [r[3] for r in reqs if r[1] == "block"]
        if any(n not in ids for n in names) or (var and var[0] not in vids):
            return None, {"skipped": "name pool"}
        rows.append([41, ids[op[1]], vids[var[0]] if var else 0, XCLS["SyntheticHead"]]
                    + L(op[2]) + L(op[3]) + L(names))
    elif op[0] == "jr":
        names = [r[3] for r in reqs if r[1] == "block"]
        rows.append([42, ids[names[0]] if names else ids["synth_return_block_0"], XCLS["SyntheticReturn"]])
    elif op[0] == "jte":
        tn = [r[3] for r in reqs if r[2] == "synth_tail"]
        en = [r[3] for r in reqs if r[2] == "synth_exit"]
        rows.append([43, ids[tn[0]] if tn else 0, ids[en[0]] if en else 0,
                     XCLS["SyntheticTail"], XCLS["SyntheticExit"]] + L(op[1]) + L(op[2]))
    rows.append([50, status] + (extra if status == 0 else []))
    if status == 0:
        try:
            rows += graph_rows(22, sc, ids, vids)
        except KeyError as e:
            return None, {"skipped": "unexpected name %r" % (e,)}
    text = "#c14\n" + "\n".join(" ".join(map(str, r)) for r in rows) + "\n0\n"
    mirror = []
    if status == 0 and op[0] in ("ib", "cb") and op[3]:
        # (with S empty the new block is appended to the region block only; nothing is rerouted)
        mirror = mirror_faults(sc, set(op[3]) | {op[1]} | set(r[3] for r in reqs if r[1] == "block"))
        # ... and whatever else the exiting block jumped to (a latch's back edge to its header) is still there
        rest_after = exiting_rest(sc, rel0 | set(pool))
        mirror += [n for n, v in rest_before.items() if n in rest_after and rest_after[n] != v and n not in mirror]
    return text, {"status": status, "op": op[0], "mirror": mirror}


def ops_for(keys, rng, full):
    names = keys + [EXT]
    ops = [("jr",)]
    ps = [list(c) for r in (1, 2) for c in itertools.permutations(keys, r)]
    ss = [[]] + [list(c) for r in (1, 2) for c in itertools.permutations(names, r)]
    combos = [(p, s) for p in ps for s in ss]
    if not full:
        combos = rng.sample(combos, min(len(combos), 10))
    for p, s in combos:
        ops.append(("ib", "N", p, s))
        if s:
            ops.append(("cb", "N", p, s))
    ops.append(("ib", "N", [keys[0], "zz"], [EXT]))        # missing predecessor
    ops.append(("ib", keys[-1], [keys[0]], [EXT]))         # name that is not fresh
    ts = [list(c) for r in (1, 2, 3) for c in itertools.combinations(keys, r)]
    es = [list(c) for r in (1, 2, 3) for c in itertools.combinations(names, r)]
    te = [(t, e) for t in ts for e in es]
    if not full:
        te = rng.sample(te, min(len(te), 6))
    ops += [("jte", t, e) for t, e in te]
    return ops


def cases_for(tier, seed):
    rng = random.Random(seed)
    cases = []

    def add(combo, full):
        keys = [str(i) for i in range(len(combo))]
        kinds = ["basic"] * len(combo)
        for variant in range(2):
            if variant == 1:
                kinds = [rng.choice(["basic", "branch", "tail", "region", "region2", "loopregion"]) if jt
                         else rng.choice(["basic", "return", "return"]) for jt in combo]
                if all(k == "basic" for k in kinds):
                    continue
            spec = []
            for k, jt, kind in zip(keys, combo, kinds):
                be = tuple(t for t in dict.fromkeys(jt) if rng.random() < 0.12)
                if kind in ("branch", "region", "region2", "loopregion") and len(set(jt)) != len(jt):
                    kind = "basic"  # a table needs distinct targets; update_exiting renames every occurrence
                                    # of a target while the primitives rename the first (regions mirror blocks
                                    # with distinct successors)
                spec.append((k, tuple(jt), be, kind))
            for op in ops_for(keys, rng, full):
                cases.append((tuple(spec), op))

    for n in (1, 2):
        for combo in graphs_small(n, 2):
            add(combo, True)
    g3 = list(graphs_small(3, 2))
    for combo in (rng.sample(g3, 250) if tier == "quick" else g3):
        add(combo, tier != "quick")
    for _ in range(150 if tier == "quick" else 3000):
        n = rng.randrange(4, 9)
        names = [str(i) for i in range(n)] + [EXT]
        combo = tuple(tuple(rng.sample(names, rng.choice([0, 1, 2, 2, 3]))) for _ in range(n))
        add(combo, False)
    return cases


def run(tier, seed):
    cases = cases_for(tier, seed)
    out, errors = par.run(cases, export_case)
    return cases, out, errors

"""Imports every tr_*.py module so that their translators register."""
from . import tr_names  # noqa
from . import tr_ops  # noqa
from . import tr_dispatch  # noqa
from . import tr_sets  # noqa
from . import tr_universe  # noqa

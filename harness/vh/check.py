"""./bin/check <ID> --tier quick|thorough [--replay file]"""
import argparse
import json
import os
import sys

from . import build as buildmod
from . import common


def registry():
    from . import vprops

    reg = {}
    for pid in ("C01", "C03", "C04", "C05", "C06"):
        reg[pid] = vprops.check
    try:
        from . import checks_more

        reg.update(checks_more.REGISTRY)
    except ImportError:
        pass
    return reg


def known_match(pid, v, known):
    for k in known.get("findings", []):
        if k.get("property") != pid:
            continue
        sig = k.get("signature", {})
        w = v.get("witness") or {}
        flat = json.dumps(v, sort_keys=True, default=str)
        if all(json.dumps(val, default=str).strip('"') in flat for val in sig.values()):
            return k
    return None


def main(argv=None):
    ap = argparse.ArgumentParser()
    ap.add_argument("pid")
    ap.add_argument("--tier", default=os.environ.get("VERIF_TIER", "quick"),
                    choices=["quick", "thorough"])
    ap.add_argument("--replay")
    args = ap.parse_args(argv)
    pid = args.pid
    reg = registry()
    if pid not in reg:
        print("unknown property", pid)
        return 2
    if args.replay:
        from . import replay

        return replay.run(pid, args.replay)
    t = common.Timer()
    b = buildmod.ensure_build()
    props = buildmod.run_props(pid) if b["ok"] or True else None
    res = reg[pid](pid, args.tier, b, props)
    known = common.load_known()
    new_violations = []
    printed = set()
    for v in res["violations"]:
        k = known_match(pid, v, known)
        if k:
            line = "KNOWN-FINDING: property=%s %s" % (pid, k.get("what", ""))
            if line not in printed:
                printed.add(line)
                print(line)
        else:
            new_violations.append(v)
    cov = res["coverage"]
    cov.setdefault("translators", b.get("translators"))
    common.write_evidence(pid, args.tier, res["level"], cov, t.s(),
                          violations=len(new_violations) + (1 if res["problems"] else 0),
                          assumptions=res.get("assumptions") or cov.get("trusted_base"))
    rc = 0
    for v in new_violations[:5]:
        w = v.get("witness")
        concrete = bool(w)
        path = common.write_replay(pid, {"property": pid, "violation": v,
                                         "broken": None if concrete else res.get("broken_name")})
        print("VIOLATION property=%s replay=%s%s" % (
            pid, path, "" if concrete else " no-failing-input-found"))
        rc = 1
    if res["problems"] and rc == 0:
        path = common.write_replay(pid, {"property": pid, "problems": res["problems"],
                                         "broken": res.get("broken_name"),
                                         "build_log": b["log"][-1500:]})
        print("VIOLATION property=%s replay=%s no-failing-input-found" % (pid, path))
        rc = 1
    print("%s %s: %s in %.1fs" % (pid, args.tier, "ok" if rc == 0 else "FAILED", t.s()))
    return rc


if __name__ == "__main__":
    sys.exit(main())

"""Evaluate model definitions inside Coq (vm_compute) on harness-written cases."""
import os
import re
import subprocess

from . import common


def coq_str(s):
    if any(ord(ch) > 126 or ord(ch) < 32 for ch in s):
        raise ValueError("non-printable character")
    return '"' + s.replace('"', '""') + '"'


def coq_list(xs):
    return "[" + "; ".join(xs) + "]"


def run_coq(name, text, timeout=900):
    d = os.path.join(common.BUILD, "cases")
    os.makedirs(d, exist_ok=True)
    src = os.path.join(d, name + ".v")
    with open(src, "w") as f:
        f.write(text)
    res = subprocess.run(["timeout", str(timeout), "coqc", "-Q", common.COQ, "V", src],
                         capture_output=True, text=True, cwd=d)
    return res.returncode, res.stdout, res.stderr


def parse_bools(out):
    """All true/false tokens of the `= [...] : list bool` answers, in order."""
    body = " ".join(out.split())
    res = []
    for m in re.finditer(r"= (\[.*?\])\s*: list bool", body):
        res.append([t == "true" for t in re.findall(r"true|false", m.group(1))])
    return res

"""P_gen: structured programs in the supported statement subset whose every leaf
is a call to an external oracle `ext(k)`, so that all decision paths can be
enumerated; plus the path-exhaustive executor used to compare two functions."""
import ast
import itertools


class ProgGen:
    """features: set of optional constructs to include
       'boolop'      and/or in tests and values
       'nested-boolop' operands that are themselves and/or
       'not'         unary not in tests
       'attr'        attribute / subscript tests
       'for'         for loops (fresh target never read outside the body)
       'for-live'    for loops whose target is read after the loop
       'while-else', 'for-else'
       'dead-after-jump'  statements after break/continue/return in the same suite
       'aug'         augmented assignment
       'boolop-in-expr'  an and/or as the right operand of + or < whose left operand calls the oracle
       'raise-test'  call-free tests that raise for some values of the variables (a / b, a % b, (a, b)[b]): the
                     variables take the oracle's values 0, 1, 2 through assignments, so some paths raise
       'while-true'  `while True:` loops that consult the oracle on every iteration and leave by a break - a plain
                     one, or one in the else clause of a nested for loop
       'exprs'       further expression forms around oracle calls, none with an and/or inside: conditional expression,
                     unary minus / not, assignment expression, membership and identity tests, starred and keyword
                     arguments, slices, formatted strings, a lambda called at once, a comprehension
       'chain'       chained comparisons whose operands call the oracle (the middle one is evaluated once, the
                     last one only when the first link holds)
    """

    def __init__(self, rng, features):
        self.rng = rng
        self.f = set(features)
        self.k = 0
        self.nfor = 0
        self.vars = ["a", "b"]

    def ext(self):
        self.k += 1
        return "ext(%d)" % self.k

    def chain(self):
        n = self.rng.choice([3, 3, 4])
        ops = [self.rng.choice(["<", "<=", "==", "!=", ">"]) for _ in range(n - 1)]
        out = self.ext()
        for o in ops:
            out += " %s %s" % (o, self.rng.choice([self.ext(), self.ext(), self.rng.choice(self.vars)]))
        return out

    def expr(self):
        e = self.ext
        v = lambda: self.rng.choice(self.vars)  # noqa: E731
        forms = [
            lambda: "%s if %s else %s" % (e(), e(), e()),
            lambda: "-%s" % e(),
            lambda: "not %s" % e(),
            lambda: "(%s := %s)" % (v(), e()),
            lambda: "%s in (0, %s)" % (e(), e()),
            lambda: "%s is None" % e(),
            lambda: "tup(*[%s])[0]" % e(),
            lambda: "max(%s, key=lambda q: -q, default=%s)" % ("[%s, %s]" % (e(), e()), e()),
            lambda: "(0, 1, 2)[%s:][0]" % e(),
            lambda: "len(f'{%s}')" % e(),
            lambda: "(lambda q: q + 1)(%s)" % e(),
            lambda: "sum([%s for _ in (1, 2)])" % e(),
            lambda: "%s + %s * %s" % (e(), v(), e()),
            lambda: "abs(%s - %s)" % (e(), e()),
        ]
        return self.rng.choice(forms)()

    def raising(self):
        x, y = self.rng.choice(self.vars), self.rng.choice(self.vars)
        return self.rng.choice(["%s / %s" % (x, y), "%s %% %s" % (x, y), "(a, b)[%s]" % y, "%s // %s == 0" % (x, y)])

    def value(self):
        r = self.rng.random()
        if "chain" in self.f and r < 0.06:
            return self.chain()
        if "exprs" in self.f and r < 0.16:
            return self.expr()
        if r < 0.5:
            return self.ext()
        if r < 0.7:
            return self.rng.choice(self.vars)
        if r < 0.85:
            return "%s + %s" % (self.rng.choice(self.vars), self.ext())
        if "boolop-in-expr" in self.f and r < 0.93:
            return "%s %s (%s %s %s)" % (self.ext(), self.rng.choice(["+", "<"]), self.ext(),
                                         self.rng.choice(["and", "or"]), self.ext())
        if "boolop" in self.f and r < 0.95:
            if self.rng.random() < 0.4:
                # and/or in both operands of a binary operation or comparison: hoisted in order
                return "(%s %s %s) %s (%s %s %s)" % (
                    self.ext(), self.rng.choice(["and", "or"]), self.ext(), self.rng.choice(["+", "<", "=="]),
                    self.ext(), self.rng.choice(["and", "or"]), self.ext())
            op = self.rng.choice(["and", "or"])
            return (" %s " % op).join(self.ext() for _ in range(self.rng.choice([2, 2, 3, 4, 5])))
        return "%s < %s" % (self.ext(), self.rng.choice(self.vars))

    def test(self, depth=1, loop=False):
        """loop=True: the test must consult the oracle (otherwise a loop could spin forever)."""
        def progresses(t):
            # the leftmost operand is evaluated on every iteration: it must consult the oracle
            return t.lstrip("(").startswith(("ext(", "not ext(", "tup(ext("))

        t = self._test(depth)
        while loop and not progresses(t):
            t = self._test(depth)
        return t

    def _test(self, depth=1):
        if "const-test" in self.f and self.rng.random() < 0.05:
            # a literal as the test of an `if` (never of a loop: test() asks for one that consults the oracle)
            return self.rng.choice(["True", "False", "0", "1", "None"])
        r = self.rng.random()
        if "chain" in self.f and r < 0.06:
            return self.chain()
        if "raise-test" in self.f and r < 0.1:
            return self.raising()
        if "exprs" in self.f and r < 0.18:
            return self.expr()
        if r < 0.3:
            return "%s == 1" % self.ext()
        if r < 0.5:
            return self.ext()
        if r < 0.6:
            return self.rng.choice(self.vars)
        if "not" in self.f and r < 0.68:
            return "not %s" % self.ext()
        if "attr" in self.f and r < 0.74:
            return self.rng.choice(["%s.real" % self.ext(), "tup(%s)[0]" % self.ext()])
        if "boolop" in self.f and r < 0.92:
            op = self.rng.choice(["and", "or"])
            n = self.rng.choice([2, 2, 3, 3, 4, 5])
            ops = []
            for _ in range(n):
                if "nested-boolop" in self.f and depth > 0 and self.rng.random() < 0.3:
                    ops.append("(" + self._test(depth - 1) + ")")
                else:
                    ops.append(self.rng.choice([self.ext(), "%s == 1" % self.ext(), self.rng.choice(self.vars)]))
            return (" %s " % op).join(ops)
        return "%s < %s" % (self.rng.choice(self.vars), self.ext())

    def suite(self, depth, inloop, ind):
        out = []
        for _ in range(self.rng.choice([1, 1, 2, 2, 3])):
            st = self.stmt(depth, inloop, ind)
            out += st
            last = st[-1].strip()
            if len(st) == 1 and (last in ("break", "continue") or last.startswith("return")):
                if "dead-after-jump" in self.f and self.rng.random() < 0.5:
                    out.append(" " * ind + self.ext())
                break
        return out

    def stmt(self, depth, inloop, ind):
        p = " " * ind
        r = self.rng.random()
        if depth <= 0 or r < 0.4:
            c = self.rng.random()
            if inloop and c < 0.12:
                return [p + "break"]
            if inloop and c < 0.22:
                return [p + "continue"]
            if c < 0.32:
                return [p + "return %s" % self.value()]
            if c < 0.6:
                return [p + "%s = %s" % (self.rng.choice(self.vars), self.value())]
            if "aug" in self.f and c < 0.75:
                return [p + "%s += %s" % (self.rng.choice(self.vars), self.ext())]
            if c < 0.8:
                return [p + "pass"]
            return [p + self.ext()]
        if r < 0.46:
            # a conditional both of whose arms are no-ops: the test must still be evaluated
            t = self.rng.choice(["%s < %s" % (self.ext(), self.ext()), "%s == 1" % self.ext(),
                                 "%s < %s" % (self.rng.choice(self.vars), self.ext())]
                                + ([self.raising(), self.raising()] if "raise-test" in self.f else []))
            out = [p + "if %s:" % t, p + "    pass"]
            if inloop and self.rng.random() < 0.3:
                out = [p + "if %s:" % t, p + "    continue"] if self.rng.random() < 0.5 else out
            if self.rng.random() < 0.3:
                out += [p + "else:", p + "    pass"]
            return out
        if r < 0.68:
            out = [p + "if %s:" % self.test()] + self.suite(depth - 1, inloop, ind + 4)
            c = self.rng.random()
            if c < 0.2:
                out += [p + "elif %s:" % self.test()] + self.suite(depth - 1, inloop, ind + 4)
            if c < 0.65:
                out += [p + "else:"] + self.suite(depth - 1, inloop, ind + 4)
            return out
        if r < 0.88 or "for" not in self.f:
            if "while-true" in self.f and self.rng.random() < 0.06:
                q = " " * (ind + 4)
                out = [p + "while %s:" % self.rng.choice(["True", "1"])]
                if self.rng.random() < 0.5:
                    out += [q + "if %s:" % self.ext(), q + "    break"]
                else:
                    self.nfor += 1
                    out += [q + "for i%d in seq(%s):" % (self.nfor, self.ext())] + self.suite(depth - 1, True, ind + 8)
                    out += [q + "else:", q + "    break"]
                if self.rng.random() < 0.6:
                    out += self.suite(depth - 1, True, ind + 4)
                return out
            if "const-test" in self.f and self.rng.random() < 0.05:
                # a falsy literal as the test of a while: the body never runs, an else clause always does
                # (a truthy one would spin; seeded change C07-r7 dropped the else clause of `while 0:`)
                t = self.rng.choice(["0", "None", "False", '""'])
                out = [p + "while %s:" % t] + self.suite(depth - 1, True, ind + 4)
                if "while-else" in self.f and self.rng.random() < 0.7:
                    out += [p + "else:"] + self.suite(depth - 1, inloop, ind + 4)
                return out
            out = [p + "while %s:" % self.test(loop=True)] + self.suite(depth - 1, True, ind + 4)
            if "while-else" in self.f and self.rng.random() < 0.3:
                out += [p + "else:"] + self.suite(depth - 1, inloop, ind + 4)
            return out
        self.nfor += 1
        tgt = "i%d" % self.nfor
        if "for-live" in self.f and self.rng.random() < 0.5:
            tgt = self.rng.choice(self.vars)
        out = [p + "for %s in seq(%s):" % (tgt, self.ext())] + self.suite(depth - 1, True, ind + 4)
        if "for-else" in self.f and self.rng.random() < 0.3:
            out += [p + "else:"] + self.suite(depth - 1, inloop, ind + 4)
        return out

    def func(self, depth=3):
        body = self.suite(depth, False, 4)
        return "\n".join(["def f(a, b):"] + body) + "\n"


CLEAN = {"boolop", "not", "attr", "for", "while-else", "for-else", "aug", "const-test", "chain", "raise-test", "while-true", "exprs"}
ALL = CLEAN | {"nested-boolop", "for-live", "dead-after-jump", "boolop-in-expr"}


# ---------------------------------------------------------------------------
# path-exhaustive execution under an oracle

class NeedMore(Exception):
    pass


class Val(int):
    """Value returned by ext(): an int with a .real attribute (ints have one)."""


def run_under(fn_code, name, decisions, max_calls=400):
    """Execute function `name` of compiled module code with ext() answered from
    `decisions` (list of ints).  Returns (events, outcome, used)."""
    pos = [0]
    events = []

    def take():
        if pos[0] >= len(decisions):
            raise NeedMore()
        v = decisions[pos[0]]
        pos[0] += 1
        return v

    def ext(k):
        if len(events) > max_calls:
            raise RecursionError("call budget")
        events.append(("ext", k))
        return take()

    def seq(n):
        # ext() already consumed one decision for n: the length of the sequence
        return list(range(10, 10 + int(n)))

    def tup(x):
        return (x,)

    env = {"ext": ext, "seq": seq, "tup": tup}
    if callable(fn_code):
        fn = fn_code(env)          # a factory: environment -> callable(a, b)
    else:
        exec(fn_code, env)
        fn = env[name]
    try:
        r = fn(0, 1)
        return events, ("return", r), pos[0]
    except NeedMore:
        raise
    except RecursionError:
        return events, ("budget",), pos[0]
    except Exception as e:  # the function itself raised
        return events, ("raise", type(e).__name__), pos[0]


def all_paths(fn_code, name, values=(0, 1, 2), max_paths=600, max_len=14):
    """Depth-first enumeration of the decision lists the function asks for."""
    out = []
    stack = [[]]
    steps = 0
    while stack and len(out) < max_paths and steps < 20 * max_paths:
        steps += 1
        d = stack.pop()
        try:
            ev, oc, used = run_under(fn_code, name, d)
            out.append((tuple(d[:used]), tuple(ev), oc))
        except NeedMore:
            if len(d) >= max_len:
                continue
            for v in values:
                stack.append(d + [v])
    return out


def cfg_factory(blocks):
    """Interpret a front-end CFG block by block: run the block's statements; with
    two successors evaluate its last expression and take the first if true,
    else the second; stop at a return.  blocks: name -> (ast nodes, targets)."""
    comp = {}
    for name, (ins, jt) in blocks.items():
        body = ins[:-1] if len(jt) == 2 else ins
        steps = []
        for i in body:
            if isinstance(i, ast.Return):
                v = i.value if i.value is not None else ast.Constant(None)
                steps.append(("ret", compile(ast.fix_missing_locations(ast.Expression(v)), "<cfg>", "eval")))
            elif isinstance(i, ast.stmt):
                steps.append(("exec", compile(ast.fix_missing_locations(
                    ast.Module(body=[i], type_ignores=[])), "<cfg>", "exec")))
            else:
                steps.append(("eval", compile(ast.fix_missing_locations(ast.Expression(i)), "<cfg>", "eval")))
        test = None
        if len(jt) == 2:
            t = ins[-1]
            t = t.value if isinstance(t, ast.Expr) else t
            test = compile(ast.fix_missing_locations(ast.Expression(t)), "<cfg>", "eval")
        comp[name] = (steps, test, list(jt))
    entry = next(iter(blocks))

    def factory(env):
        def fn(a, b):
            loc = {"a": a, "b": b}
            cur = entry
            for _ in range(100000):
                steps, test, jt = comp[cur]
                for kind, code in steps:
                    if kind == "ret":
                        return eval(code, env, loc)
                    if kind == "exec":
                        exec(code, env, loc)
                    else:
                        eval(code, env, loc)
                if test is not None:
                    cur = jt[0] if eval(test, env, loc) else jt[1]
                elif jt:
                    cur = jt[0]
                else:
                    return None
            raise RecursionError("step budget")
        return fn

    return factory


def compare_functions(src_a, name_a, src_b, name_b, **kw):
    """Run both under every decision list the first one asks for.  Returns a witness
    (dict) or (None, number of paths).  src_b may be source text or a factory."""
    ca = src_a if callable(src_a) else compile(src_a, "<original>", "exec")
    cb = src_b if callable(src_b) else compile(src_b, "<other>", "exec")
    paths = all_paths(ca, name_a, **kw)
    for d, ev, oc in paths:
        try:
            ev2, oc2, used2 = run_under(cb, name_b, list(d) + [0] * 4)
        except NeedMore:
            return {"decisions": list(d), "reason": "second function asks for more oracle answers",
                    "expected_calls": list(ev), "expected": oc}
        if tuple(ev2) != ev or oc2 != oc or used2 != len(d):
            return {"decisions": list(d), "expected_calls": [k for _, k in ev], "actual_calls": [k for _, k in ev2],
                    "expected": oc, "actual": oc2}
    return None, len(paths)

"""Fail-closed translators from /repo sources to coq/Gen/*.v (DESIGN 2.1).
Each translator returns (filename, text); run_all writes a file only when its
text changed, so make stays incremental."""
import os

from . import common

TRANSLATORS = []  # filled by the translate_* modules


def register(fn):
    TRANSLATORS.append(fn)
    return fn


def run_all():
    gen = os.path.join(common.COQ, "Gen")
    os.makedirs(gen, exist_ok=True)
    # import the modules that register translators
    from . import translators  # noqa: F401

    report = []
    for fn in TRANSLATORS:
        name, text, status = fn()
        p = os.path.join(gen, name)
        old = open(p).read() if os.path.exists(p) else None
        if old != text:
            with open(p, "w") as f:
                f.write(text)
        report.append({"file": name, "status": status, "changed": old != text})
    return report

"""Direct calls of transformations.loop_restructure_helper on (graph, loop) pairs, compared
order-exactly with the line-by-line model Model/LoopEdit.v (LoopEdit.run_loop)."""
import random

from . import common, par
from .c13 import EXT
from . import c14


def export_case(case):
    from numba_scfg.core import transformations as T
    from .checks_more import Recorder

    spec, loop = case
    sc = c14.build(spec)
    strs = set(n for n, _, _, _ in spec) | {EXT}
    for _, jt, be, _ in spec:
        strs.update(jt)
        strs.update(be)
    try:
        headers, entries = sc.find_headers_and_entries(set(loop))
        exiting, exits = sc.find_exiting_and_exits(set(loop))
    except Exception as e:
        return None, {"skipped": "queries raise: %r" % (e,)}
    before = {k: b for k, b in sc.graph.items()}
    before_rows_src = c14.build(spec)   # an untouched copy for the 'before' rows
    doms_seen = []
    orig_doms = T._doms

    def spy(scfg):
        d = orig_doms(scfg)
        doms_seen.append({k: sorted(v) for k, v in d.items()})
        return d

    status = 0
    other = None
    with Recorder() as rec:
        T._doms = spy
        try:
            T.loop_restructure_helper(sc, set(loop))
        except KeyError:
            status = 1
        except (AssertionError, StopIteration):
            status = 2
        except Exception as e:
            status = 3
            other = repr(e)[:120]
        finally:
            T._doms = orig_doms
        events = rec.events
    if status == 3:
        # (_doms has no entry point to start from on a graph without a head: outside the helper's domain,
        # and the model takes the dominator sets as an input)
        return None, {"skipped": "other exception: %s" % other}
    reqs = [ev for ev in events if ev[0] == "request"]
    bnames = [r[3] for r in reqs if r[1] == "block"]
    vnames = [r[3] for r in reqs if r[1] == "var"]
    strs.update(bnames)
    strs.update(sc.graph.keys())
    for b in sc.graph.values():
        strs.update(b._jump_targets)
        strs.update(b.backedges)
    if doms_seen:
        for k, v in doms_seen[-1].items():
            strs.add(k)
            strs.update(v)
    ids = {s: i + 1 for i, s in enumerate(sorted(strs))}
    vs = set(vnames) | {"__scfg_control_var_7__"}
    from numba_scfg.core.datastructures.basic_block import SyntheticBranch, SyntheticAssignment
    for b in sc.graph.values():
        if isinstance(b, SyntheticBranch):
            vs.add(b.variable)
        elif isinstance(b, SyntheticAssignment):
            vs.update(b.variable_assignment.keys())
    vids = {s: i + 1 for i, s in enumerate(sorted(vs))}
    L = lambda xs: [len(xs)] + [ids[x] for x in xs]  # noqa: E731
    rows = [[119]] + c14.graph_rows(21, before_rows_src, ids, vids)
    rows.append([44] + L(sorted(loop)) + L(headers) + L(entries) + L(exiting) + L(exits) + L(bnames)
                + [len(vnames)] + [vids[v] for v in vnames])
    if doms_seen:
        for k, v in doms_seen[-1].items():
            rows.append([45, ids[k]] + L(v))
    rows.append([50, status])
    if status == 0:
        try:
            rows += c14.graph_rows(22, sc, ids, vids)
        except KeyError as e:
            return None, {"skipped": "unexpected name %r" % (e,)}
    text = "#loop\n" + "\n".join(" ".join(map(str, r)) for r in rows) + "\n0\n"
    shape = "unified" if len(headers) > 1 else ("early" if not any(r[1] == "block" for r in reqs) else "rotate")
    return text, {"status": status, "shape": shape, "exits": len(exits), "other": other}


def cases_for(tier, seed):
    from numba_scfg.core.datastructures.scfg import SCFG  # noqa: F401

    rng = random.Random(seed + 77)
    cases = []
    n_graphs = 1500 if tier == "quick" else 30000
    from . import gen_graphs
    for gi in range(n_graphs):
        n = rng.randrange(2, 9)
        names = [str(i) for i in range(n)]
        spec = []
        if gi % 10 < 7:
            # a closed control-flow graph, as the pipeline sees them
            succ = gen_graphs.random_closed(rng, rng.randrange(3, 11))
            names = [str(i) for i in range(len(succ))]
            n = len(succ)
            spec = [(names[i], tuple(str(j) for j in s_), (), "basic") for i, s_ in enumerate(succ)]
        for i in range(n if not spec else 0):
            k = rng.choice([0, 1, 1, 2, 2, 2])
            pool = names + ([EXT] if rng.random() < 0.15 else [])
            jt = tuple(dict.fromkeys(rng.choice(pool) for _ in range(k)))
            kind = "basic"
            if jt and rng.random() < 0.08:
                kind = rng.choice(["branch", "tail"]) if len(jt) > 1 else "tail"
            spec.append((names[i], jt, (), kind))
        spec = tuple(spec)
        try:
            sc = c14.build(spec)
            comps = [sorted(c) for c in sc.compute_scc()]
        except Exception:
            continue
        loops = [c for c in comps if len(c) > 1 or (c and c[0] in dict((nm, jt) for nm, jt, _, _ in spec)[c[0]])]
        for lp in loops[:2]:
            cases.append((spec, tuple(lp)))
        if rng.random() < 0.15:
            # a set of blocks that is not a component: the helper is still defined on it
            cases.append((spec, tuple(sorted(rng.sample(names, rng.randrange(1, n + 1))))))
    return cases


def run(tier, seed):
    common.import_repo()
    cases = cases_for(tier, seed)
    out, errors = par.run(cases, export_case)
    return cases, out, errors


def tie(tier, seed):
    """Summary of the correspondence loop_restructure_helper = LoopEdit.loop_helper."""
    cases, out, errors = run(tier, seed)
    agree = 0
    mism = []
    by = {}
    skipped = {}
    for case, meta, res in out:
        if res is None:
            k = (meta or {}).get("skipped", "harness")[:40]
            skipped[k] = skipped.get(k, 0) + 1
            if meta and "harness_error" in meta:
                errors = list(errors) + [meta]
            continue
        key = "%s/status%d/%d exits" % (meta["shape"], meta["status"], min(meta["exits"], 3))
        by[key] = by.get(key, 0) + 1
        if res == [1]:
            agree += 1
        elif len(mism) < 4:
            spec, loop = case
            mism.append({"graph": [list(map(str, s_)) for s_ in spec], "loop": list(loop)})
    return {"calls": agree + len(mism) if len(mism) < 4 else None, "agree": agree,
            "mismatch_count": sum(by.values()) - agree, "mismatches": mism, "calls_by_shape": by,
            "skipped": skipped, "harness_errors": [repr(e)[:200] for e in errors][:3]}

"""Every call of transformations.extract_region made while the pipeline restructures a graph: the whole
hierarchy before and after the call, compared with the line-by-line model Model/Extract.v
(Extract.run_extract), children in dictionary order."""
import copy
import random

from . import common, export, gen_graphs, par, stages


def export_item(item):
    from numba_scfg.core import transformations as T

    src, succ = item
    sc = stages.make_scfg(succ)
    orig = export.original_of(sc)
    calls = []
    orig_fn = T.extract_region

    def spy(scfg, blocks, kind, parent):
        before = copy.deepcopy(sc)
        try:
            headers, entries = scfg.find_headers_and_entries(set(blocks))
            exiting, _ = scfg.find_exiting_and_exits(set(blocks))
        except Exception:
            headers = entries = exiting = None
        status = 0
        try:
            orig_fn(scfg, blocks, kind, parent)
        except KeyError:
            status = 1
        except AssertionError:
            status = 2
        finally:
            calls.append((before, sorted(blocks), kind, parent.name, headers, entries, exiting, status,
                          copy.deepcopy(sc) if status == 0 else None))
        if status == 1:
            raise KeyError("extract_region")
        if status == 2:
            raise AssertionError("extract_region")

    T.extract_region = spy
    exc = None
    try:
        sc.join_returns()
        sc.restructure_loop()
        sc.restructure_branch()
    except Exception as e:
        exc = repr(e)[:100]
    finally:
        T.extract_region = orig_fn
    texts = []
    skipped = 0
    for before, blocks, kind, lvl, headers, entries, exiting, status, after in calls:
        if headers is None or len(headers) != 1 or len(exiting) != 1:
            skipped += 1     # the function asserts before it does anything; nothing to compare
            continue
        extra = set(blocks) | {lvl}
        if after is not None:
            _, tabs_a = export.export(orig, after)
            extra |= set(tabs_a["names"])
            vars_a, pls_a = set(tabs_a["vars"]), set(tabs_a["payloads"])
        else:
            vars_a, pls_a = set(), set()
        rows_b, tabs = export.export(orig, before, extra_names=extra, extra_vars=vars_a, extra_payloads=pls_a)
        ids = tabs["names"]
        if after is not None:
            rows_a, tabs2 = export.export(orig, after, extra_names=set(ids), extra_vars=set(tabs["vars"]),
                                          extra_payloads=set(tabs["payloads"]))
            if tabs2["names"] != ids or tabs2["vars"] != tabs["vars"] or tabs2["payloads"] != tabs["payloads"]:
                skipped += 1
                continue
            new = [n for n in after_region_names(after) if n not in before_region_names(before)]
            if len(new) != 1:
                skipped += 1
                continue
            rname = new[0]
        else:
            rows_a = []
            rname = None
        if rname is None:
            # the call raised: the model needs the name it would have used; any unused name will do
            rname_id = max(ids.values()) + 1
        else:
            rname_id = ids[rname]
        L = lambda xs: [len(xs)] + [ids[x] for x in xs]  # noqa: E731
        rows = [[120]] + rows_b
        rows.append([46, ids[lvl], ids[headers[0]], ids[exiting[0]], export.RK.get(kind, 9), rname_id]
                    + L(blocks) + L(entries))
        rows.append([50, status])
        rows += [[47] + r for r in rows_a if r[0] != 1]
        texts.append("#x\n" + "\n".join(" ".join(map(str, r)) for r in rows) + "\n0\n")
    return ("".join(texts) if texts else None), {"calls": len(calls), "skipped": skipped, "exc": exc,
                                                "kinds": [c[2] for c in calls]}


def _region_names(sc):
    from numba_scfg.core.datastructures.basic_block import RegionBlock

    out = []

    def rec(g):
        for name, b in g.graph.items():
            if isinstance(b, RegionBlock):
                out.append(name)
                rec(b.subregion)

    rec(sc)
    return out


before_region_names = after_region_names = _region_names


def items_for(tier, seed):
    rng = random.Random(seed + 120)
    items = []
    for s in gen_graphs.shapes():
        items.append(("shape", s))
    for i in range(120 if tier == "quick" else 3000):
        n = rng.randrange(3, 9) if i % 2 == 0 else rng.randrange(9, 16)
        items.append(("rnd", gen_graphs.random_closed(rng, n)))
    return items


def tie(tier, seed):
    common.import_repo()
    items = items_for(tier, seed)
    out, errors = par.run(items, export_item)
    agree = total = skipped = 0
    pre_met = 0
    pre_unmet = []
    walk_met = 0
    walk_unmet = []
    mism = []
    kinds = {}
    for item, meta, res in out:
        if meta and "harness_error" in meta:
            errors = list(errors) + [meta]
            continue
        skipped += (meta or {}).get("skipped", 0)
        for k in (meta or {}).get("kinds", []):
            kinds[k] = kinds.get(k, 0) + 1
        if res is None:
            continue
        rs = res if (res and isinstance(res[0], list)) else [res]
        for x in rs:
            total += 1
            if len(x) >= 4:
                # fourth column: the precondition of the totality theorem (Model/Total2.v) holds for this call
                if x[3] == 1:
                    pre_met += 1
                elif len(pre_unmet) < 4:
                    pre_unmet.append({"graph": item[1]})
                # fifth column: the hypotheses of the universal path theorem (Model/Applic.v) hold for this call
                if len(x) >= 5:
                    if x[4] == 1:
                        walk_met += 1
                    elif len(walk_unmet) < 4:
                        walk_unmet.append({"graph": item[1]})
                x = x[:3]
            if x == [1, 1, 1]:
                agree += 1
            elif len(mism) < 4:
                mism.append({"graph": item[1], "columns": x})
    return {"calls_compared": total, "agree": agree, "totality_precondition_met": pre_met,
            "totality_precondition_unmet_examples": pre_unmet,
            "path_theorem_hypotheses_met": walk_met, "path_theorem_hypotheses_unmet_examples": walk_unmet, "mismatch_count": total - agree, "mismatches": mism,
            "calls_by_kind": kinds, "skipped": skipped, "harness_errors": [repr(e)[:200] for e in errors][:3]}

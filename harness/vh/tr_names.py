"""Translator: NameGenerator.new_block_name / new_region_name / new_var_name
(numba_scfg/core/datastructures/scfg.py) -> coq/Gen/NameTemplates.v.

Accepted shape of each method (anything else fails closed):
    if kind in self.kinds[.keys()]:
        idx = self.kinds[kind]
        name = <concat>
        self.kinds[kind] = idx + 1
    else:
        idx = 0
        name = <concat>
        self.kinds[kind] = idx + 1
    return name
<concat> is a '+' chain of string literals, str(kind) and str(idx), with kind
before idx and each exactly once; both branches must build the same name."""
import ast
import os

from . import common
from .translate import register

METHODS = (("new_block_name", "tpl_block"), ("new_region_name", "tpl_region"),
           ("new_var_name", "tpl_var"))


class Reject(Exception):
    pass


def flatten_concat(e):
    if isinstance(e, ast.BinOp) and isinstance(e.op, ast.Add):
        return flatten_concat(e.left) + flatten_concat(e.right)
    if isinstance(e, ast.Constant) and isinstance(e.value, str):
        return [("lit", e.value)]
    if (isinstance(e, ast.Call) and isinstance(e.func, ast.Name) and e.func.id == "str"
            and len(e.args) == 1 and isinstance(e.args[0], ast.Name) and not e.keywords):
        if e.args[0].id in ("kind", "idx"):
            return [(e.args[0].id, None)]
    if isinstance(e, ast.JoinedStr):
        out = []
        for v in e.values:
            if isinstance(v, ast.Constant):
                out.append(("lit", v.value))
            elif (isinstance(v, ast.FormattedValue) and isinstance(v.value, ast.Name)
                  and v.value.id in ("kind", "idx") and v.conversion == -1 and v.format_spec is None):
                out.append((v.value.id, None))
            else:
                raise Reject("unsupported f-string part")
        return out
    raise Reject("unsupported name expression: " + ast.dump(e)[:80])


def split_template(parts):
    kinds = [i for i, p in enumerate(parts) if p[0] == "kind"]
    idxs = [i for i, p in enumerate(parts) if p[0] == "idx"]
    if len(kinds) != 1 or len(idxs) != 1 or kinds[0] > idxs[0]:
        raise Reject("kind and idx must occur once each, kind first")
    pre = "".join(p[1] for p in parts[:kinds[0]])
    mid = "".join(p[1] for p in parts[kinds[0] + 1:idxs[0]])
    post = "".join(p[1] for p in parts[idxs[0] + 1:])
    return pre, mid, post


def is_kinds_sub(e):
    return (isinstance(e, ast.Subscript) and isinstance(e.value, ast.Attribute)
            and isinstance(e.value.value, ast.Name) and e.value.value.id == "self"
            and e.value.attr == "kinds" and isinstance(e.slice, ast.Name) and e.slice.id == "kind")


def branch_template(body, first_is_lookup):
    if len(body) != 3:
        raise Reject("branch must have three statements")
    s0, s1, s2 = body
    if not (isinstance(s0, ast.Assign) and len(s0.targets) == 1
            and isinstance(s0.targets[0], ast.Name) and s0.targets[0].id == "idx"):
        raise Reject("first statement must assign idx")
    if first_is_lookup:
        if not is_kinds_sub(s0.value):
            raise Reject("idx must be read from self.kinds[kind]")
    elif not (isinstance(s0.value, ast.Constant) and s0.value.value == 0
              and type(s0.value.value) is int):
        raise Reject("idx must start at 0")
    if not (isinstance(s1, ast.Assign) and len(s1.targets) == 1
            and isinstance(s1.targets[0], ast.Name) and s1.targets[0].id == "name"):
        raise Reject("second statement must assign name")
    tpl = split_template(flatten_concat(s1.value))
    ok = (isinstance(s2, ast.Assign) and len(s2.targets) == 1 and is_kinds_sub(s2.targets[0])
          and isinstance(s2.value, ast.BinOp) and isinstance(s2.value.op, ast.Add)
          and isinstance(s2.value.left, ast.Name) and s2.value.left.id == "idx"
          and isinstance(s2.value.right, ast.Constant) and s2.value.right.value == 1
          and type(s2.value.right.value) is int)
    if not ok:
        raise Reject("third statement must be self.kinds[kind] = idx + 1")
    return tpl


def method_template(fn):
    body = [s for s in fn.body
            if not (isinstance(s, ast.Expr) and isinstance(s.value, ast.Constant))]
    if [a.arg for a in fn.args.args] != ["self", "kind"]:
        raise Reject("signature must be (self, kind)")
    if len(body) != 2 or not isinstance(body[0], ast.If) or not isinstance(body[1], ast.Return):
        raise Reject("body must be if/else + return")
    test = body[0].test
    ok = (isinstance(test, ast.Compare) and len(test.ops) == 1 and isinstance(test.ops[0], ast.In)
          and isinstance(test.left, ast.Name) and test.left.id == "kind")
    if ok:
        c = test.comparators[0]
        if isinstance(c, ast.Call) and isinstance(c.func, ast.Attribute) and c.func.attr == "keys" and not c.args:
            c = c.func.value
        ok = (isinstance(c, ast.Attribute) and isinstance(c.value, ast.Name)
              and c.value.id == "self" and c.attr == "kinds")
    if not ok:
        raise Reject("test must be `kind in self.kinds[.keys()]`")
    if not (isinstance(body[1].value, ast.Name) and body[1].value.id == "name"):
        raise Reject("must return name")
    t1 = branch_template(body[0].body, True)
    t2 = branch_template(body[0].orelse, False)
    if t1 != t2:
        raise Reject("the two branches build different names")
    return t1


REF_RESERVE = """
def reserve_names(self, names):
    for name in names:
        match = _GENERATED_NAME.fullmatch(name)
        if match:
            kind, idx_str = [g for g in match.groups() if g is not None]
            idx = int(idx_str)
            self.kinds[kind] = max(self.kinds.get(kind, 0), idx + 1)
"""
REF_ADD = """
def add_block(self, basic_block):
    self.name_gen.reserve_names([basic_block.name])
    self.graph[basic_block.name] = basic_block
"""
REF_POST_PREFIX = """
def __post_init__(self):
    self.name_gen.reserve_names(self.graph.keys())
    for block in self.graph.values():
        if isinstance(block, SyntheticBranch):
            self.name_gen.reserve_names([block.variable])
        elif isinstance(block, SyntheticAssignment):
            self.name_gen.reserve_names(block.variable_assignment.keys())
"""


def strip_fn(fn):
    """Function body without docstring, arguments without annotations, as a dump."""
    body = [s for s in fn.body
            if not (isinstance(s, ast.Expr) and isinstance(s.value, ast.Constant)
                    and isinstance(s.value.value, str))]
    return [a.arg for a in fn.args.args], [ast.dump(b) for b in body]


def check_reservation(tree, fns, tpls):
    """The model's reserve/parse mirror reserve_names, its regular expression and
    the two call sites; anything else is rejected."""
    import re as _re

    (bpre, bmid, bpost), (rpre, rmid, rpost), (vpre, vmid, vpost) = (
        tpls["tpl_block"], tpls["tpl_region"], tpls["tpl_var"])
    if bpre or bpost or rpre or rpost:
        raise Reject("block/region templates with pre or post are not supported by the regex check")
    if not (bmid.startswith("_") and bmid.endswith("_") and rmid.startswith("_") and rmid.endswith("_")):
        raise Reject("block/region infix must be _word_")
    expected = "(.*)_(?:%s|%s)_([0-9]+)|%s(.*)%s([0-9]+)%s" % (
        _re.escape(bmid[1:-1]), _re.escape(rmid[1:-1]),
        _re.escape(vpre), _re.escape(vmid), _re.escape(vpost))
    found = None
    for n in tree.body:
        if (isinstance(n, ast.Assign) and len(n.targets) == 1 and isinstance(n.targets[0], ast.Name)
                and n.targets[0].id == "_GENERATED_NAME"):
            c = n.value
            ok = (isinstance(c, ast.Call) and ast.dump(c.func) == ast.dump(ast.parse("re.compile").body[0].value)
                  and len(c.args) == 2 and isinstance(c.args[0], ast.Constant)
                  and ast.dump(c.args[1]) == ast.dump(ast.parse("re.DOTALL").body[0].value)
                  and not c.keywords)
            if not ok:
                raise Reject("_GENERATED_NAME must be re.compile(<literal>, re.DOTALL)")
            found = c.args[0].value
    if found is None:
        raise Reject("_GENERATED_NAME not found")
    if found != expected:
        raise Reject("regular expression %r differs from the one the templates imply %r" % (found, expected))
    if "reserve_names" not in fns:
        raise Reject("reserve_names missing")
    ref = ast.parse(REF_RESERVE).body[0]
    if strip_fn(fns["reserve_names"]) != strip_fn(ref):
        raise Reject("reserve_names differs from the modelled shape")
    scfg = [n for n in tree.body if isinstance(n, ast.ClassDef) and n.name == "SCFG"]
    if len(scfg) != 1:
        raise Reject("class SCFG not found")
    sf = {n.name: n for n in scfg[0].body if isinstance(n, ast.FunctionDef)}
    if "add_block" not in sf or strip_fn(sf["add_block"]) != strip_fn(ast.parse(REF_ADD).body[0]):
        raise Reject("SCFG.add_block differs from: reserve the name, then store the block")
    if "__post_init__" not in sf:
        raise Reject("SCFG.__post_init__ missing")
    got = strip_fn(sf["__post_init__"])
    want = strip_fn(ast.parse(REF_POST_PREFIX).body[0])
    if got[0] != want[0] or got[1][:len(want[1])] != want[1]:
        raise Reject("SCFG.__post_init__ does not begin by reserving the graph's names and control variables")
    # every other write to a graph dictionary in scfg.py goes through add_block or re-inserts a popped block
    return True


def coq_string(s):
    if any(ord(ch) > 126 or ord(ch) < 32 for ch in s):
        raise Reject("non-printable character in a literal")
    return '"' + s.replace('"', '""') + '"'


@register
def translate_names():
    src = os.path.join(common.REPO, "numba_scfg/core/datastructures/scfg.py")
    header = "(* GENERATED by harness/vh/tr_names.py from %s — do not edit *)\n" % src
    header += "From Coq Require Import String List.\nFrom V Require Import Model.NameGen.\nLocal Open Scope string_scope.\n"
    try:
        tree = ast.parse(open(src).read())
        cls = [n for n in tree.body if isinstance(n, ast.ClassDef) and n.name == "NameGenerator"]
        if len(cls) != 1:
            raise Reject("class NameGenerator not found")
        fns = {n.name: n for n in cls[0].body if isinstance(n, ast.FunctionDef)}
        extra = sorted(set(fns) - set(m for m, _ in METHODS) - {"reserve_names"})
        if extra:
            raise Reject("unexpected methods in NameGenerator: %s" % extra)
        lines = [header]
        tpls = {}
        for m, coqname in METHODS:
            if m not in fns:
                raise Reject("method %s missing" % m)
            pre, mid, post = method_template(fns[m])
            tpls[coqname] = (pre, mid, post)
            lines.append("Definition %s : tpl := mkTpl (lit %s) (lit %s) (lit %s)."
                         % (coqname, coq_string(pre), coq_string(mid), coq_string(post)))
        check_reservation(tree, fns, tpls)
        lines.append("Definition gen_tpls (c : cat) : tpl :=\n  match c with CBlock => tpl_block | CRegion => tpl_region | CVar => tpl_var end.")
        lines.append("Definition names_translation_ok : bool := true.")
        return "NameTemplates.v", "\n".join(lines) + "\n", "ok"
    except (Reject, SyntaxError, OSError) as e:
        text = header + "(* translation failed: %s *)\n" % str(e).replace("*)", "* )")
        text += ("Definition tpl_block : tpl := mkTpl nil nil nil.\nDefinition tpl_region : tpl := mkTpl nil nil nil.\n"
                 "Definition tpl_var : tpl := mkTpl nil nil nil.\n"
                 "Definition gen_tpls (c : cat) : tpl := tpl_block.\n"
                 "Definition names_translation_ok : bool := false.\n")
        return "NameTemplates.v", text, "FAILED: %s" % e

"""Shared, cached run of the pipeline correspondence (pipe.py / PipeRun.run_pipe):
implementation and Coq model on the same closed graphs, whole state compared
after every stage.  Used by C02 (obligation), C12 and the evidence of C01, C03..C06."""
import fcntl
import json
import os
import time

from . import common, gen_graphs, par, pipe, snap


def compute(tier, seed):
    t0 = time.time()
    items = pipe.items_for(tier, seed)
    if tier == "thorough":
        for s in gen_graphs.exhaustive(5):
            items.append(("exh5", s, "basic"))
    out, errors = par.run(items, pipe.export_item)
    res = {"tier": tier, "seed": seed, "graphs": len(items), "agree": 0, "mismatches": [], "mismatch_count": 0,
           "harness_errors": [str(e)[:300] for e in errors[:3]], "fixed_universe_graphs": 0,
           "implementation_raised": 0, "by_source": {}, "by_n": {}, "stages_compared": 0}
    for item, meta, r in out:
        src, succ, pk = item
        res["by_source"][src] = res["by_source"].get(src, 0) + 1
        res["by_n"][str(len(succ))] = res["by_n"].get(str(len(succ)), 0) + 1
        if meta and "harness_error" in meta:
            res["harness_errors"].append(meta["harness_error"])
            continue
        if meta and "model_mismatch" in meta:
            res["mismatch_count"] += 1
            if len(res["mismatches"]) < 10:
                res["mismatches"].append({"graph": succ, "what": meta["model_mismatch"]})
            continue
        if r is None:
            res["harness_errors"].append("no answer for %r" % (succ,))
            continue
        if meta.get("fixed_universe"):
            res["fixed_universe_graphs"] += 1
        if meta.get("exc"):
            res["implementation_raised"] += 1
        res["stages_compared"] += meta.get("stages", 0)
        if r == [1, 1, 1, 1]:
            res["agree"] += 1
        else:
            res["mismatch_count"] += 1
            if len(res["mismatches"]) < 10:
                stage = next((k for k in range(3) if len(r) > k + 1 and r[k + 1] != 1), None)
                res["mismatches"].append({"graph": succ, "answers": r,
                                          "stage": None if stage is None else pipe.stages.STAGES[stage],
                                          "implementation_raised": (meta.get("exc") or {}).get("type")})
    res["wall_s"] = round(time.time() - t0, 2)
    return res


def get(tier, seed):
    d = snap.cache_dir(tier, seed)
    os.makedirs(os.path.join(common.BUILD, "cache"), exist_ok=True)
    lock = open(os.path.join(common.BUILD, "cache", "lock.pipe"), "w")
    fcntl.flock(lock, fcntl.LOCK_EX)
    try:
        f = os.path.join(d, "pipe.json")
        vstamp = os.path.getmtime(par.VCHK)
        if os.path.exists(f):
            r = json.load(open(f))
            if r.get("vchk_mtime") == vstamp:
                r["from_cache"] = True
                return r
        r = compute(tier, seed)
        r["vchk_mtime"] = vstamp
        os.makedirs(d, exist_ok=True)
        with open(f + ".tmp", "w") as fh:
            json.dump(r, fh)
        os.replace(f + ".tmp", f)
        r["from_cache"] = False
        return r
    finally:
        fcntl.flock(lock, fcntl.LOCK_UN)
        lock.close()


def summary(r):
    return {"graphs": r["graphs"], "agree": r["agree"], "mismatches": r["mismatch_count"],
            "stages_compared": r["stages_compared"], "fixed_universe_graphs": r["fixed_universe_graphs"],
            "implementation_raised": r["implementation_raised"], "by_n": r["by_n"], "by_source": r["by_source"],
            "first_mismatches": r["mismatches"][:3], "wall_s": r["wall_s"],
            "what": "implementation vs Model/Pipe.v (extracted), whole state after each stage: every graph of the "
                    "hierarchy in dictionary order, kinds, value tables, assignments, headers, exiting blocks, "
                    "nesting, generator counters; an exception must be matched by the same kind of error"}

"""Stand-alone exporter for C09; runs under any supported interpreter
(`python c09_export.py ops` / `python c09_export.py corpus <tier> <seed>`).
No third-party imports."""
import dis
import importlib
import json
import opcode
import os
import random
import sys
import types

REPO = os.environ.get("VERIF_REPO", "/repo")
sys.path.insert(0, REPO)
try:
    import yaml  # noqa: F401
except ImportError:
    sys.path.insert(0, os.path.join(os.path.dirname(os.path.dirname(os.path.abspath(__file__))), "stub"))

# opcodes that belong to exception handling, generators/coroutines or the
# interpreter's own machinery: functions containing one are outside C09's domain
EXCLUDED = {
    "SEND", "JUMP_BACKWARD_NO_INTERRUPT", "RETURN_GENERATOR", "YIELD_VALUE", "RAISE_VARARGS", "RERAISE",
    "END_ASYNC_FOR", "CLEANUP_THROW", "INTERPRETER_EXIT", "POP_EXCEPT", "PUSH_EXC_INFO",
    "CHECK_EXC_MATCH", "CHECK_EG_MATCH", "WITH_EXCEPT_START", "BEFORE_WITH", "BEFORE_ASYNC_WITH",
    "GET_AWAITABLE", "GET_AITER", "GET_ANEXT", "END_SEND", "ASYNC_GEN_WRAP", "PREP_RERAISE_STAR",
    "GET_YIELD_FROM_ITER", "LOAD_ASSERTION_ERROR",
}


UNCONDITIONAL = {"JUMP_FORWARD", "JUMP_BACKWARD", "JUMP_ABSOLUTE", "JUMP_BACKWARD_NO_INTERRUPT",
                 "JUMP", "JUMP_NO_INTERRUPT"}


def is_uncond_name(name):
    return name in UNCONDITIONAL


def interp_ops():
    out = []
    jumps = set(opcode.hasjrel) | set(opcode.hasjabs)
    caches = getattr(opcode, "_inline_cache_entries", None)
    for name, op in sorted(opcode.opmap.items()):
        if op >= 256 or name == "CACHE":
            continue
        if op in jumps:
            cls = 2 if is_uncond_name(name) else 1
        elif name in ("RETURN_VALUE", "RETURN_CONST"):
            cls = 3
        else:
            cls = 0
        if caches is None:
            nc = 0
        elif isinstance(caches, dict):
            nc = caches.get(name, 0)
        else:
            nc = caches[op]
        dom = name not in EXCLUDED and not name.startswith("SETUP_") and not name.startswith("INSTRUMENTED_")
        out.append([name, cls, nc, dom])
    return out


def in_domain(code):
    if getattr(code, "co_exceptiontable", b""):
        return False
    if code.co_flags & (0x20 | 0x80 | 0x100 | 0x200):
        return False
    for i in dis.get_instructions(code):
        if i.opname in EXCLUDED or i.opname.startswith("SETUP_"):
            return False
    return True


def lib_class(opname):
    from numba_scfg.core import utils

    if utils.is_conditional_jump(opname):
        return 1
    if utils.is_unconditional_jump(opname):
        return 2
    if utils.is_exiting(opname):
        return 3
    return 0


def ground_truth(code, blocks):
    """Direct evaluation of the property on the implementation's blocks (used to
    describe a failure, and for streams outside the theorem's hypotheses)."""
    insts = list(dis.get_instructions(code))
    offs = [i.offset for i in insts]
    nxt = {a: b for a, b in zip(offs, offs[1:])}
    jumps = set(opcode.hasjrel) | set(opcode.hasjabs)
    succ = {}
    for i in insts:
        if i.opname in ("RETURN_VALUE", "RETURN_CONST"):
            succ[i.offset] = ()
        elif i.opcode in jumps:
            succ[i.offset] = (i.argval,) if is_uncond_name(i.opname) else (nxt.get(i.offset), i.argval)
        else:
            succ[i.offset] = (nxt.get(i.offset),)
    if not blocks or blocks[0][0] != 0:
        return "first block does not begin at 0"
    for a, b in zip(blocks, blocks[1:]):
        if a[1] != b[0]:
            return "gap or overlap between blocks %r and %r" % (a[:2], b[:2])
    if blocks[-1][1] <= insts[-1].offset:
        return "last instruction not covered"
    first = {}
    for b, e, _ in blocks:
        ins = [i for i in insts if b <= i.offset < e]
        if ins:
            first[b] = ins[0].offset
    for b, e, ss in blocks:
        ins = [i for i in insts if b <= i.offset < e]
        if not ins:
            return "block %d..%d holds no instruction of the stream" % (b, e)
        last = ins[-1]
        got = tuple(first.get(t, t) for t in ss)
        if tuple(succ[last.offset]) != got:
            return "successors of block %d..%d are %r, its last instruction %s goes to %r" % (
                b, e, got, last.opname, succ[last.offset])
        for i in ins[:-1]:
            s = succ[i.offset]
            if len(s) != 1 or s[0] != nxt.get(i.offset):
                return "%s at %d in the middle of block %d..%d" % (i.opname, i.offset, b, e)
        for i in ins[1:]:
            if i.is_jump_target:
                return "jump target %d inside block %d..%d" % (i.offset, b, e)
    return None


def export_function(f, label):
    from numba_scfg.core.datastructures.byte_flow import ByteFlow

    code = f.__code__
    insts = list(dis.Bytecode(f))
    rows = [[109]]
    total = len(code.co_code)
    for k, i in enumerate(insts):
        nxt = insts[k + 1].offset if k + 1 < len(insts) else total
        arg = i.argval if isinstance(i.argval, int) and lib_class(i.opname) in (1, 2) else 0
        rows.append([70, i.offset, nxt - i.offset, lib_class(i.opname), arg, 1 if i.is_jump_target else 0])
    status = 0
    blocks = []
    err = None
    try:
        flow = ByteFlow.from_bytecode(f)
        bs = sorted(flow.scfg.graph.values(), key=lambda b: b.begin)
        begin_of = {b.name: b.begin for b in bs}
        blocks = [(b.begin, b.end, [begin_of[t] for t in b._jump_targets]) for b in bs]
    except KeyError as e:
        status = 1
        err = "KeyError(%s)" % e
    except Exception as e:  # any other failure: reported as such
        status = 2
        err = repr(e)[:200]
    rows.append([71, status])
    for b, e, ss in blocks:
        rows.append([72, b, e, len(ss)] + ss)
    gt = ground_truth(code, blocks) if status == 0 else err
    text = "#c09\n" + "\n".join(" ".join(map(str, r)) for r in rows) + "\n0\n"
    meta = {"label": label, "n_inst": len(insts), "n_blocks": len(blocks), "status": status,
            "ground_truth": gt,
            "ops": sorted(set(i.opname for i in insts if lib_class(i.opname) or i.opname in ("FOR_ITER",)))}
    return text, meta


MODULES = ["json.decoder", "json.encoder", "json.scanner", "textwrap", "heapq", "bisect", "string", "shlex",
           "statistics", "fractions", "posixpath", "glob", "fnmatch", "difflib", "calendar", "base64", "copy",
           "keyword", "colorsys", "dis", "ast", "tokenize", "random", "argparse", "abc", "codecs", "collections",
           "configparser", "contextlib", "csv", "datetime", "decimal", "enum", "functools", "getopt", "gettext",
           "gzip", "hashlib", "hmac", "inspect", "ipaddress", "linecache", "locale", "mimetypes", "numbers",
           "opcode", "operator", "optparse", "os", "pathlib", "pickle", "pprint", "queue", "re", "reprlib",
           "sched", "secrets", "shutil", "stat", "struct", "tempfile", "threading", "timeit", "token", "types",
           "typing", "uuid", "warnings", "weakref", "zipfile"]

SYNTH = '''
def s_for(x):
    for i in x:
        pass
def s_for_else(x, y):
    for i in x:
        if i:
            break
    else:
        y()
    return 1
def s_while(x):
    while x:
        x -= 1
    return x
def s_while_true(x):
    while True:
        if x:
            return 1
        x += 1
def s_none(x):
    return None if x is None else x
def s_not_none(x):
    if x is not None:
        return 1
def s_andor(a, b, c):
    return (a and b) or c
def s_not(a):
    if not a:
        return 2
    return 3
def s_chain(a, b, c):
    return a < b < c
def s_nested(a, b):
    for i in a:
        for j in b:
            if i == j:
                continue
            if i > j:
                break
        else:
            return 5
    return 6
def s_ternary(a):
    return 1 if a else 2
def s_ret_const():
    return
def s_elif(a):
    if a == 1:
        return 1
    elif a == 2:
        return 2
    else:
        return 3
def s_while_else(a):
    while a:
        a -= 1
        if a == 3:
            break
    else:
        a = 7
    return a
'''


def throwaway_sources(n):
    """Small functions of varying control-flow shape (elif chains of different length, loops with and
    without break / else), each different from its predecessor."""
    out = []
    for i in range(n):
        k = i % 6
        lines = ["def f(a, b):"]
        if i % 3 == 1:
            lines += ["    for x in a:", "        if x:", "            break" if i % 2 else "            continue",
                      "    else:" if i % 4 == 1 else "    if b:", "        b = 1"]
        elif i % 3 == 2:
            lines += ["    while a:", "        a = a - 1", "        if a == b:", "            return %d" % i]
        for j in range(k):
            lines += ["    %s a == %d:" % ("if" if j == 0 else "elif", j), "        return %d" % (i + j)]
        lines += ["    return b"]
        out.append("\n".join(lines) + "\n")
    return out


def functions_of(mod):
    for n, o in list(vars(mod).items()):
        if isinstance(o, types.FunctionType) and o.__module__ == mod.__name__:
            yield mod.__name__ + "." + o.__qualname__, o
        if isinstance(o, type) and getattr(o, "__module__", None) == mod.__name__:
            for m in list(vars(o).values()):
                if isinstance(m, types.FunctionType):
                    yield mod.__name__ + "." + m.__qualname__, m


def corpus(tier, seed):
    ns = {}
    exec(compile(SYNTH, "<synthetic>", "exec"), ns)
    out = [("synthetic." + k, v) for k, v in ns.items() if isinstance(v, types.FunctionType)]
    mods = MODULES if tier == "thorough" else MODULES[:26]
    for m in mods:
        try:
            mod = importlib.import_module(m)
        except Exception:
            continue
        out += list(functions_of(mod))
    return out


def main():
    import logging

    logging.disable(logging.CRITICAL)
    mode = sys.argv[1]
    if mode == "ops":
        json.dump({"version": "%d.%d" % sys.version_info[:2], "ops": interp_ops()}, sys.stdout)
        return
    tier, seed = sys.argv[2], int(sys.argv[3])
    outdir = sys.argv[4]
    fs = corpus(tier, seed)
    metas = []
    skipped = 0
    with open(os.path.join(outdir, "instances.txt"), "w") as fh:
        for label, f in fs:
            if not in_domain(f.__code__):
                skipped += 1
                continue
            text, meta = export_function(f, label)
            fh.write(text)
            metas.append(meta)
        # functions that are compiled, analysed and dropped one after the other: the next code object may
        # sit at the address of the previous one, so anything the library remembers per object (by identity)
        # shows up as the control flow of an earlier function (seeded change C09-r9)
        import gc
        for i, src in enumerate(throwaway_sources(60 if tier == "quick" else 600)):
            ns = {}
            exec(compile(src, "<throwaway %d>" % i, "exec"), ns)
            f = ns["f"]
            if in_domain(f.__code__):
                text, meta = export_function(f, "throwaway.%d" % i)
                fh.write(text)
                metas.append(meta)
            del f, ns
            gc.collect()
    json.dump({"version": "%d.%d" % sys.version_info[:2], "skipped_out_of_domain": skipped, "metas": metas},
              open(os.path.join(outdir, "metas.json"), "w"))


if __name__ == "__main__":
    main()

"""C17: rendering — the DOT body produced by the implementation, parsed into
drawing commands and compared with the model; label text checked here."""
import random
import re

from . import common, export, gen_graphs, snap, stages

NODE = re.compile(r'^\t+("?)([^\s"\[]+)\1 \[label=(.*) shape=rect style=rounded\]$|^\t+("?)([^\s"\[]+)\4 \[label=(.*) shape=rect\]$', re.DOTALL)
EDGE = re.compile(r'^\t+("?)([^\s"]+)\1 -> ("?)([^\s"]+)\3( \[.*\])?$')
OPEN = re.compile(r'^\t+subgraph ("?)cluster_([^\s"]+)\1 \{$')


def parse_body(body):
    cmds = []
    labels = {}
    for line in body:
        line = line.rstrip("\n")
        m = OPEN.match(line)
        if m:
            cmds.append(("open", m.group(2)))
            continue
        if line.strip() == "}":
            cmds.append(("close",))
            continue
        m = EDGE.match(line)
        if m:
            cmds.append(("edge", m.group(2), m.group(4), "style=dashed" in (m.group(5) or "")))
            continue
        m = NODE.match(line)
        if m:
            name = m.group(2) or m.group(5)
            labels[name] = m.group(3) or m.group(6)
            cmds.append(("node", name))
            continue
        if line.strip().startswith("color="):
            continue  # cluster attributes
        cmds.append(("unparsed", line))
    return cmds, labels


def label_problem(name, block, label):
    """Labels show the block's name, control variable and value table or assignments."""
    from numba_scfg.core.datastructures.basic_block import SyntheticAssignment, SyntheticBranch

    if name not in label:
        return "label lacks the block's name"
    if isinstance(block, SyntheticAssignment):
        for v, z in block.variable_assignment.items():
            if "%s = %s" % (v, z) not in label:
                return "label lacks the assignment %s = %s" % (v, z)
    if isinstance(block, SyntheticBranch):
        if block.variable not in label:
            return "label lacks the control variable"
        for z, t in block.branch_value_table.items():
            if str(z) not in label or t not in label:
                return "label lacks the table entry %s -> %s" % (z, t)
    return None


def rows_for(scfg, orig, body_cmds, status):
    rows, tabs = export.export(orig, scfg)
    ids = tabs["names"]
    out = [[117]] + rows
    for c in body_cmds:
        if c[0] == "node":
            out.append([90, ids[c[1]]])
        elif c[0] == "open":
            out.append([91, ids[c[1]]])
        elif c[0] == "close":
            out.append([92])
        elif c[0] == "edge":
            out.append([93, ids[c[1]], ids[c[2]], 1 if c[3] else 0])
        else:
            raise KeyError("unparsed DOT line: %r" % (c,))
    out.append([94, status])
    return out


def export_item(item):
    from numba_scfg.rendering.rendering import SCFGRenderer

    src, succ, pk = item
    sc = stages.make_scfg(succ, snap.block_factory(pk))
    orig = export.original_of(sc)
    texts = []
    meta = {"failures": []}

    def on_stage(k, st, scfg):
        try:
            r = SCFGRenderer(scfg)
            cmds, labels = parse_body(r.g.body)
            status = 0
        except Exception as e:
            meta["failures"].append({"stage": k, "reason": "rendering raised %r" % (e,)})
            cmds, labels, status = [], {}, 1
        from .pysim import Flat

        fl = Flat(scfg)
        for n, b in fl.node.items():
            if not fl.is_region(b) and status == 0:
                if n not in labels:
                    meta["failures"].append({"stage": k, "reason": "no node drawn for block %s" % n})
                else:
                    p = label_problem(n, b, labels[n])
                    if p:
                        meta["failures"].append({"stage": k, "reason": "%s: %s" % (n, p)})
        try:
            rows = rows_for(scfg, orig, cmds, status)
        except KeyError as e:
            meta["failures"].append({"stage": k, "reason": str(e)[:200]})
            return
        texts.append("#%d\n" % k + "\n".join(" ".join(map(str, r)) for r in rows) + "\n0\n")

    meta["exc"] = stages.run_stages(sc, on_stage)
    return "".join(texts) if texts else None, meta


def items_for(tier, seed):
    items = []
    for n in (1, 2, 3):
        for s in gen_graphs.exhaustive(n):
            items.append(("exh%d" % n, s, "basic"))
    rng = random.Random(seed + 17)
    g4 = list(gen_graphs.exhaustive(4))
    for i, s in enumerate(rng.sample(g4, 300 if tier == "quick" else len(g4))):
        items.append(("exh4", s, ("basic", "bc", "ast")[i % 3]))
    for s in gen_graphs.shapes():
        items.append(("shape", s, "ast"))
    for i in range(300 if tier == "quick" else 6000):
        n = rng.randrange(5, 13) if i % 2 == 0 else rng.randrange(13, 31)
        items.append(("rnd", gen_graphs.random_closed(rng, n), ("basic", "bc", "ast")[i % 3]))
    return items


def byteflow_items(tier):
    """ByteFlowRenderer on real functions (before and after restructuring)."""
    import types
    import textwrap, heapq, bisect, shlex, fnmatch, posixpath, colorsys  # noqa: E401

    out = []
    for mod in (textwrap, heapq, bisect, shlex, fnmatch, posixpath, colorsys):
        for name, f in sorted(vars(mod).items()):
            if isinstance(f, types.FunctionType) and not f.__code__.co_exceptiontable:
                out.append((mod.__name__ + "." + name, f))
    return out if tier == "thorough" else out[:40]


def byteflow_texts(tier):
    from numba_scfg.core.datastructures.byte_flow import ByteFlow
    from numba_scfg.rendering.rendering import ByteFlowRenderer

    texts = []
    failures = []
    for label, f in byteflow_items(tier):
        try:
            flow = ByteFlow.from_bytecode(f)
        except Exception:
            continue
        for restructured in (False, True):
            if restructured:
                try:
                    flow.scfg.restructure()
                except Exception:
                    break
            try:
                g = ByteFlowRenderer().render_byteflow(flow)
                cmds, labels = parse_body(g.body)
                status = 0
            except Exception as e:
                failures.append({"function": label, "reason": "ByteFlowRenderer raised %r" % (e,)})
                continue
            orig = {}
            try:
                rows = rows_for(flow.scfg, orig, cmds, status)
            except KeyError as e:
                failures.append({"function": label, "reason": str(e)[:200]})
                continue
            texts.append("#bf\n" + "\n".join(" ".join(map(str, r)) for r in rows) + "\n0\n")
    return texts, failures

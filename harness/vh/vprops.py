"""Checks for the validator properties C01, C03, C04, C05, C06: the verified
checkers (Coq, extracted) run on the implementation's real output."""
import json
import os
import random
import subprocess

from . import common, piperun, pysim, snap

# property -> list of (stage, column)
COLUMNS = {
    "C01": [(0, 1), (0, 2), (1, 1), (1, 2), (2, 1), (2, 2), (0, 8), (1, 8), (2, 8)],
    "C03": [(1, 6), (2, 7)],
    "C04": [(0, 3), (1, 3), (2, 3)],
    "C05": [(0, 4), (1, 4), (2, 4)],
    "C06": [(0, 5), (1, 5), (2, 5)],
}
COLNAME = {1: "c01_check false (flat walk)", 2: "c01_check true (region walk)", 3: "wf_check",
           4: "cons_check", 5: "c06_check", 6: "c03_check false (loop part)",
           7: "c03_check true", 8: "arcs_resolve (the region discipline resolves every arc)"}
THEOREM = {"C01": "C01_checker_sound", "C03": "C03_checker_sound", "C04": "C04_checker_sound",
           "C05": "C05_checker_sound", "C06": "C06_checker_sound"}
NOT_PROVED = {
    "C01": "Not proved: forall closed g, PathEq g (restructure g) over a model of the whole "
           "pipeline. Proved: for each instance the checker accepts, path equivalence for ALL "
           "decision lists (sim_check_sound), both walks. Instances are enumerated/generated.",
    "C03": "Not proved: that restructure() always yields a structured hierarchy. Proved: "
           "struct_check_sound (rank certificates imply acyclicity at every level and of the "
           "flat graph; back-edge and branch clauses) per instance.",
    "C04": "Not proved: universal well-formedness of the pipeline's output. Proved: "
           "wf_check_sound per instance.",
    "C05": "Not proved: universal conservation by the pipeline. Proved: cons_check_sound per "
           "instance.",
    "C06": "Not proved: universal control-variable safety of the pipeline's output. Proved: "
           "ctrl_check_sound — for each accepted instance ALL decision lists run without "
           "unset / out-of-range / stale reads; table ⇄ targets agreement.",
}


def search(pid, f):
    """Turn a checker rejection into a concrete failing input against the real code."""
    common.import_repo()
    try:
        orig, sc = snap.rebuild(f["graph"], f["payload"], f["stage"])
    except Exception as e:
        return {"reason": "stage raised while re-running", "detail": repr(e)}
    if pid == "C01":
        out = []
        for col, rw in ((1, False), (2, True)):
            if f["cols"][col] != 1:
                v = pysim.find_path_violation(orig, sc, rw)
                if v:
                    v["walk"] = "region" if rw else "flat"
                    out.append(v)
        return out[0] if out else None
    if pid == "C06":
        return pysim.find_ctrl_violation(orig, sc)
    if pid == "C04":
        return pysim.find_wf_violation(sc)
    if pid == "C05":
        return pysim.find_cons_violation(orig, sc)
    if pid == "C03":
        return pysim.find_struct_violation(sc, f["stage"] == 2)
    return None


def kernel_sample(pid, sn, k):
    """Re-evaluate k sampled instances inside the Coq kernel (vm_compute), bypassing
    extraction and the OCaml driver.  Returns (n_checked, n_ok, error)."""
    rows_texts = sn.get("sample_rows", [])[:k]
    if not rows_texts:
        return 0, 0, "no samples"
    cols = sorted(set(c for _, c in COLUMNS[pid]))
    d = os.path.join(common.BUILD, "cases")
    os.makedirs(d, exist_ok=True)
    lines = ["From Coq Require Import List ZArith.", "Import ListNotations.",
             "From V Require Import Valid.Hier Valid.Run.", "Local Open Scope Z_scope."]
    n = 0
    for t in rows_texts:
        rows = [r for r in t.splitlines() if r and not r.startswith("#") and r.strip() != "0"]
        stage = int(t.splitlines()[0][1:])
        lit = "[" + "; ".join("[" + "; ".join(
            ("(%s)" % x if x.startswith("-") else x) for x in r.split()) + "]" for r in rows) + "]"
        lines.append("Definition inst_%d : list (list Z) := %s." % (n, lit))
        for c in cols:
            if (stage, c) in COLUMNS[pid]:
                lines.append("Theorem inst_%d_col_%d : col %d inst_%d = 1. Proof. vm_compute. reflexivity. Qed."
                             % (n, c, c, n))
        n += 1
    src = os.path.join(d, "%s_cases.v" % pid)
    open(src, "w").write("\n".join(lines) + "\n")
    res = subprocess.run(["timeout", "600", "coqc", "-Q", common.COQ, "V", src],
                         capture_output=True, text=True, cwd=d)
    if res.returncode != 0:
        return n, 0, (res.stdout + res.stderr)[-600:]
    return n, n, None


def check(pid, tier, build, props):
    t = common.Timer()
    seed = common.seed()
    sn = snap.get_snapshot(tier, seed)
    cols = COLUMNS[pid]
    checked = sum(sn["pass"][s][c] + sn["fail"][s][c] for s, c in cols)
    fails = [f for f in sn["failures"]
             if f.get("undecodable") or any(f["stage"] == s and f["cols"][c] != 1 for s, c in cols)]
    violations = []
    disagreements = 0
    for f in fails[:25]:
        disagreements += 1
        w = search(pid, f) if not f.get("undecodable") else {"reason": "instance undecodable"}
        rej = [COLNAME[c] for s, c in cols if f["stage"] == s and len(f["cols"]) > c and f["cols"][c] != 1]
        violations.append({"graph": f["graph"], "payload": f["payload"],
                           "stage": snap.stages.STAGES[f["stage"]], "rejected_by": rej, "witness": w})
    kn, kok, kerr = kernel_sample(pid, sn, 6 if tier == "quick" else 60)
    from . import build as buildmod

    problems = buildmod.relevant_failures(pid, build)
    if build["forbidden"]:
        problems.append("forbidden vernacular: " + "; ".join(build["forbidden"][:3]))
    if not props["ok"]:
        problems.append("Props/%s.v does not check: %s" % (pid, props["output"][-300:]))
    if sn["harness_errors"]:
        problems.append("harness errors: %r" % sn["harness_errors"][:2])
    if sn["export_errors"]:
        problems.append("export errors: %r" % sn["export_errors"][:2])
    if checked < 100:
        problems.append("only %d instances reached the checker" % checked)
    if kerr:
        problems.append("in-kernel re-evaluation failed: " + kerr)
    pr = piperun.get(tier, seed)
    tie_ok = pr["mismatch_count"] == 0 and not pr["harness_errors"] and pr["agree"] > 0
    coverage = {
        "pipeline_model_tie": dict(piperun.summary(pr), holds=tie_ok,
                                   role="%s_pipeline_model_le4 is a theorem about Model/Pipe.v; it speaks about the "
                                        "implementation only while this tie holds. The decision of this check does "
                                        "not rest on it (the validators run on the implementation's own output); a "
                                        "broken tie is raised by the check of C02." % pid),
        "programs": checked,
        "disagreements_checked": disagreements,
        "samples": sn["samples"][:5] + [{"rows": r.splitlines()[:12]} for r in sn["sample_rows"][:1]],
        "exhaustive": False,
        "input_graphs": sn["graphs"],
        "by_source": sn["by_source"],
        "distribution": sn["distribution"],
        "instances_per_stage_column": {"%s/%s" % (snap.stages.STAGES[s], COLNAME[c]):
                                       {"accepted": sn["pass"][s][c], "rejected": sn["fail"][s][c]}
                                       for s, c in cols},
        "stage_exceptions_seen": len(sn["exceptions"]),
        "kernel_reevaluated_instances": kok,
        "obligations": len(props["theorems"]) + kn + 1,
        "discharged": (len(props["theorems"]) if props["ok"] else 0) + kok + (1 if tie_ok else 0),
        "theorems": props["theorems"],
        "checker_cmd": "bin/build.sh && build/extract/vchk < exported instances; coqc Props/%s.v" % pid,
        "trusted_base": ["Coq 8.16.1 kernel (vm_compute used, no native_compute)",
                         "extraction with ExtrOcamlBasic only; ocaml/driver.ml (int<->Z, line splitting)",
                         "harness/vh/export.py (faithful dump of the live Python objects, "
                         "order-preserving interning of names)"],
        "explanation": NOT_PROVED[pid] + " Exhaustive part: all closed CFGs with <= 4 blocks"
                       + (" and 5 blocks" if sn.get("exh5") else "") + "; the rest is generated.",
        "snapshot_from_cache": sn.get("from_cache", False),
    }
    if pid == "C04":
        # the universal consistency theorem for edits of one level (LevelWf.level_edit_keeps_wf_b): its conditions
        # are evaluated on every call of loop_restructure_helper and insert_block the pipeline makes
        from . import ibcalls, loophcalls
        lht = loophcalls.tie(tier, seed)
        ibt = ibcalls.tie(tier, seed)
        unmet = lht.get("calls_not_meeting_consistency_theorem_conditions", 0) + \
            ibt.get("block_predecessor_calls_not_meeting_them", 0)
        met = lht.get("calls_meeting_consistency_theorem_conditions", 0) + \
            ibt.get("calls_meeting_consistency_theorem_conditions", 0)
        herr = (lht.get("harness_errors") or []) + (ibt.get("harness_errors") or [])
        coverage["level_edit_consistency_theorem"] = {
            "loop_restructure_helper_calls_meeting_the_conditions": lht.get("calls_meeting_consistency_theorem_conditions"),
            "loop_restructure_helper_calls": lht.get("calls_compared"),
            "insert_block_calls_meeting_the_conditions": ibt.get("calls_meeting_consistency_theorem_conditions"),
            "insert_block_calls": ibt.get("calls_compared"),
            "insert_block_calls_with_a_region_predecessor_outside_the_theorem": ibt.get("other_calls_not_meeting_them"),
            "role": "C04_level_edit_keeps_hierarchy_consistent_b: a call that edits the dictionary of one level keeps "
                    "the hierarchy self-consistent when the conditions level_okb hold; evaluated per call together "
                    "with 'the hierarchy the theorem speaks about is the one the implementation produced'"}
        if unmet or herr or not met:
            problems.append("the conditions of the universal consistency theorem for edits of one level "
                            "(LevelWfRun.level_okb; or the hierarchy before the call is not self-consistent, or the "
                            "hierarchy the theorem speaks about is not the one the implementation produced) fail on "
                            "%d calls of loop_restructure_helper / insert_block the pipeline makes (%d meet them), "
                            "first: %r%s" % (unmet, met,
                                             (lht.get("consistency_unmet_examples") or ibt.get("consistency_unmet_examples") or [None])[:1],
                                             (" harness: %r" % herr[:1]) if herr else ""))
    if pid == "C05":
        # the universal conservation theorem for edits of one level (LevelCons.level_edit_conserves_b)
        from . import ibcalls, loophcalls
        lht = loophcalls.tie(tier, seed)
        ibt = ibcalls.tie(tier, seed)
        unmet = lht.get("level_edits_not_meeting_conservation_theorem_conditions", 0) + \
            ibt.get("level_edits_not_meeting_conservation_theorem_conditions", 0)
        met = lht.get("calls_meeting_conservation_theorem_conditions", 0) + \
            ibt.get("calls_meeting_conservation_theorem_conditions", 0)
        herr = (lht.get("harness_errors") or []) + (ibt.get("harness_errors") or [])
        coverage["level_edit_conservation_theorem"] = {
            "loop_restructure_helper_calls_meeting_the_conditions": lht.get("calls_meeting_conservation_theorem_conditions"),
            "loop_restructure_helper_calls": lht.get("calls_compared"),
            "insert_block_calls_meeting_the_conditions": ibt.get("calls_meeting_conservation_theorem_conditions"),
            "insert_block_calls": ibt.get("calls_compared"),
            "role": "C05_level_edit_conserves_b: a call that edits the dictionary of one level keeps every original "
                    "block (payload, parent, back edges, successors position by position unchanged or renamed to an "
                    "inserted block) and creates none, when cons_okb holds; evaluated per call"}
        if unmet or herr or not met:
            problems.append("the conditions of the universal conservation theorem for edits of one level "
                            "(LevelCons.cons_okb) fail on %d calls of loop_restructure_helper / insert_block that are "
                            "edits of one level (%d meet them), first: %r%s"
                            % (unmet, met, (lht.get("conservation_unmet_examples") or ibt.get("conservation_unmet_examples") or [None])[:1],
                               (" harness: %r" % herr[:1]) if herr else ""))
    return {"coverage": coverage, "violations": violations, "problems": problems,
            "level": "translation_validation", "wall_s": t.s(),
            "broken_name": "theorem %s / checker columns %s" % (THEOREM[pid], [COLNAME[c] for _, c in cols])}

"""Run a per-item exporter over many items in parallel and pipe the exported
instances through the extracted Coq binary."""
import multiprocessing as mp
import os
import subprocess

from . import common

VCHK = os.path.join(common.BUILD, "extract", "vchk")
NPROC = min(16, os.cpu_count() or 4)
_FN = None


ITEM_LIMIT = float(os.environ.get("VERIF_ITEM_LIMIT", "120"))


class ItemTimeout(BaseException):
    pass


def _alarm(signum, frame):
    raise ItemTimeout()


def _work(args):
    import signal

    idx, chunk = args
    common.import_repo()
    texts = []
    metas = []
    signal.signal(signal.SIGALRM, _alarm)
    for item in chunk:
        # an item (one graph / program / operation, a few milliseconds of library calls) that does not come
        # back is reported instead of hanging the check and eating memory
        signal.setitimer(signal.ITIMER_REAL, ITEM_LIMIT)
        try:
            t, m = _FN(item)
        except ItemTimeout:
            t, m = None, {"harness_error": "the library calls for this item neither returned nor raised within %d s"
                                            % ITEM_LIMIT, "item": repr(item)[:300]}
        except Exception as e:  # harness failure: reported, never hidden
            t, m = None, {"harness_error": repr(e)[:300], "item": repr(item)[:300]}
        finally:
            signal.setitimer(signal.ITIMER_REAL, 0)
        texts.append(t)
        metas.append(m)
    body = "".join(t for t in texts if t)
    res = subprocess.run([VCHK], input=body, capture_output=True, text=True)
    if res.returncode != 0:
        return idx, metas, None, res.stderr[-400:]
    lines = res.stdout.splitlines()
    out = []
    li = 0
    for t in texts:
        if t is None:
            out.append(None)
        else:
            k = t.count("\n0\n")          # instances exported for this item
            if li + k > len(lines):
                return idx, metas, None, "vchk printed too few lines"
            rs = [[int(x) for x in ln.split()[1:]] if ln.startswith("#")
                  else [int(x) for x in ln.split()] for ln in lines[li:li + k]]
            out.append(rs[0] if k == 1 else rs)
            li += k
    return idx, metas, out, None


def run(items, fn, chunk=None):
    """fn(item) -> (instance text or None, meta).  Returns list of (item, meta, result ints|None)
    and a list of errors."""
    global _FN
    _FN = fn
    items = list(items)
    csize = chunk or max(20, min(1000, len(items) // (NPROC * 4) or 1))
    chunks = [(i, items[k:k + csize]) for i, k in enumerate(range(0, len(items), csize))]
    ctx = mp.get_context("fork")
    with ctx.Pool(NPROC) as pool:
        results = pool.map(_work, chunks)
    out = []
    errors = []
    for idx, metas, res, err in sorted(results, key=lambda r: r[0]):
        ch = chunks[idx][1]
        if res is None:
            errors.append(err)
            continue
        for item, m, r in zip(ch, metas, res):
            out.append((item, m, r))
    return out, errors

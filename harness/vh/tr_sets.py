"""Translator: inventory of the places where numba_scfg iterates over (or takes
an arbitrary element of) a Python set -> coq/Gen/SetSites.v.

Local, syntactic type inference per function: a name is set-typed when it is
assigned from set()/set(..)/a set display or comprehension/a set method
returning a set/a set operator, is a parameter annotated Set[..]/set[..], or is
a subscript of a name bound to defaultdict(set).  A site is
  for .. in E | comprehension over E | next(iter(E)) | E.pop() | list(E) | tuple(E)
with E set-typed.  Each site records whether E is wrapped in sorted(..)."""
import ast
import os

from . import common
from .translate import register
from .tr_names import coq_string

FILES = ["numba_scfg/core/datastructures/scfg.py", "numba_scfg/core/transformations.py",
         "numba_scfg/core/datastructures/basic_block.py", "numba_scfg/core/datastructures/flow_info.py",
         "numba_scfg/core/datastructures/ast_transforms.py", "numba_scfg/networkx_vendored/scc.py",
         "numba_scfg/core/datastructures/byte_flow.py", "numba_scfg/core/utils.py",
         "numba_scfg/rendering/rendering.py"]
SET_METHODS = {"intersection", "union", "difference", "symmetric_difference", "copy"}


def ann_is_set(a):
    if a is None:
        return False
    s = ast.unparse(a)
    return s.startswith("Set[") or s.startswith("set[") or s in ("set", "Set") or s.startswith("List[Set[") is False and False or \
        s.startswith("Set[") or s.startswith("set[")


class FnScan(ast.NodeVisitor):
    def __init__(self, fn):
        self.fn = fn
        self.sets = set()
        self.setdicts = set()   # names bound to defaultdict(set) or Dict[.., Set[..]] parameters
        self.setlists = set()   # names bound to a list of sets (List[Set[..]])
        for a in list(fn.args.args) + list(fn.args.kwonlyargs):
            if a.annotation is not None:
                s = ast.unparse(a.annotation)
                if s.startswith(("Set[", "set[")):
                    self.sets.add(a.arg)
                if s.startswith(("Dict[", "dict[")) and ("Set[" in s or "set[" in s):
                    self.setdicts.add(a.arg)
        changed = True
        while changed:
            changed = False
            for n in ast.walk(fn):
                tgt = None
                val = None
                ann = None
                if isinstance(n, ast.Assign) and len(n.targets) == 1 and isinstance(n.targets[0], ast.Name):
                    tgt, val = n.targets[0].id, n.value
                elif isinstance(n, ast.AnnAssign) and isinstance(n.target, ast.Name):
                    tgt, val, ann = n.target.id, n.value, n.annotation
                elif isinstance(n, ast.AugAssign) and isinstance(n.target, ast.Name):
                    continue
                if (isinstance(n, ast.Assign) and len(n.targets) == 1 and isinstance(n.targets[0], ast.Tuple)
                        and isinstance(n.value, ast.Tuple) and len(n.value.elts) == len(n.targets[0].elts)):
                    for te, ve in zip(n.targets[0].elts, n.value.elts):
                        if isinstance(te, ast.Name) and self.is_set(ve) and te.id not in self.sets:
                            self.sets.add(te.id)
                            changed = True
                if tgt is None:
                    continue
                if ann is not None:
                    s = ast.unparse(ann)
                    if s.startswith(("Set[", "set[")) and tgt not in self.sets:
                        self.sets.add(tgt)
                        changed = True
                    if s.startswith(("List[Set[", "list[set[")) and tgt not in self.setlists:
                        self.setlists.add(tgt)
                        changed = True
                if val is not None:
                    if self.is_set(val) and tgt not in self.sets:
                        self.sets.add(tgt)
                        changed = True
                    if (isinstance(val, ast.Call) and isinstance(val.func, ast.Name) and val.func.id == "defaultdict"
                            and val.args and isinstance(val.args[0], ast.Name) and val.args[0].id == "set"
                            and tgt not in self.setdicts):
                        self.setdicts.add(tgt)
                        changed = True
                    if isinstance(val, ast.DictComp) and tgt not in self.setdicts:
                        # {k: <set expression> for k, v in <setdict>.items()}
                        inner = FnScan.__new__(FnScan)
                        inner.sets = set(self.sets)
                        inner.setdicts = self.setdicts
                        inner.setlists = self.setlists
                        for g in val.generators:
                            if (isinstance(g.iter, ast.Call) and isinstance(g.iter.func, ast.Attribute)
                                    and g.iter.func.attr == "items" and isinstance(g.iter.func.value, ast.Name)
                                    and g.iter.func.value.id in self.setdicts
                                    and isinstance(g.target, ast.Tuple) and len(g.target.elts) == 2
                                    and isinstance(g.target.elts[1], ast.Name)):
                                inner.sets.add(g.target.elts[1].id)
                        if inner.is_set(val.value):
                            self.setdicts.add(tgt)
                            changed = True
            # loop variables over a list of sets are sets
            for n in ast.walk(fn):
                gens = []
                if isinstance(n, ast.For):
                    gens = [(n.target, n.iter)]
                elif isinstance(n, (ast.ListComp, ast.SetComp, ast.GeneratorExp, ast.DictComp)):
                    gens = [(g.target, g.iter) for g in n.generators]
                for t, it in gens:
                    if isinstance(t, ast.Name) and isinstance(it, ast.Name) and it.id in self.setlists \
                            and t.id not in self.sets:
                        self.sets.add(t.id)
                        changed = True
                    # for k, vs in <setdict>.items(): vs is a set
                    if (isinstance(it, ast.Call) and isinstance(it.func, ast.Attribute) and it.func.attr == "items"
                            and isinstance(it.func.value, ast.Name) and it.func.value.id in self.setdicts
                            and isinstance(t, ast.Tuple) and len(t.elts) == 2 and isinstance(t.elts[1], ast.Name)
                            and t.elts[1].id not in self.sets):
                        self.sets.add(t.elts[1].id)
                        changed = True

    def is_set(self, e):
        if isinstance(e, (ast.Set, ast.SetComp)):
            return True
        if isinstance(e, ast.Call):
            if isinstance(e.func, ast.Name) and e.func.id in ("set", "frozenset"):
                return True
            if isinstance(e.func, ast.Attribute) and e.func.attr in SET_METHODS and self.is_set(e.func.value):
                return True
        if isinstance(e, ast.Name) and e.id in self.sets:
            return True
        if isinstance(e, ast.BinOp) and isinstance(e.op, (ast.BitOr, ast.BitAnd, ast.Sub, ast.BitXor)):
            return self.is_set(e.left) or self.is_set(e.right)
        if isinstance(e, ast.Subscript) and isinstance(e.value, ast.Name) and e.value.id in self.setdicts:
            return True
        return False

    def is_ordered_name(self, name):
        """The name is provably bound to something with a deterministic iteration order."""
        ORD_ANN = ("List[", "list[", "Tuple[", "tuple[", "Dict[", "dict[", "Mapping[", "MutableMapping[",
                   "Sequence[", "MutableSequence[", "str", "Iterator[", "Generator[")
        for a in list(self.fn.args.args) + list(self.fn.args.kwonlyargs):
            if a.arg == name and a.annotation is not None and ast.unparse(a.annotation).startswith(ORD_ANN):
                return True
        ok = False
        for n in ast.walk(self.fn):
            val = None
            if isinstance(n, ast.Assign) and any(isinstance(t, ast.Name) and t.id == name for t in n.targets):
                val = n.value
            elif isinstance(n, ast.AnnAssign) and isinstance(n.target, ast.Name) and n.target.id == name:
                if ast.unparse(n.annotation).startswith(ORD_ANN):
                    ok = True
                    continue
                val = n.value
            if val is None:
                continue
            if isinstance(val, (ast.List, ast.Tuple, ast.Dict, ast.ListComp, ast.DictComp, ast.Constant)):
                ok = True
            elif isinstance(val, ast.Call) and isinstance(val.func, ast.Name) and val.func.id in (
                    "list", "sorted", "tuple", "dict", "range", "deque", "enumerate", "zip", "reversed"):
                ok = True
            elif isinstance(val, ast.Call) and isinstance(val.func, ast.Attribute) and val.func.attr in (
                    "keys", "values", "items", "split", "get_tree", "compute_scc"):
                ok = True
            elif isinstance(val, ast.Attribute) and val.attr in ("jump_targets", "_jump_targets", "backedges", "body",
                                                                 "orelse", "tree", "instructions", "values", "graph"):
                ok = True
            else:
                return False
        return ok

    def sites(self):
        out = []
        parents = {}
        for n in ast.walk(self.fn):
            for c in ast.iter_child_nodes(n):
                parents[c] = n

        def stmt_of(n):
            while n in parents and not isinstance(n, ast.stmt):
                n = parents[n]
            return n

        def add(kind, e, node):
            st = stmt_of(node)
            text = ast.unparse(st).split("\n")[0][:160]
            out.append((kind, ast.unparse(e)[:80], text, getattr(node, "lineno", 0)))

        for n in ast.walk(self.fn):
            if isinstance(n, ast.For) and self.is_set(n.iter):
                add("for", n.iter, n)
            elif isinstance(n, ast.For) and isinstance(n.iter, ast.Name) and not self.is_ordered_name(n.iter.id):
                add("for?", n.iter, n)
            elif isinstance(n, (ast.ListComp, ast.SetComp, ast.GeneratorExp, ast.DictComp)):
                for g in n.generators:
                    if self.is_set(g.iter):
                        kind = "setcomp" if isinstance(n, ast.SetComp) else "comp"
                        add(kind, g.iter, n)
            elif isinstance(n, ast.Call):
                if (isinstance(n.func, ast.Name) and n.func.id == "next" and n.args
                        and isinstance(n.args[0], ast.Call) and isinstance(n.args[0].func, ast.Name)
                        and n.args[0].func.id == "iter" and n.args[0].args and self.is_set(n.args[0].args[0])):
                    add("next-iter", n.args[0].args[0], n)
                elif (isinstance(n.func, ast.Attribute) and n.func.attr == "pop" and not n.args
                      and self.is_set(n.func.value)):
                    add("pop", n.func.value, n)
                elif (isinstance(n.func, ast.Name) and n.func.id in ("list", "tuple", "enumerate", "deque")
                      and n.args and self.is_set(n.args[0])):
                    add(n.func.id, n.args[0], n)
                elif (isinstance(n.func, ast.Attribute) and n.func.attr in ("extend", "extendleft")
                      and n.args and self.is_set(n.args[0])):
                    add("extend", n.args[0], n)
        return out


def scan():
    sites = []
    for rel in FILES:
        p = os.path.join(common.REPO, rel)
        if not os.path.exists(p):
            continue
        tree = ast.parse(open(p).read())
        for n in ast.walk(tree):
            if isinstance(n, (ast.FunctionDef, ast.AsyncFunctionDef)):
                # only the function's own body (nested defs are scanned on their own)
                for kind, e, text, line in FnScan(n).sites():
                    sites.append((rel.split("/")[-1], n.name, kind, e, text))
    # nested functions are walked twice (once via their parent): dedupe
    return sorted(set(sites))


@register
def translate_sets():
    header = "(* GENERATED by harness/vh/tr_sets.py: every iteration over a Python set in numba_scfg — do not edit *)\n"
    header += "From Coq Require Import String List.\nImport ListNotations.\nLocal Open Scope string_scope.\n"
    try:
        sites = scan()
        items = ["(%s, %s, %s, %s, %s)" % tuple(coq_string(x) for x in s) for s in sites]
        text = header + "(* file, function, kind of site, iterated expression, first line of the statement *)\n"
        text += "Definition set_sites : list (string * string * string * string * string) :=\n  [%s].\n" % ";\n   ".join(items)
        text += "Definition sets_translation_ok : bool := true.\n"
        return "SetSites.v", text, "ok"
    except (SyntaxError, OSError, ValueError) as e:
        text = header + "(* translation failed: %s *)\n" % str(e).replace("*)", "* )")
        text += "Definition set_sites : list (string * string * string * string * string) := [].\n"
        text += "Definition sets_translation_ok : bool := false.\n"
        return "SetSites.v", text, "FAILED: %s" % e

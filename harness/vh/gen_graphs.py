"""Input spaces of closed control-flow graphs (DESIGN section 4).

A graph is a tuple of successor tuples: block i (named str(i)) jumps to the
listed blocks, in order.  closed(): exactly one block without predecessors,
everything reachable from it, everything reaches a block without successors,
at most two distinct successors per block."""
import itertools
import random


def closed(succ):
    n = len(succ)
    preds = [[] for _ in range(n)]
    for i, s in enumerate(succ):
        if len(s) > 2 or len(set(s)) != len(s):
            return False
        for j in s:
            preds[j].append(i)
    heads = [i for i in range(n) if not preds[i]]
    if len(heads) != 1:
        return False
    seen = {heads[0]}
    st = [heads[0]]
    while st:
        v = st.pop()
        for w in succ[v]:
            if w not in seen:
                seen.add(w)
                st.append(w)
    if len(seen) != n:
        return False
    exits = [i for i in range(n) if not succ[i]]
    if not exits:
        return False
    seen = set(exits)
    st = list(exits)
    while st:
        v = st.pop()
        for w in preds[v]:
            if w not in seen:
                seen.add(w)
                st.append(w)
    return len(seen) == n


def options(n):
    opts = [()]
    opts += [(a,) for a in range(n)]
    opts += [(a, b) for a in range(n) for b in range(n) if a != b]
    return opts


def exhaustive(n, shard=None, nshards=1):
    """All closed CFGs on n labelled blocks.  shard: index over the choices of
    block 0's successor tuple (for parallel enumeration)."""
    opts = options(n)
    first = opts if shard is None else opts[shard::nshards]
    for s0 in first:
        for rest in itertools.product(opts, repeat=n - 1):
            succ = (s0,) + rest
            if closed(succ):
                yield succ


def random_closed(rng, n):
    """Constructive generator: spanning tree from the entry, extra arcs, then
    repair so that every block reaches an exit."""
    for _attempt in range(200):
        perm = list(range(n))
        rng.shuffle(perm)
        entry = perm[0]
        succ = [[] for _ in range(n)]
        for i in range(1, n):
            cands = [p for p in perm[:i] if len(succ[p]) < 2]
            p = rng.choice(cands)
            succ[p].append(perm[i])
        leaves = [i for i in range(n) if not succ[i]]
        rng.shuffle(leaves)
        keep = max(1, int(len(leaves) * rng.choice([0.2, 0.5, 0.8, 1.0])))
        for lf in leaves[keep:]:
            for _ in range(rng.choice([1, 1, 2])):
                t = rng.randrange(n)
                if t != entry and t not in succ[lf]:
                    succ[lf].append(t)
        q = rng.choice([0.2, 0.5, 0.8])
        for i in range(n):
            if len(succ[i]) == 1 and rng.random() < q:
                t = rng.randrange(n)
                if t != entry and t not in succ[i]:
                    succ[i].append(t)
        # repair: everything must reach an exit
        for _ in range(4 * n):
            exits = [i for i in range(n) if not succ[i]]
            if not exits:
                break
            ok = set(exits)
            changed = True
            while changed:
                changed = False
                for i in range(n):
                    if i not in ok and any(t in ok for t in succ[i]):
                        ok.add(i)
                        changed = True
            bad = [i for i in range(n) if i not in ok]
            if not bad:
                break
            b = rng.choice(bad)
            tgt = rng.choice([t for t in ok if t != entry] or list(ok))
            if tgt == entry:
                break
            if len(succ[b]) < 2:
                if tgt not in succ[b]:
                    succ[b].append(tgt)
            else:
                succ[b][rng.randrange(2)] = tgt
                if succ[b][0] == succ[b][1]:
                    succ[b].pop()
        for i in range(n):
            if rng.random() < 0.5:
                succ[i].reverse()
        res = tuple(tuple(s) for s in succ)
        if closed(res):
            return res
    # fall back to a chain
    return tuple((i + 1,) for i in range(n - 1)) + ((),)


def shapes():
    """Parametric families that stress particular anchors."""
    out = []
    # k-header loops (irreducible): entry branches into a cycle at several places
    out.append(((1, 2), (2, 3), (1, 3), ()))
    out.append(((1, 2), (2,), (1, 3), ()))
    out.append(((1, 2), (3, 2), (4, 1), (5,), (5,), ()))
    # k-exit loops
    out.append(((1,), (2, 4), (3, 5), (1, 6), (7,), (7,), (7,), ()))
    # loop exit landing inside a sibling branch
    out.append(((1, 2), (3,), (4, 3), (5,), (2, 5), ()))
    # nested loops, shared latch
    out.append(((1,), (2,), (3, 1), (2, 4), (1, 5), ()))
    # branch arms sharing blocks
    out.append(((1, 2), (3, 4), (4, 5), (6,), (6,), (6,), ()))
    # self loops
    out.append(((1,), (1, 2), (2, 3), ()))
    # witnesses of the two repaired defects (see known_findings.json)
    out.append(((2, 1), (4,), (3, 4), (1, 2), ()))
    out.append(((2,), (), (2, 4), (5, 1), (3, 1), (5, 1)))
    # nested loops: an inner loop directly in the body of an outer loop without a branch,
    # the outer loop inside a branch arm (seeded change C04-reparent-all-depths)
    out.append(((1, 4), (2,), (2, 3), (1, 4), ()))
    out.append(((1,), (2,), (3,), (3, 4), (2, 5), (1, 6), ()))
    out.append(((1, 5), (2,), (3,), (3, 4), (2, 1, )[:2] and (2, 5), ()))
    # short-circuit branch whose arm is a loop (seeded changes C01/C06: region predecessor of a unified tail)
    out.append(((1, 3), (2, 3), (2, 4), (4,), ()))
    out.append(((1,), (2, 6), (3, 6), (3, 5), (), (1, 4), (5,)))
    # a loop with two exits that are both entered from outside the loop as well: the exit branch becomes a
    # two-arc predecessor of a header unification after its targets were renamed (seeded change C01-r7:
    # value-table entries paired with re-targeted arcs by name order instead of by position)
    out.append(((5, 3), (2, 4), (3, 2), (), (1, 3), (1, 2)))
    out.append(((1, 2), (3, 4), (5, 3), (6, 1), (2, 6), (5, 6), ()))
    # Bahmann fig. 3 / fig. 4 like
    out.append(((1,), (2, 3), (4,), (4,), (5, 1), ()))
    out.append(((1, 2), (3,), (4,), (4, 5), (3, 5), ()))
    return [s for s in out if closed(s)]


def long_chains():
    """Large structured CFGs: K two-way branches in sequence at one nesting level (diamonds, and ifs without
    else), as long functions have them.  Restructuring them takes well under a second; anything that walks
    every PATH instead of every block does not come back (seeded change C02-r9)."""
    out = []
    for k in (26, 40):
        succ = []
        for i in range(k):                       # diamond i: 3i -> (3i+1, 3i+2) -> 3i+3
            succ += [(3 * i + 1, 3 * i + 2), (3 * i + 3,), (3 * i + 3,)]
        succ.append(())
        if k == 26:                              # (the longer one takes a second; the limit is 10 s)
            out.append(tuple(succ))
        succ = []
        for i in range(k):                       # if without else: 2i -> (2i+1, 2i+2), 2i+1 -> 2i+2
            succ += [(2 * i + 1, 2 * i + 2), (2 * i + 2,)]
        succ.append(())
        out.append(tuple(succ))
    return [s for s in out if closed(s)]


def describe(succ):
    """Shape statistics for the evidence file."""
    n = len(succ)
    # cyclic?
    color = [0] * n
    cyc = False

    def dfs(v):
        nonlocal cyc
        color[v] = 1
        for w in succ[v]:
            if color[w] == 1:
                cyc = True
            elif color[w] == 0:
                dfs(w)
        color[v] = 2

    preds = set(j for s in succ for j in s)
    entry = [i for i in range(n) if i not in preds][0]
    dfs(entry)
    return {
        "n": n,
        "cyclic": cyc,
        "exits": sum(1 for s in succ if not s),
        "branches": sum(1 for s in succ if len(s) == 2),
    }

"""Checks for the properties decided by model + correspondence (M) and by
translated tables (T).  REGISTRY: property id -> check function."""
import random

from . import common, coqeval, pysim, snap, stages, export, gen_graphs

REGISTRY = {}
REPLAY = {}


def base_problems(build, props, pid):
    from . import build as buildmod

    problems = buildmod.relevant_failures(pid, build)
    if build["forbidden"]:
        problems.append("forbidden vernacular: " + "; ".join(build["forbidden"][:3]))
    if not props["ok"]:
        problems.append("Props/%s.v does not check: %s" % (pid, props["output"][-400:]))
    return problems


TRUSTED = ["Coq 8.16.1 kernel (vm_compute used, no native_compute)",
           "fail-closed translators harness/vh/tr_*.py (decide what the theorems talk about)",
           "correspondence harness (harness/vh/checks_more.py): runs model and implementation on the same inputs"]


# --------------------------------------------------------------------------- C18
CATS = {"block": "CBlock", "region": "CRegion", "var": "CVar"}
ADVERSARIAL_KINDS = ["synth_asign", "synth_head", "control", "exit", "backedge", "loop", "head",
                     "a", "a_block_1", "a_block", "x_region", "x_region_", "_block_", "7", "a9",
                     "__scfg_k_var_1__", "k_var", "", "b_region_2_block", "meta", "_", "9_"]
ADVERSARIAL_NAMES = ["0", "1", "a", "synth_return_block_0", "synth_asign_block_3", "a_block_007",
                     "x_region_3_block_5", "__scfg_a_var_2__", "__scfg__var_1__", "_block_1",
                     "a_block_", "a_block_1x", "loop_region_2", "meta_region_4", "a_block_1_region_2",
                     "__scfg_exit_var_9__", "__scfg_control_var_0__x", "_region_0", "k_var_3__",
                     "a_blok_1", "synth_asign_block_12", "head_region_0", "__scfg_a_block_1_var_2__"]


class Recorder:
    """Wraps NameGenerator in the harness process: every reservation and every
    request becomes an event, in order."""

    def __init__(self):
        from numba_scfg.core.datastructures import scfg as scfgmod

        self.mod = scfgmod
        self.events = []
        self.orig = {}

    def __enter__(self):
        NG = self.mod.NameGenerator
        for cat in CATS:
            meth = "new_%s_name" % cat
            self.orig[meth] = getattr(NG, meth)

            def wrap(this, kind, _m=self.orig[meth], _c=cat, _self=self):
                r = _m(this, kind)
                _self.events.append(("request", _c, kind, r))
                return r

            setattr(NG, meth, wrap)
        if hasattr(NG, "reserve_names"):
            self.orig["reserve_names"] = NG.reserve_names

            def wrap_res(this, names, _m=self.orig["reserve_names"], _self=self):
                names = list(names)
                _self.events.append(("reserve", names))
                return _m(this, names)

            NG.reserve_names = wrap_res
        return self

    def __exit__(self, *a):
        for meth, f in self.orig.items():
            setattr(self.mod.NameGenerator, meth, f)


def c18_random_history(rng):
    """A history of API calls on real objects sharing one generator; returns (events, final kinds)."""
    from numba_scfg.core.datastructures.scfg import SCFG, NameGenerator
    from numba_scfg.core.datastructures.basic_block import BasicBlock

    with Recorder() as rec:
        gen = NameGenerator()
        graphs = []
        for _ in range(rng.randrange(1, 12)):
            r = rng.random()
            if r < 0.25 or not graphs:
                names = rng.sample(ADVERSARIAL_NAMES, rng.randrange(0, 5))
                graphs.append(SCFG({n: BasicBlock(name=n) for n in names}, name_gen=gen))
            elif r < 0.5:
                rng.choice(graphs).add_block(BasicBlock(name=rng.choice(ADVERSARIAL_NAMES)))
            elif r < 0.6:
                g = rng.choice(graphs)
                try:
                    g2, _ = SCFG.from_dict(g.to_dict())
                    graphs.append(g2)
                    gen = g2.name_gen  # a loaded graph brings its own generator: start a new history
                    return None
                except Exception:
                    pass
            else:
                cat = rng.choice(list(CATS))
                getattr(gen, "new_%s_name" % cat)(rng.choice(ADVERSARIAL_KINDS))
        return rec.events, list(gen.kinds.items())


def c18_exhaust_history(rng):
    """A graph that holds one generated-shape name with a (possibly multi-digit) index - a block or region
    name, or a control variable of a synthetic assignment / branch - then enough requests of that kind to
    walk the counter past the index: the held name must never be handed out."""
    from numba_scfg.core.datastructures.scfg import SCFG
    from numba_scfg.core.datastructures.basic_block import BasicBlock, SyntheticAssignment, SyntheticBranch

    cat = rng.choice(["block", "region", "var"])
    kind = rng.choice(ADVERSARIAL_KINDS)
    idx = rng.choice([0, 1, 9, 10, 11, 12, 19, 20, 99, 100, 101, rng.randrange(0, 130)])
    name = {"block": "%s_block_%d", "region": "%s_region_%d", "var": "__scfg_%s_var_%d__"}[cat] % (kind, idx)
    how = rng.randrange(3)
    written = None
    if cat != "var" and how == 2:
        written = SCFG({name: BasicBlock(name=name)}).to_dict()   # another generator: outside the history
    with Recorder() as rec:
        if cat == "var":
            blk = (SyntheticAssignment(name="a", variable_assignment={name: 1}) if how == 0 else
                   SyntheticBranch(name="a", variable=name, branch_value_table={}))
            sc = SCFG({"a": blk})
        elif how == 0:
            sc = SCFG({name: BasicBlock(name=name)})
        elif how == 1:
            sc = SCFG()
            sc.add_block(BasicBlock(name=name))
        else:
            sc, _ = SCFG.from_dict(written)
        gen = sc.name_gen
        for _ in range(idx + 2):
            getattr(gen, "new_%s_name" % cat)(kind)
        return rec.events, list(gen.kinds.items())


def c18_reload_history(rng):
    """Run a stage prefix, write, read back, continue with the remaining stages on
    the re-read graph: the events of its (fresh) generator, and whether any input
    block got lost on the way."""
    from numba_scfg.core.datastructures.scfg import SCFG

    succ = gen_graphs.random_closed(rng, rng.randrange(3, 12))
    sc = stages.make_scfg(succ)
    orig = export.original_of(sc)
    k = rng.randrange(0, 3)
    for st in stages.STAGES[:k + 1]:
        getattr(sc, st)()
    d = sc.to_dict()
    with Recorder() as rec:
        sc2, _ = SCFG.from_dict(d)
        exc = None
        try:
            for st in stages.STAGES[k + 1:]:
                getattr(sc2, st)()
        except Exception as e:
            exc = repr(e)[:200]
        lost = {"reason": "raises", "detail": exc} if exc else pysim.find_cons_violation(orig, sc2)
        # every name the written graph holds - blocks, regions and control variables - is taken
        present = set(d["blocks"])
        for info in d["blocks"].values():
            if "variable" in info:
                present.add(info["variable"])
            present.update(info.get("variable_assignment", {}).keys())
        again = [e[3] for e in rec.events if e[0] != "reserve" and e[3] in present]
        if again and not lost:
            lost = {"reason": "after reading the graph back the generator handed out a name the graph already "
                              "holds (block, region or control variable)", "name": again[0]}
        return rec.events, list(sc2.name_gen.kinds.items()), lost, succ, stages.STAGES[k]


def c18_pipeline_history(succ, rename=None, via_add_block=False):
    from numba_scfg.core.datastructures.scfg import SCFG
    from numba_scfg.core.datastructures.basic_block import BasicBlock

    with Recorder() as rec:
        ren = rename or {}
        nm = lambda i: ren.get(str(i), str(i))  # noqa: E731
        if via_add_block:
            # the graph assembled block by block through the public add_block
            sc = SCFG()
            for i, s in enumerate(succ):
                sc.add_block(BasicBlock(name=nm(i), _jump_targets=tuple(nm(j) for j in s)))
        else:
            sc = SCFG({nm(i): BasicBlock(name=nm(i), _jump_targets=tuple(nm(j) for j in s))
                       for i, s in enumerate(succ)})
        orig = export.original_of(sc)
        exc = None
        try:
            sc.restructure()
        except Exception as e:
            exc = repr(e)[:200]
        return rec.events, list(sc.name_gen.kinds.items()), orig, sc, exc


def c18_impl_violation(events):
    """The property itself, on the implementation's history."""
    seen = set()
    issued = set()
    for ev in events:
        if ev[0] == "reserve":
            seen.update(ev[1])
        else:
            n = ev[3]
            if n in issued:
                return {"reason": "name handed out twice", "name": n}
            if n in seen:
                return {"reason": "handed out a name already present in the graph", "name": n}
            issued.add(n)
    return None


def c18_coq_case(events, kinds):
    evs = []
    for ev in events:
        if ev[0] == "reserve":
            evs.append("EReserve %s" % coqeval.coq_list("lit %s" % coqeval.coq_str(n) for n in ev[1]))
        else:
            evs.append("ERequest %s (lit %s) (lit %s)" % (CATS[ev[1]], coqeval.coq_str(ev[2]),
                                                         coqeval.coq_str(ev[3])))
    ks = coqeval.coq_list("(lit %s, %d%%N)" % (coqeval.coq_str(k), v) for k, v in kinds)
    return "(%s, %s)" % (coqeval.coq_list(evs), ks)


C18_PRELUDE = """From Coq Require Import List String NArith Bool.
Import ListNotations.
From V Require Import Model.NameGen Gen.NameTemplates.
Local Open Scope string_scope.
Inductive ev := EReserve (names : list str) | ERequest (c : cat) (k : str) (expected : str).
Fixpoint replay (g : gen) (evs : list ev) : option gen :=
  match evs with
  | [] => Some g
  | EReserve names :: r => replay (reserve gen_tpls g names) r
  | ERequest c k e :: r =>
    let '(n, g') := request gen_tpls g c k in
    if str_eqb n e then replay g' r else None
  end.
Fixpoint gen_eqb (a b : gen) : bool :=
  match a, b with
  | [], [] => true
  | (k1, v1) :: a', (k2, v2) :: b' => str_eqb k1 k2 && N.eqb v1 v2 && gen_eqb a' b'
  | _, _ => false
  end.
Definition ok (c : list ev * gen) : bool :=
  match replay [] (fst c) with Some g => gen_eqb g (snd c) | None => false end.
"""


def check_c18(pid, tier, build, props):
    t = common.Timer()
    common.import_repo()
    rng = random.Random(common.seed())
    problems = base_problems(build, props, pid)
    quick = tier == "quick"
    cases = []       # (events, kinds, description)
    violations = []
    for _ in range(250 if quick else 2500):
        h = c18_random_history(rng)
        if h:
            cases.append((h[0], h[1], "api-history"))
    for _ in range(150 if quick else 1500):
        try:
            h = c18_exhaust_history(rng)
            cases.append((h[0], h[1], "held-name-then-exhaust"))
        except Exception as e:
            problems.append("exhaust history raised in the harness: %r" % (e,))
            break
    for _ in range(120 if quick else 1200):
        try:
            ev, ks, lost, succ_, after = c18_reload_history(rng)
            cases.append((ev, ks, "write-read-continue"))
            if lost:
                violations.append({"graph": succ_, "written_after": after, "witness": lost,
                                   "class": "continuing on a re-read graph"})
        except Exception as e:
            problems.append("reload history raised in the harness: %r" % (e,))
            break
    graphs = gen_graphs.shapes() + [gen_graphs.random_closed(rng, rng.randrange(4, 20))
                                    for _ in range(100 if quick else 1200)]
    shaped = ["synth_return_block_0", "synth_asign_block_0", "synth_exit_latch_block_0",
              "synth_head_block_0", "synth_tail_block_0", "synth_asign_block_1", "synth_fill_block_0",
              "loop_region_0", "head_region_0", "synth_exit_block_0"]
    ns_tried = ns_bad = 0
    for gi, succ in enumerate(graphs):
        rename = None
        if gi % 2 == 1:
            idx = rng.sample(range(len(succ)), min(2, len(succ)))
            rename = {str(i): nm for i, nm in zip(idx, rng.sample(shaped, len(idx)))}
            ns_tried += 1
        ev, ks, orig, sc, exc = c18_pipeline_history(succ, rename)
        cases.append((ev, ks, "pipeline" + ("+namespace" if rename else "")))
        if rename:
            w = {"reason": "raises", "detail": exc} if exc else pysim.find_cons_violation(orig, sc)
            if w:
                ns_bad += 1
                violations.append({"graph": {k: v[1] for k, v in orig.items()}, "witness": w,
                                   "class": "input block named like a generated name is overwritten"})
            # the same graph assembled with add_block (events are not fed to the model: the direct
            # statement of the property is evaluated on what was handed out)
            ev2, ks2, orig2, sc2, exc2 = c18_pipeline_history(succ, rename, via_add_block=True)
            handed = [e[3] for e in ev2 if e[0] != "reserve"]
            clash = [n for n in handed if n in orig2]
            w2 = ({"reason": "handed out a name already present in the graph (built with add_block)", "name": clash[0]}
                  if clash else ({"reason": "raises (graph built with add_block)", "detail": exc2} if exc2
                                 else pysim.find_cons_violation(orig2, sc2)))
            if w2 and len(violations) < 8:
                violations.append({"graph": {k: v[1] for k, v in orig2.items()}, "built_with": "add_block",
                                   "witness": w2})
    for ev, ks, what in cases:
        w = c18_impl_violation(ev)
        if w:
            violations.append({"history": what, "events": ev[:40], "witness": w})
    mismatches = evaluated = 0
    if build["ok"]:
        lines = [C18_PRELUDE]
        shard = 60
        for si in range(0, len(cases), shard):
            lines.append("Eval vm_compute in map ok %s." % coqeval.coq_list(
                c18_coq_case(ev, ks) for ev, ks, _ in cases[si:si + shard]))
        rc, out, err = coqeval.run_coq("C18_corr", "\n".join(lines) + "\n")
        if rc != 0:
            problems.append("correspondence file did not compile: " + (out + err)[-400:])
        else:
            flat = [b for bl in coqeval.parse_bools(out) for b in bl]
            evaluated = len(flat)
            if len(flat) != len(cases):
                problems.append("correspondence: %d answers for %d cases" % (len(flat), len(cases)))
            for (ev, ks, what), okb in zip(cases, flat):
                if not okb:
                    mismatches += 1
                    if mismatches <= 3:
                        violations.append({"history": what, "events": ev[:40], "final_kinds": ks,
                                           "witness": None,
                                           "note": "model (NameGen.replay) and NameGenerator disagree"})
    nth = len(props["theorems"])
    kinds_of = {}
    for _, _, w in cases:
        kinds_of[w] = kinds_of.get(w, 0) + 1
    coverage = {
        "obligations": nth + 2,
        "discharged": (nth if props["ok"] else 0)
                      + (1 if evaluated == len(cases) and mismatches == 0 and evaluated else 0)
                      + (1 if not violations else 0),
        "checker_cmd": "coqc Props/C18.v (Gen/NameTemplates.v regenerated from scfg.py); coqc build/cases/C18_corr.v",
        "trusted_base": TRUSTED,
        "theorems": props["theorems"],
        "evaluations": len(cases),
        "distinct_nontrivial": len(set(repr(ev) for ev, _, _ in cases if len(ev) > 2)),
        "rule": "histories of reservations and requests recorded on the real NameGenerator: random API "
                "histories over adversarial names/kinds, write-read-continue histories, restructure() runs "
                "(half of them on graphs with generator-shaped block names); non-trivial = more than two "
                "events; distinct by event list",
        "histories_by_kind": kinds_of,
        "samples": [{"events": cases[0][0][:10], "final_kinds": cases[0][1]},
                    {"events": cases[-1][0][:10], "final_kinds": cases[-1][1][:6]}],
        "traces_validated_against_impl": evaluated,
        "namespace_probe_graphs": ns_tried, "namespace_probe_overwrites": ns_bad,
        "explanation": "Proved (U): joint injectivity of the three name templates for arbitrary kinds; pairwise "
                       "distinctness of every request sequence from any generator state; parse(render)=id and "
                       "Covers after reserve; for ANY history of constructions, add_block and requests a "
                       "requested name is neither present nor handed out before (C18_request_fresh). Tie: "
                       "templates, counter discipline, the regular expression, reserve_names and its two call "
                       "sites are translated from scfg.py on every run (fail-closed); model = implementation "
                       "(names and final counter dictionary, order-exact) on the listed histories. Not proved: "
                       "that no code path writes SCFG.graph without add_block (direct dictionary writes re-insert "
                       "popped blocks or generated names; covered by the recorded pipeline histories only).",
    }
    return {"coverage": coverage, "violations": violations, "problems": problems, "level": "proof",
            "wall_s": t.s(), "broken_name": "Props/C18.v (C18_templates_ok, C18_request_fresh) / C18 correspondence"}


REGISTRY["C18"] = check_c18


# --------------------------------------------------------------------------- C13
C13_TAGS = {30: "find_head", 31: "find_headers_and_entries", 32: "find_exiting_and_exits",
            33: "is_reachable_dfs", 34: "_doms", 35: "_post_doms", 36: "_doms raises",
            37: "_post_doms raises", 38: "compute_scc"}


def c13_brute(item):
    """Path-based ground truth by brute force (used only to describe a disagreement)."""
    n = len(item)
    keys = [str(i) for i in range(n)]
    succ = {k: [t for t in jt if t not in be] for k, (jt, be) in zip(keys, item)}

    def reach(a):  # >= 1 edge
        seen = set()
        st = list(succ.get(a, []))
        while st:
            v = st.pop()
            if v in seen:
                continue
            seen.add(v)
            st.extend(succ.get(v, []))
        return seen

    return {"reachable_ge1": {k: sorted(reach(k)) for k in keys}}


def check_c13(pid, tier, build, props):
    from . import c13

    t = common.Timer()
    problems = base_problems(build, props, pid)
    items, out, errors = c13.run(tier, common.seed())
    if errors:
        problems.append("driver errors: %r" % errors[:2])
    violations = []
    nq = 0
    per_tag = {}
    nontrivial = set()
    for item, meta, res in out:
        if res is None:
            problems.append("harness error: %r" % (meta,))
            continue
        nq += len(res)
        plain = item[1] if (item and item[0] == "light") else item
        if any(jt for jt, _ in plain):
            nontrivial.add(item)
        if any(x != 1 for x in res) and len(violations) < 10:
            common.import_repo()
            text, _ = c13.export_item(item)
            item = plain
            rows = [r for r in text.splitlines()[2:-1]]
            qrows = [r for r in rows if not r.startswith("20 ")]
            bad = [(C13_TAGS.get(int(q.split()[0]), "?"), q) for q, x in zip(qrows, res) if x != 1]
            violations.append({"graph": [list(map(list, nb)) for nb in item],
                               "witness": {"reason": "implementation's answer differs from the proved reference",
                                           "queries": bad[:4], "ground_truth": c13_brute(item)}})
    # queries are functions of the graph's current contents (no stale state on the graph object)
    try:
        hist_n, hist_v = c13.history_check(tier, common.seed())
    except Exception as e:
        hist_n, hist_v = 0, []
        problems.append("history stream raised in the harness: %r" % (e,))
    violations.extend(hist_v)
    # the dominator work-list, line by line (Model/DomWl.v): every call the pipeline makes and direct calls
    # with the successor sets enumerated in shuffled orders; outcome, table (key order included) and the
    # order in which nodes are processed must be what the model computes
    from . import domcalls
    dt = domcalls.tie(tier, common.seed())
    dom_tie_ok = dt["mismatch_count"] == 0 and not dt["harness_errors"] and dt["agree"] > 0
    if not dom_tie_ok:
        problems.append("correspondence _find_dominators_internal = Model/DomWl.v broken: %d calls differ, first: %r%s"
                        % (dt["mismatch_count"], dt["mismatches"][:1],
                           (" harness: %r" % dt["harness_errors"][:1]) if dt["harness_errors"] else ""))
    # _imm_doms, line by line (Model/ImmDom.v): every call the pipeline makes and direct calls; the chain hypotheses
    # of the universal theorem must hold on the pipeline's calls
    from . import immcalls
    it = immcalls.tie(tier, common.seed())
    imm_tie_ok = it["mismatch_count"] == 0 and not it["harness_errors"] and it["agree"] > 0
    if not imm_tie_ok:
        problems.append("correspondence _imm_doms = Model/ImmDom.v broken: %d calls differ, first: %r%s"
                        % (it["mismatch_count"], it["mismatches"][:1],
                           (" harness: %r" % it["harness_errors"][:1]) if it["harness_errors"] else ""))
    if it["calls_not_meeting_them"]["pipeline"]:
        problems.append("the chain hypotheses of the theorem about _imm_doms (ImmDomRun.imm_pre) do not hold on %d calls "
                        "the pipeline makes, first: %r" % (it["calls_not_meeting_them"]["pipeline"],
                                                           it["pipeline_calls_not_meeting_them_examples"][:1]))
    nth = len(props["theorems"])
    coverage = {
        "imm_doms_model": dict(it, holds=imm_tie_ok),
        "obligations": nth + 2,
        "discharged": (nth if props["ok"] else 0) + (1 if not violations and not errors and nq else 0)
                      + (1 if dom_tie_ok else 0),
        "dominator_worklist_model": dict(dt, holds=dom_tie_ok),
        "in_place_edit_histories_compared": hist_n,
        "checker_cmd": "coqc Props/C13.v; build/extract/vchk (RunC13.run_c13) on exported query answers; "
                       "vchk (DomWlRun.run_dom) on observed calls of _find_dominators_internal",
        "trusted_base": TRUSTED + ["extraction (ExtrOcamlBasic only) and ocaml/driver.ml",
                                   "harness/vh/c13.py (export of graphs and of the implementation's answers)"],
        "theorems": props["theorems"],
        "evaluations": nq,
        "distinct_nontrivial": len(nontrivial),
        "rule": "ALL directed graphs with <=3 nodes and out-degree <=2 (and <=2 nodes with out-degree <=3) over "
                "node names plus one external name, self loops and duplicate targets included, all subsets for "
                "the subset queries, all (begin,end) pairs; plus random graphs up to 30 nodes with declared back "
                "edges and two external names. An evaluation is one query answer compared with the model; "
                "non-trivial graphs have at least one edge; distinct by graph",
        "graphs": len(items),
        "exhaustive": True,
        "samples": [{"graph": [list(map(list, nb)) for nb in items[len(items) // 3]]},
                    {"graph": [list(map(list, nb)) for nb in items[-1]]}],
        "traces_validated_against_impl": nq,
        "explanation": "Proved (U, arbitrary graphs): find_head sound and complete; headers/entries and "
                       "exiting/exits equal their set definitions and are sorted (models are line-by-line); the "
                       "reference reachability, dominance (both directions) and SCC definitions equal their "
                       "path-based specifications (closure_spec). Tie: implementation answers = model/reference "
                       "answers on the enumerated space. The dominator work-list is modelled line by line "
                       "(Model/DomWl.v, tied by dominator_worklist_model) and proved for ALL graphs and ALL "
                       "iteration orders of the successor sets (C13_dominator_worklist_correct): it terminates "
                       "within the stated fuel, the assertion and the key look-ups never fail, and the table is "
                       "the dominance relation of the reference definition. is_reachable_dfs is modelled line by line "
                       "too (Model/Dfs.v) and proved total and equal to the path definition on every graph "
                       "(C13_reachability_dfs); its answers are part of the comparison. Not proved: that the "
                       "vendored iterative Tarjan equals the reference on ALL graphs (compared exhaustively up "
                       "to the stated bound and on random graphs); _imm_doms is exercised only through the "
                       "pipeline.",
    }
    return {"coverage": coverage, "violations": violations, "problems": problems, "level": "proof",
            "wall_s": t.s(), "broken_name": "Props/C13.v / correspondence implementation = reference (RunC13)"}


REGISTRY["C13"] = check_c13


# --------------------------------------------------------------------------- C14
def check_c14(pid, tier, build, props):
    from . import c14

    t = common.Timer()
    problems = base_problems(build, props, pid)
    cases, out, errors = c14.run(tier, common.seed())
    if errors:
        problems.append("driver errors: %r" % errors[:2])
    violations = []
    by = {}
    evaluated = 0
    skipped = 0
    region_faults = with_regions = 0
    for case, meta, res in out:
        if res is None:
            if meta and "harness_error" in meta:
                problems.append("harness error: %r" % (meta,))
            skipped += 1
            continue
        evaluated += 1
        key = "%s/status%d" % (meta["op"], meta["status"])
        by[key] = by.get(key, 0) + 1
        if meta.get("mirror"):
            region_faults += 1
            if len(violations) < 5:
                spec, op = case
                violations.append({
                    "graph": [list(map(str, s_)) for s_ in spec], "operation": list(map(str, op)),
                    "witness": {"reason": "a predecessor that is a region was rerouted but the exiting block inside it "
                                          "was not rerouted alike: the arc as control really takes it is not the one "
                                          "the region block declares", "regions": meta["mirror"]}})
        if any(k_ in ("region", "region2") for _, _, _, k_ in case[0]):
            with_regions += 1
        if meta["status"] == 3 and len(violations) < 5:
            violations.append({"case": repr(case)[:600], "witness": {"reason": "primitive raised an unexpected exception"}})
        elif res != [1, 1] and len(violations) < 5:
            spec, op = case
            violations.append({
                "graph": [list(map(str, s)) for s in spec], "operation": list(map(str, op)),
                "witness": {"reason": "model and implementation disagree" if res[0] != 1 else
                            "a rerouted arc does not pass through its own assignment block to its original target",
                            "columns": res}})
    nth = len(props["theorems"])
    coverage = {
        "obligations": nth + 1,
        "discharged": (nth if props["ok"] else 0) + (1 if not violations and not errors and evaluated else 0),
        "checker_cmd": "coqc Props/C14.v; build/extract/vchk (Edits2.run_c14) on before/after graphs of every primitive call",
        "trusted_base": TRUSTED + ["extraction (ExtrOcamlBasic only) and ocaml/driver.ml",
                                   "harness/vh/c14.py (export of the graphs before and after each call)"],
        "theorems": props["theorems"],
        "evaluations": evaluated,
        "distinct_nontrivial": len(set(repr(c) for c, m, r in out if r is not None and c[1][0] != "jr")),
        "rule": "ALL graphs with <=2 nodes/out-degree 2 (external target, self loops, duplicates), sampled 3-node "
                "and random 4..8-node graphs, each also with branching synthetic / tail blocks and declared back "
                "edges; per graph all ordered (P,S) with |P|,|S|<=2 (sampled for larger graphs), S empty, a missing "
                "predecessor, a non-fresh name, join_returns, join_tails_and_exits for all tail/exit subsets up to "
                "size 3. One evaluation = one primitive call compared order-exactly with the model (and, for the "
                "control-block variant, checked by cb_ok); non-trivial = not join_returns; distinct by (graph, call)",
        "calls_by_primitive_and_status": by, "skipped": skipped,
        "calls_on_graphs_with_region_blocks": with_regions, "region_mirror_faults": region_faults,
        "samples": [{"graph": [list(map(str, s)) for s in cases[len(cases) // 2][0]],
                     "operation": list(map(str, cases[len(cases) // 2][1]))}],
        "traces_validated_against_impl": evaluated,
        "explanation": "Proved (U): the successor rewrite of insert_block keeps the order of the remaining successors, "
                       "removes every arc into S, adds the new block exactly once; insert_block changes only "
                       "predecessors (their back edges untouched) and creates the new block with successors S; "
                       "join_returns is a no-op with <=1 exit and otherwise adds one exit reached from every former "
                       "exit. The control-block variant, for EVERY graph, P, S and supply of fresh names (Model/Edits3.v, "
                       "C14_control_blocks): the head has exactly the successors S; a predecessor keeps arity, back "
                       "edges and every successor outside S in place; every position into S holds its own assignment "
                       "block (none shared inside or between predecessors) that continues to the head and sets the "
                       "control variable to a value the table sends to the arc's original target; all other blocks "
                       "untouched. The same is also decided per result by the verified checker cb_ok. Tie: exact, "
                       "order-faithful correspondence of all four primitives incl. KeyError/AssertionError outcomes. "
                       "Not proved: path preservation under arbitrary SEQUENCES of edits (decided per pipeline run by "
                       "C01's checker); region predecessors (one and two levels deep) are modelled at the level of "
                       "the region's own targets; that the exiting block inside is rerouted alike is checked on the "
                       "implementation's result after every call (and, in pipeline output, by C04's checker).",
    }
    return {"coverage": coverage, "violations": violations, "problems": problems, "level": "proof",
            "wall_s": t.s(), "broken_name": "Props/C14.v / correspondence implementation = Edits model (run_c14)"}


REGISTRY["C14"] = check_c14


# --------------------------------------------------------------------------- C16
def check_c16(pid, tier, build, props):
    from . import c16, par

    t = common.Timer()
    problems = base_problems(build, props, pid)
    items = c16.items_for(tier, common.seed())
    out, errors = par.run(items, c16.export_item)
    if errors:
        problems.append("driver errors: %r" % errors[:2])
    violations = []
    counts = {"view_agree_and_theorem_applies": 0, "view_agree_only": 0, "view_disagree": 0,
              "iter_agree_and_theorem_applies": 0, "iter_agree_only": 0, "iter_disagree": 0}
    graphs_done = 0
    for item, meta, res in out:
        if meta and "harness_error" in meta:
            problems.append("harness error: %r" % (meta,))
            continue
        if meta["errors"] and len(violations) < 5:
            violations.append({"graph": item[1], "witness": {"reason": "iterator raised, or two enumerations of one view disagree", "detail": meta["errors"][:2]}})
        if res is None:
            continue
        rs = res if (res and isinstance(res[0], list)) else [res]
        graphs_done += 1
        for k, x in enumerate(rs):
            for v in x[:-1]:
                counts["view_" + {2: "agree_and_theorem_applies", 1: "agree_only", 0: "disagree"}[v]] += 1
            counts["iter_" + {2: "agree_and_theorem_applies", 1: "agree_only", 0: "disagree"}[x[-1]]] += 1
            if 0 in x and len(violations) < 5:
                violations.append({"graph": item[1], "stage": stages.STAGES[k],
                                   "witness": {"reason": "iteration order/content differs from the breadth-first model",
                                               "answers": x}})
            elif 1 in x and len(violations) < 5:
                # the lists agree with the model but the level is not connected from its head under the
                # iterator's own successor function: the iterator yields only what it reaches (view_spec),
                # so some block or region of the level is never yielded
                violations.append({"graph": item[1], "stage": stages.STAGES[k],
                                   "witness": {"reason": "a block of the level is not reached by the iterator "
                                                         "(the exiting block of a region does not lead on to it): "
                                                         "the view omits it",
                                               "answers": x}})
    nth = len(props["theorems"])
    total = sum(counts.values())
    coverage = {
        "obligations": nth + 1,
        "discharged": (nth if props["ok"] else 0) + (1 if not violations and not errors and total else 0),
        "checker_cmd": "coqc Props/C16.v; build/extract/vchk (IterHier.run_c16) on list(view) / list(scfg) of every graph",
        "trusted_base": TRUSTED + ["extraction (ExtrOcamlBasic only) and ocaml/driver.ml", "harness/vh/export.py, c16.py"],
        "theorems": props["theorems"],
        "evaluations": total,
        "distinct_nontrivial": graphs_done,
        "rule": "all closed CFGs with <=4 blocks, shapes and random ones up to 35 blocks, before/after every "
                "restructuring stage; one evaluation = the region-concealing view of one (sub)graph or the whole-"
                "hierarchy iteration compared order-exactly with the model; *_theorem_applies = additionally the "
                "connectivity hypothesis of the universal theorem was established for that instance; distinct = "
                "input graphs (each contributes three stages and all sub-regions)",
        "answers": counts,
        "samples": [{"graph": items[len(items) // 2][1]}],
        "traces_validated_against_impl": total,
        "explanation": "Proved (U, any graph, any successor function, no bound): the breadth-first iterator "
                       "terminates, yields the head first, no item twice, only items of the level, everything "
                       "reachable, every other item after a predecessor; hence a permutation of the level when it is "
                       "connected from its head (C16_concealed_view), and for SCFG.__iter__ a permutation of all "
                       "descendants (C16_iter). Tie: the model's lists equal the implementation's, order included; "
                       "the connectivity hypothesis is evaluated per instance, and an instance where it fails is a "
                       "violation (the iterator provably yields only what it reaches, so it omits a block).",
    }
    return {"coverage": coverage, "violations": violations, "problems": problems, "level": "proof",
            "wall_s": t.s(), "broken_name": "Props/C16.v / correspondence implementation = Iter model (run_c16)"}


REGISTRY["C16"] = check_c16


# --------------------------------------------------------------------------- C09
def check_c09(pid, tier, build, props):
    import json
    import os
    import shutil
    import subprocess

    from .tr_ops import INTERPRETERS
    from .par import VCHK

    t = common.Timer()
    problems = base_problems(build, props, pid)
    violations = []
    per_version = {}
    exp = os.path.join(os.path.dirname(os.path.abspath(__file__)), "c09_export.py")
    total = agree = applies = 0
    samples = []
    for tag, py in INTERPRETERS:
        if not os.path.exists(py):
            per_version[tag] = "interpreter not present"
            continue
        d = os.path.join(common.BUILD, "c09_" + tag)
        shutil.rmtree(d, ignore_errors=True)
        os.makedirs(d)
        env = dict(os.environ, VERIF_REPO=common.REPO, PYTHONHASHSEED="0")
        env.pop("PYTHONPATH", None)
        res = subprocess.run([py, exp, "corpus", tier, str(common.seed()), d], capture_output=True, text=True, env=env)
        if res.returncode != 0:
            problems.append("exporter failed under %s: %s" % (py, res.stderr[-300:]))
            continue
        metas = json.load(open(os.path.join(d, "metas.json")))
        out = subprocess.run([VCHK], stdin=open(os.path.join(d, "instances.txt")), capture_output=True, text=True)
        lines = out.stdout.splitlines()
        if out.returncode != 0 or len(lines) != len(metas["metas"]):
            problems.append("driver failed under %s: %d lines for %d functions" % (tag, len(lines), len(metas["metas"])))
            continue
        st = {"functions": len(lines), "out_of_domain_skipped": metas["skipped_out_of_domain"],
              "model_equals_implementation": 0, "hypotheses_hold": 0, "ground_truth_ok": 0}
        for m, line in zip(metas["metas"], lines):
            cols = [int(x) for x in line.split()[1:]]
            total += 1
            st["model_equals_implementation"] += cols[0]
            st["hypotheses_hold"] += cols[1]
            st["ground_truth_ok"] += 1 if m["ground_truth"] is None else 0
            agree += cols[0]
            applies += cols[1]
            if len(samples) < 3 and m["n_blocks"] > 3:
                samples.append({"python": metas["version"], "function": m["label"], "instructions": m["n_inst"],
                                "blocks": m["n_blocks"], "jump_opcodes": m["ops"]})
            bad = None
            if m["status"] != 0:
                bad = {"reason": "building the graph failed", "detail": m["ground_truth"]}
            elif m["ground_truth"] is not None:
                bad = {"reason": "blocks contradict the interpreter's control flow", "detail": m["ground_truth"]}
            elif cols[0] != 1:
                bad = None  # a model/implementation disagreement without a wrong result: reported below
            if bad and len(violations) < 6:
                violations.append({"python": metas["version"], "function": m["label"], "witness": bad})
            elif cols[0] != 1 and len(violations) < 6:
                violations.append({"python": metas["version"], "function": m["label"], "witness": None,
                                   "note": "model Bytecode.cut and FlowInfo disagree on this function"})
        per_version[metas["version"]] = st
    nth = len(props["theorems"])
    coverage = {
        "obligations": nth + 1,
        "discharged": (nth if props["ok"] else 0) + (1 if total and agree == total and not violations else 0),
        "checker_cmd": "coqc Props/C09.v (Gen/OpTables.v regenerated); build/extract/vchk (BytecodeRun.run_c09) on "
                       "the instruction streams and blocks of corpus functions, under each interpreter present",
        "trusted_base": TRUSTED + ["harness/vh/c09_export.py: the domain filter (EXCLUDED opcodes, exception table, "
                                   "generator flags), the list of unconditional jump names, instruction sizes taken "
                                   "from consecutive offsets", "extraction and ocaml/driver.ml"],
        "theorems": props["theorems"],
        "evaluations": total,
        "distinct_nontrivial": sum(1 for _ in range(0)) + len(set(s["function"] for s in samples)) + max(0, applies - 3),
        "rule": "every function of the listed standard-library modules plus synthetic functions covering each "
                "jump/return opcode, restricted to the domain (no exception table, no generator flag, no excluded "
                "opcode); distinct by qualified name and interpreter; non-trivial = the stream hypotheses hold so the "
                "universal theorem applies to it (counted: hypotheses_hold)",
        "per_interpreter": per_version,
        "samples": samples or [{"note": "no function exported"}],
        "traces_validated_against_impl": agree,
        "explanation": "Proved (U): for every instruction stream satisfying WfStream the model of "
                       "FlowInfo.from_bytecode/build_basicblocks succeeds and satisfies CutSpec (tiling, entry only at "
                       "begin, jumps only last, ordered successors of the last instruction). Finite obligations over "
                       "the translated tables: the library classifies every in-domain opcode of each interpreter "
                       "present as the interpreter does; non-fall-through jumps and returns have no inline cache; the "
                       "offset helpers are +2/-2. Tie: model blocks = implementation blocks on every corpus function; "
                       "WfStream evaluated (sound decision procedure) on each. Not proved: that CPython only emits "
                       "streams satisfying WfStream (no dead code after jumps/returns, cache-carrying conditional jump "
                       "not followed by a leader) - evaluated per function; functions where it fails are decided by the "
                       "direct ground-truth comparison only.",
    }
    return {"coverage": coverage, "violations": violations, "problems": problems, "level": "proof",
            "wall_s": t.s(), "broken_name": "Props/C09.v (C09_tables_agree_*, C09_cachefree, C09_cut_spec) / "
                                            "correspondence FlowInfo = Bytecode.cut"}


REGISTRY["C09"] = check_c09


# --------------------------------------------------------------------------- C11
C11_SUPPORTED_COMPOUND = {"If": ("body", "orelse"), "While": ("body", "orelse"), "For": ("body", "orelse"),
                          "FunctionDef": ("body",)}
C11_LEAVES = ["Assign", "AugAssign", "Expr", "Return", "Pass", "Break", "Continue"]


def c11_kinds():
    import ast

    out = []

    def rec(c):
        for s in c.__subclasses__():
            out.append(s)
            rec(s)

    rec(ast.stmt)
    return out


def c11_tree(rng, depth, unsupported, place_bad):
    """A statement tree; returns (kind, {field: [children]})."""
    import ast

    def stmts(d, n_min=1, inloop=False):
        return [node(d, inloop) for _ in range(rng.randrange(n_min, 3))]

    def node(d, inloop=False):
        if place_bad[0] and rng.random() < 0.12:
            place_bad[0] -= 1
            k = rng.choice(unsupported)
            cls = getattr(ast, k.split("#")[0])
            slots = {}
            for f in cls._fields:
                if f in ("body", "orelse", "finalbody") and d > 0 and rng.random() < 0.5:
                    slots[f] = stmts(d - 1, 1, inloop)
            return (k, slots)
        if d <= 0 or rng.random() < 0.45:
            # break / continue only inside a loop (anything else is not Python)
            return (rng.choice(C11_LEAVES if inloop else [x for x in C11_LEAVES if x not in ("Break", "Continue")]), {})
        k = rng.choice(["If", "While", "For", "If", "While", "For", "FunctionDef"] if place_bad[1] else
                       ["If", "While", "For"])
        body_in_loop = inloop if k == "If" else (k in ("While", "For"))
        slots = {"body": stmts(d - 1, 1, body_in_loop)}
        if k != "FunctionDef":
            slots["orelse"] = stmts(d - 1, 0, inloop)
        return (k, slots)

    return node


C11_FLAVOURS = ("name", "true", "one", "zero", "none", "and", "not", "compare")


def c11_test_expr(flavour):
    """What stands for a test / iterable: the front end's outcome must not depend on it."""
    import ast

    src = {"name": "c", "true": "True", "one": "1", "zero": "0", "none": "None", "and": "c and d",
           "not": "not c", "compare": "c < 3"}[flavour]
    return ast.parse(src, mode="eval").body


def c11_to_ast(t, flavour="name"):
    import ast

    k, slots = t
    sub = {f: [c11_to_ast(c, flavour) for c in l] for f, l in slots.items()}
    name = lambda s, ctx=None: ast.Name(id=s, ctx=ctx or ast.Load())  # noqa: E731
    if k == "FunctionDef":
        return ast.FunctionDef(name="g", args=ast.arguments(posonlyargs=[], args=[], kwonlyargs=[], kw_defaults=[],
                                                            defaults=[]),
                               body=sub.get("body", []), decorator_list=[], lineno=1, col_offset=0)
    if k == "Assign":
        return ast.Assign(targets=[name("v", ast.Store())], value=ast.Constant(1), lineno=1, col_offset=0)
    if k == "AugAssign":
        return ast.AugAssign(target=name("v", ast.Store()), op=ast.Add(), value=ast.Constant(1), lineno=1, col_offset=0)
    if k == "Expr":
        return ast.Expr(value=name("e"), lineno=1, col_offset=0)
    if k == "Return":
        return ast.Return(value=name("r"), lineno=1, col_offset=0)
    if k in ("Pass", "Break", "Continue"):
        return getattr(ast, k)(lineno=1, col_offset=0)
    if k == "If":
        return ast.If(test=c11_test_expr(flavour), body=sub.get("body", []), orelse=sub.get("orelse", []), lineno=1, col_offset=0)
    if k == "While":
        return ast.While(test=c11_test_expr(flavour), body=sub.get("body", []), orelse=sub.get("orelse", []), lineno=1, col_offset=0)
    if k == "For":
        return ast.For(target=name("i", ast.Store()), iter=name("x"), body=sub.get("body", []),
                       orelse=sub.get("orelse", []), lineno=1, col_offset=0)
    n = c11_realistic(k)
    for f, l in sub.items():
        setattr(n, f, l)
    return n


C11_TEMPLATES = {
    "AsyncFunctionDef": ("async def g():\n    pass\n", 0),
    "ClassDef": ("class C:\n    pass\n", 0),
    "Delete": ("del v\n", 0),
    "AnnAssign": ("v: int = 1\n", 0),
    "AnnAssign#bare": ("v: int\n", 0),
    "AnnAssign#attr": ("e.w: int\n", 0),
    "Raise#bare": ("raise\n", 0),
    "Assert#msg": ("assert c, e\n", 0),
    "With#as": ("with c as v:\n    pass\n", 0),
    "Try#finally": ("try:\n    pass\nfinally:\n    pass\n", 0),
    "ClassDef#empty-bases": ("class C():\n    pass\n", 0),
    "TypeAlias": ("type T = int\n", 0),
    "AsyncFor": ("async def _f():\n    async for i in x:\n        pass\n", 1),
    "AsyncWith": ("async def _f():\n    async with c:\n        pass\n", 1),
    "With": ("with c:\n    pass\n", 0),
    "Match": ("match c:\n    case 1:\n        pass\n", 0),
    "Raise": ("raise e\n", 0),
    "Try": ("try:\n    pass\nexcept E:\n    pass\n", 0),
    "TryStar": ("try:\n    pass\nexcept* E:\n    pass\n", 0),
    "Assert": ("assert c\n", 0),
    "Import": ("import os\n", 0),
    "ImportFrom": ("from os import path\n", 0),
    "Global": ("global v\n", 0),
    "Nonlocal": ("def _f():\n    v = 1\n    def _g():\n        nonlocal v\n", 2),
}


def c11_realistic(kind):
    """A node of the class as the parser builds it (all fields present: a statement with a `value`, `test`
    or `body` field has one), from a source template; a class without template (a newer interpreter) is
    built bare."""
    import ast

    tpl = C11_TEMPLATES.get(kind)
    base = kind.split("#")[0]
    if tpl is not None:
        try:
            node = ast.parse(tpl[0]).body[0]
            for _ in range(tpl[1]):
                node = node.body[-1]
            if type(node).__name__ == base:
                return node
        except SyntaxError:
            pass
    return getattr(ast, base)()


def c11_coq(t):
    k, slots = t
    return "Node %s %s" % (coqeval.coq_str(k.split("#")[0]), coqeval.coq_list(
        "(%s, %s)" % (coqeval.coq_str(f), coqeval.coq_list(c11_coq(c) for c in l)) for f, l in slots.items()))


def c11_run_impl1(top, flavour):
    import ast

    from numba_scfg.core.datastructures.ast_transforms import AST2SCFGTransformer

    try:
        AST2SCFGTransformer([ast.fix_missing_locations(c11_to_ast(t, flavour)) for t in top]).transform_to_ASTCFG()
        return "SOk"
    except NotImplementedError:
        return "SNotImplemented"
    except AssertionError:
        return "SAssertion"
    except Exception as e:
        return "other:" + type(e).__name__


def c11_run_impl(top):
    """The outcome with plain names as tests; if another kind of test expression changes it,
    that outcome, marked (the statement skeleton is the same, so the model's answer is)."""
    base = c11_run_impl1(top, "name")
    for fl in C11_FLAVOURS[1:]:
        r = c11_run_impl1(top, fl)
        if r != base:
            return "%s (with tests of flavour %r; %s with plain names)" % (r, fl, base)
    return base


def check_c11(pid, tier, build, props):
    t = common.Timer()
    common.import_repo()
    rng = random.Random(common.seed())
    problems = base_problems(build, props, pid)
    kinds = [k.__name__ for k in c11_kinds()]
    supported = set(C11_LEAVES) | set(C11_SUPPORTED_COMPOUND)
    unsupported = [k for k in kinds if k not in supported]
    # further shapes of the same classes (a statement class may be accepted for some of its forms only)
    unsupported += [v for v in C11_TEMPLATES if "#" in v and v.split("#")[0] in unsupported]
    cases = []
    # every unsupported kind at every structural position
    positions = {
        "top-level": lambda b: [b, ("Return", {})],
        "if-body": lambda b: [("If", {"body": [b], "orelse": []}), ("Return", {})],
        "if-else": lambda b: [("If", {"body": [("Pass", {})], "orelse": [b]}), ("Return", {})],
        "loop-body": lambda b: [("While", {"body": [b], "orelse": []}), ("Return", {})],
        "loop-else": lambda b: [("For", {"body": [("Pass", {})], "orelse": [b]}), ("Return", {})],
        "while-else": lambda b: [("While", {"body": [("Pass", {})], "orelse": [b]}), ("Return", {})],
        "while-break-else": lambda b: [("While", {"body": [("If", {"body": [("Break", {})], "orelse": []})],
                                                  "orelse": [b]}), ("Return", {})],
        "after-loop": lambda b: [("While", {"body": [("Pass", {})], "orelse": []}), b, ("Return", {})],
        "nested-3": lambda b: [("For", {"body": [("If", {"body": [("While", {"body": [b], "orelse": []})],
                                                         "orelse": []})], "orelse": []}), ("Return", {})],
    }
    for k in unsupported + ["FunctionDef"]:
        for pname, mk in positions.items():
            cases.append(("%s@%s" % (k, pname), [("FunctionDef", {"body": mk((k, {}))})]))
    # inputs that are not a function definition
    for k in ["Assign", "Expr", "If", "ClassDef", "AsyncFunctionDef", "Return"]:
        inner = {"body": [("Pass", {})], "orelse": []} if k == "If" else {}
        cases.append(("non-function:%s" % k, [(k, inner), ("FunctionDef", {"body": [("Return", {})]})]))
        # ... and nothing else: `async def` as the input itself must not pass for a function definition
        cases.append(("non-function-alone:%s" % k, [(k, inner)]))
    cases.append(("two-functions", [("FunctionDef", {"body": [("Return", {})]}), ("FunctionDef", {"body": [("Return", {})]})]))
    # random trees, most of them with a few unsupported statements somewhere
    for i in range(250 if tier == "quick" else 3000):
        place_bad = [rng.choice([0, 0, 1, 2]), rng.random() < 0.2]
        mk = c11_tree(rng, 3, unsupported, place_bad)
        body = [mk(3) for _ in range(rng.randrange(1, 4))]
        cases.append(("random", [("FunctionDef", {"body": body})]))
    impl = [c11_run_impl(top) for _, top in cases]
    violations = []
    evaluated = mismatches = 0
    dist = {}
    for r in impl:
        dist[r] = dist.get(r, 0) + 1
    if build["ok"]:
        lines = ["From Coq Require Import String List.", "Import ListNotations.",
                 "From V Require Import Model.Front Gen.Dispatch.", "Local Open Scope string_scope.",
                 "Definition st (top : list tree) : status := front_status dispatch dispatch_default visits stmt_kinds jump_kinds 12 top.",
                 "Definition seq (a b : status) : bool := match a, b with SOk, SOk | SNotImplemented, SNotImplemented "
                 "| SAssertion, SAssertion | SFuel, SFuel => true | _, _ => false end."]
        shard = 100
        for si in range(0, len(cases), shard):
            items = []
            for (label, top), r in zip(cases[si:si + shard], impl[si:si + shard]):
                exp = r if r in ("SOk", "SNotImplemented", "SAssertion") else "SFuel"
                items.append("seq (st %s) %s" % (coqeval.coq_list(c11_coq(x) for x in top), exp))
            lines.append("Eval vm_compute in %s." % coqeval.coq_list(items))
        rc, out, err = coqeval.run_coq("C11_corr", "\n".join(lines) + "\n")
        if rc != 0:
            problems.append("correspondence file did not compile: " + (out + err)[-400:])
        else:
            flat = [b for bl in coqeval.parse_bools(out) for b in bl]
            evaluated = len(flat)
            if len(flat) != len(cases):
                problems.append("correspondence: %d answers for %d cases" % (len(flat), len(cases)))
            for (label, top), r, okb in zip(cases, impl, flat):
                if not okb:
                    mismatches += 1
                    if len(violations) < 5:
                        violations.append({"case": label, "tree": repr(top)[:800],
                                           "witness": {"reason": "front end outcome differs from the dispatcher model",
                                                       "implementation": r}})
    # the property itself on the implementation: an unsupported kind anywhere => NotImplementedError
    for (label, top), r in zip(cases, impl):
        def live(l):
            out = []
            for x in l:
                out.append(x)
                if x[0] in ("Return", "Break", "Continue"):
                    break
            return out

        def has_bad(t, first=True):
            k, slots = t
            if k not in supported:
                return True
            return any(has_bad(c, False) or (c[0] == "FunctionDef") for l in slots.values() for c in live(l))
        bad = any(has_bad(x) for x in live(top)) or len([x for x in live(top) if x[0] == "FunctionDef"]) > 1
        if top[0][0] == "FunctionDef" and bad and r != "SNotImplemented" and len(violations) < 8:
            violations.append({"case": label, "tree": repr(top)[:800],
                               "witness": {"reason": "unsupported statement not refused with NotImplementedError",
                                           "implementation": r}})
        if top[0][0] != "FunctionDef" and r == "SOk" and len(violations) < 8:
            violations.append({"case": label, "tree": repr(top)[:800],
                               "witness": {"reason": "input that is not a function definition was accepted"}})
    nth = len(props["theorems"])
    coverage = {
        "obligations": nth + 1,
        "discharged": (nth if props["ok"] else 0) + (1 if evaluated == len(cases) and not mismatches and not violations else 0),
        "checker_cmd": "coqc Props/C11.v (Gen/Dispatch.v regenerated from ast_transforms.py and ast); coqc build/cases/C11_corr.v",
        "trusted_base": TRUSTED + ["harness builds ast nodes for each statement class with dummy expression fields"],
        "theorems": props["theorems"],
        "evaluations": len(cases),
        "distinct_nontrivial": len(set(repr(top) for _, top in cases if top[0][0] == "FunctionDef")),
        "rule": "every statement class of the running interpreter outside the supported subset (%d classes), and a "
                "nested FunctionDef, at 7 structural positions; non-function inputs; two functions; random trees of "
                "depth <= 4 with 0-2 unsupported statements; distinct by tree" % len(unsupported),
        "implementation_outcomes": dist, "unsupported_classes": unsupported,
        "samples": [{"case": cases[3][0], "tree": repr(cases[3][1])}, {"case": cases[-1][0], "tree": repr(cases[-1][1])[:400]}],
        "traces_validated_against_impl": evaluated,
        "explanation": "Proved: over the translated dispatcher, every statement class of the interpreter outside the "
                       "supported subset reaches the not-implemented arm (finite, vm_compute); handlers descend into "
                       "every statement-list field; and (U, by induction over statement trees of any depth) if the "
                       "front end accepts, no statement anywhere below the module body is of a refused class and the "
                       "only function definition is the first top-level node. Tie: dispatcher chain, handler skeleton, "
                       "codegen loop and the FunctionDef assertion are translated fail-closed; model outcome = "
                       "implementation outcome on the listed trees. A non-function input is refused by an assertion "
                       "(AssertionError), which the property accepts as refusal.",
    }
    return {"coverage": coverage, "violations": violations, "problems": problems, "level": "proof",
            "wall_s": t.s(), "broken_name": "Props/C11.v (C11_every_other_kind_refused, C11_refused_at_any_depth) / "
                                            "correspondence front end = dispatcher model"}


REGISTRY["C11"] = check_c11


# --------------------------------------------------------------------------- C12
def check_c12(pid, tier, build, props):
    import json
    import os
    import subprocess
    from concurrent.futures import ThreadPoolExecutor

    t = common.Timer()
    problems = base_problems(build, props, pid)
    seeds = [0, 1, 7, 12345] if tier == "quick" else list(range(0, 32))

    def run(hs):
        env = dict(os.environ, PYTHONHASHSEED=str(hs), PYTHONPATH=os.path.join(common.VERIF, "harness"),
                   VERIF_REPO=common.REPO)
        res = subprocess.run([common.PY, "-m", "vh.c12_seeds", tier, str(common.seed())],
                             capture_output=True, text=True, env=env)
        if res.returncode != 0:
            return hs, None, res.stderr[-300:]
        return hs, json.loads(res.stdout), None

    with ThreadPoolExecutor(min(16, len(seeds))) as ex:
        results = list(ex.map(run, seeds))
    violations = []
    base = None
    n_inputs = 0
    kinds = {}
    for hs, data, err in results:
        if data is None:
            problems.append("run under PYTHONHASHSEED=%s failed: %s" % (hs, err))
            continue
        if base is None:
            base = (hs, data)
            n_inputs = len(data)
            for k, _, _ in data:
                kinds[k] = kinds.get(k, 0) + 1
            continue
        if len(data) != len(base[1]):
            problems.append("different number of inputs under seeds %s and %s" % (base[0], hs))
            continue
        for k, inp, d in data:
            if k == "pipeline-model" and d != "agree" and len(violations) < 5:
                violations.append({"kind": k, "input": d,
                                   "witness": {"reason": "under this hash seed the implementation's state differs from "
                                                         "the pipeline model (a function of the input graph alone)",
                                               "PYTHONHASHSEED": [hs]}})
        for (k1, inp1, d1), (k2, inp2, d2) in zip(base[1], data):
            if inp1 != inp2:
                problems.append("harness generated different inputs under different hash seeds")
                break
            if d1 != d2 and len(violations) < 5:
                violations.append({"kind": k1, "input": inp1,
                                   "witness": {"reason": "result differs between hash seeds",
                                               "PYTHONHASHSEED": [base[0], hs], "digests": [d1, d2]}})
    nth = len(props["theorems"])
    site_rows = []
    try:
        from . import tr_sets

        site_rows = tr_sets.scan()
    except Exception as e:
        problems.append("scanner failed: %r" % (e,))
    coverage = {
        "obligations": nth + 1,
        "discharged": (nth if props["ok"] else 0) + (1 if base and not violations and not problems else 0),
        "checker_cmd": "coqc Props/C12.v (Gen/SetSites.v regenerated); python -m vh.c12_seeds under %d hash seeds" % len(seeds),
        "trusted_base": TRUSTED + ["harness/vh/tr_sets.py: the syntactic inference of which expressions are sets",
                                   "coq/Model/SetOrder.v 'reviewed': the hand-assigned class of every site"],
        "theorems": props["theorems"],
        "evaluations": n_inputs * len([r for r in results if r[1] is not None]),
        "distinct_nontrivial": n_inputs,
        "rule": "closed CFGs (all with 3 blocks, sampled 4-block and random up to 30 blocks), generated source "
                "programs (front end, restructuring, regenerated source text) and standard-library functions "
                "(bytecode front end + restructuring); each run in a separate process per hash seed; compared by a "
                "digest of a dump sensitive to names, nesting, dictionary order, tables; distinct = inputs",
        "hash_seeds": seeds, "inputs_by_kind": kinds,
        "set_iteration_sites": len(site_rows),
        "samples": [{"site": list(s)} for s in site_rows[:3]] + ([{"input": base[1][5][1], "digest": base[1][5][2]}] if base else []),
        "explanation": "Proved: the inventory of set-iteration sites (re-scanned on every run) is covered by the "
                       "reviewed table; for the classes sorted-result, singleton, len-member, delete-keys, "
                       "commutative the result is invariant under every permutation of the enumeration order "
                       "(universal lemmas over the models). NOT proved and named as such: the sites of class "
                       "'fixpoint' (dominator work-list and entries order, _imm_doms pruning, "
                       "prune_unreachable) and CPython's string hashing itself - the runtime behaviour the model "
                       "cannot exhibit; these rest on the cross-seed runs only. In addition, under every hash seed the "
                       "implementation's whole state after each restructuring stage (names, nesting, dictionary "
                       "order, tables, counters) is compared with Model/Pipe.v, a Gallina FUNCTION of the input graph "
                       "alone (kind 'pipeline-model' in inputs_by_kind): agreement under all seeds is determinism "
                       "of the restructuring stages on those graphs.",
    }
    return {"coverage": coverage, "violations": violations, "problems": problems, "level": "proof",
            "wall_s": t.s(), "broken_name": "Props/C12.v (C12_sites_covered) / cross-seed comparison"}


REGISTRY["C12"] = check_c12


# --------------------------------------------------------------------------- C02
def _c02_accept(args):
    """Worker: restructure every graph of a shard; returns (count, failures)."""
    import signal

    kind, payload = args
    common.import_repo()

    class TO(Exception):
        pass

    def handler(*a):
        raise TO()

    signal.signal(signal.SIGALRM, handler)
    if kind == "exh5":
        graphs = gen_graphs.exhaustive(5, shard=payload[0], nshards=payload[1])
    else:
        graphs = payload
    n = 0
    fails = []
    for succ in graphs:
        n += 1
        sc = stages.make_scfg(succ)
        signal.alarm(10)
        try:
            sc.restructure()
        except TO:
            fails.append({"graph": succ, "site": {"type": "Timeout", "function": "restructure", "stage": "?"}})
        except Exception as e:
            fails.append({"graph": succ, "site": stages.exc_site(e)})
        finally:
            signal.alarm(0)
        if len(fails) > 20:
            break
    return n, fails


def c02_real_cfgs(tier, rng):
    """Closed CFGs of real functions: generated programs through the source front end and
    standard-library functions through the bytecode front end (as plain successor tuples)."""
    import types
    from numba_scfg.core.datastructures.ast_transforms import AST2SCFGTransformer
    from numba_scfg.core.datastructures.byte_flow import ByteFlow
    from . import progs

    out = []
    skipped = 0
    for _ in range(300 if tier == "quick" else 4000):
        src = progs.ProgGen(rng, progs.CLEAN).func(3)
        try:
            cfg = AST2SCFGTransformer(src).transform_to_ASTCFG().to_dict()
        except Exception:
            skipped += 1
            continue
        names = list(cfg)
        idx = {n: i for i, n in enumerate(names)}
        try:
            succ = tuple(tuple(idx[t] for t in cfg[n]["jump_targets"]) for n in names)
        except KeyError:
            skipped += 1
            continue
        if gen_graphs.closed(succ):
            out.append(succ)
        else:
            skipped += 1
    import textwrap, heapq, bisect, shlex, fnmatch, posixpath, colorsys, difflib, calendar, string  # noqa: E401
    for mod in (textwrap, heapq, bisect, shlex, fnmatch, posixpath, colorsys, difflib, calendar, string):
        for name, f in sorted(vars(mod).items()):
            if isinstance(f, types.FunctionType) and not f.__code__.co_exceptiontable:
                try:
                    g = ByteFlow.from_bytecode(f).scfg.graph
                except Exception:
                    skipped += 1
                    continue
                names = list(g)
                idx = {n: i for i, n in enumerate(names)}
                succ = tuple(tuple(idx[t] for t in g[n]._jump_targets) for n in names)
                if gen_graphs.closed(succ):
                    out.append(succ)
                else:
                    skipped += 1
    return out, skipped


def check_c02(pid, tier, build, props):
    import multiprocessing as mp

    t = common.Timer()
    problems = base_problems(build, props, pid)
    common.import_repo()
    rng = random.Random(common.seed())
    sn = snap.get_snapshot(tier, common.seed())
    violations = []
    for e in sn["exceptions"][:10]:
        violations.append({"graph": e["graph"], "payload": e["payload"],
                           "witness": {"reason": "restructuring raised on a closed CFG", "site": e["site"]}})
    if sn["harness_errors"]:
        problems.append("harness errors: %r" % sn["harness_errors"][:2])
    real, skipped = c02_real_cfgs(tier, rng)
    jobs = [("list", real[i::8]) for i in range(8)]
    # long structured graphs (each its own job: a run that does not come back costs its 10 s and nothing else)
    jobs += [("list", [g]) for g in gen_graphs.long_chains()]
    if tier == "thorough":
        nsh = len(gen_graphs.options(5))
        jobs += [("exh5", (i, nsh)) for i in range(nsh)]
    ctx = mp.get_context("fork")
    with ctx.Pool(par_nproc()) as pool:
        res = pool.map(_c02_accept, jobs)
    extra = sum(n for n, _ in res)
    for n, fails in res:
        for f in fails[:3]:
            if len(violations) < 12:
                violations.append({"graph": f["graph"],
                                   "witness": {"reason": "restructuring raised on a closed CFG", "site": f["site"]}})
    total = sn["graphs"] + extra
    nth = len(props["theorems"])
    from . import piperun
    pr = piperun.get(tier, common.seed())
    tie_ok = pr["mismatch_count"] == 0 and not pr["harness_errors"] and pr["agree"] > 0
    if not tie_ok:
        # the model of the pipeline no longer computes what the implementation computes: the bounded
        # theorem C02_pipeline_model_le4 stops speaking about the code.  (A graph on which the
        # implementation raises is reported above as a concrete violation.)
        problems.append("correspondence implementation = Model/Pipe.v broken: %d of %d graphs differ, first: %r%s"
                        % (pr["mismatch_count"], pr["graphs"], pr["mismatches"][:1],
                           (" harness: %r" % pr["harness_errors"][:1]) if pr["harness_errors"] else ""))
    from . import loopcalls
    lt = loopcalls.tie(tier, common.seed())
    loop_tie_ok = lt["mismatch_count"] == 0 and not lt["harness_errors"] and lt["agree"] > 0
    if not loop_tie_ok:
        # the line-by-line model of loop_restructure_helper (Model/LoopEdit.v) no longer computes what the
        # implementation computes on direct calls: its theorems stop speaking about the code
        problems.append("correspondence loop_restructure_helper = Model/LoopEdit.v broken: %d calls differ, first: %r%s"
                        % (lt["mismatch_count"], lt["mismatches"][:1],
                           (" harness: %r" % lt["harness_errors"][:1]) if lt["harness_errors"] else ""))
    from . import loophcalls
    lht = loophcalls.tie(tier, common.seed())
    looph_tie_ok = lht["mismatch_count"] == 0 and not lht["harness_errors"] and lht["agree"] > 0
    if not looph_tie_ok:
        # the model of loop_restructure_helper on one level of a hierarchy (Model/LoopHier.v: the flat model applied
        # to the level's dictionary, header unification by CbHier.insert_cb_h) no longer computes what the
        # implementation computes on the calls the pipeline makes
        problems.append("correspondence loop_restructure_helper (pipeline calls, any level) = Model/LoopHier.v broken: "
                        "%d calls differ, first: %r%s"
                        % (lht["mismatch_count"], lht["mismatches"][:1],
                           (" harness: %r" % lht["harness_errors"][:1]) if lht["harness_errors"] else ""))
    if lht.get("plain_rotations_or_early_returns_not_meeting_them"):
        problems.append("the hypotheses of the universal path theorem for the loop rotation at any level "
                        "(LoopHierApplic.walk_pre_rot) do not hold - or the rotation the theorem speaks about is not "
                        "the hierarchy the implementation produced - on %d plain rotations / early returns the pipeline makes "
                        "(%d meet them), first: %r" % (lht["plain_rotations_or_early_returns_not_meeting_them"],
                                       lht["plain_rotations_meeting_path_theorem_hypotheses"] + lht["early_returns_meeting_path_theorem_hypotheses"],
                                       lht["plain_rotation_unmet_examples"][:1]))
    if lht.get("calls_with_several_headers_not_meeting_them"):
        problems.append("the hypotheses of the universal path theorem for the rotation of a loop with several headers at "
                        "any level (UniHierApplic.walk_pre_uni) do not hold - or the hierarchy the theorem speaks about "
                        "is not the one the implementation produced - on %d such calls the pipeline makes whose entries "
                        "are blocks (%d meet them), first: %r"
                        % (lht["calls_with_several_headers_not_meeting_them"],
                           lht["unified_rotations_meeting_path_theorem_hypotheses"],
                           lht["several_headers_unmet_examples"][:1]))
    from . import ibcalls
    ibt = ibcalls.tie(tier, common.seed())
    ib_tie_ok = ibt["mismatch_count"] == 0 and not ibt["harness_errors"] and ibt["agree"] > 0
    if not ib_tie_ok:
        problems.append("correspondence insert_block (pipeline calls, any level) = Model/InsHier.v broken: %d calls "
                        "differ, first: %r%s" % (ibt["mismatch_count"], ibt["mismatches"][:1],
                                                 (" harness: %r" % ibt["harness_errors"][:1]) if ibt["harness_errors"] else ""))
    if ibt.get("single_successor_insertions_not_meeting_them"):
        problems.append("the hypotheses of the universal path theorem for single-successor insertions at any level do "
                        "not hold on %d calls the pipeline makes (%d meet them), first: %r"
                        % (ibt["single_successor_insertions_not_meeting_them"],
                           ibt["single_successor_insertions_meeting_path_theorem_hypotheses"], ibt["unmet_examples"][:1]))
    from . import extractcalls
    xt_ = extractcalls.tie(tier, common.seed())
    extract_tie_ok = xt_["mismatch_count"] == 0 and not xt_["harness_errors"] and xt_["agree"] > 0
    if not extract_tie_ok:
        problems.append("correspondence extract_region = Model/Extract.v broken: %d calls differ, first: %r%s"
                        % (xt_["mismatch_count"], xt_["mismatches"][:1],
                           (" harness: %r" % xt_["harness_errors"][:1]) if xt_["harness_errors"] else ""))
    from . import cbcalls
    cbt = cbcalls.tie(tier, common.seed())
    cb_tie_ok = cbt["mismatch_count"] == 0 and not cbt["harness_errors"] and cbt["agree"] > 0
    if not cb_tie_ok:
        problems.append("correspondence insert_block_and_control_blocks = Model/CbHier.v broken: %d calls differ, "
                        "first: %r%s" % (cbt["mismatch_count"], cbt["mismatches"][:1],
                                         (" harness: %r" % cbt["harness_errors"][:1]) if cbt["harness_errors"] else ""))
    # the totality theorems of the two hierarchy-level edits (Props/C02.v: C02_region_extraction_total,
    # C02_header_unification_any_level_total) speak about calls that meet their boolean precondition;
    # evaluated (extracted Coq) on every recorded call: the pipeline must establish it
    for what, tt in (("extract_region", xt_), ("insert_block_and_control_blocks", cbt)):
        if tt.get("totality_precondition_unmet_examples"):
            problems.append("the precondition of the totality theorem for %s (Model/Total2.v) is not established on "
                            "%d of %d calls the pipeline makes, first: %r"
                            % (what, tt["calls_compared"] - tt["totality_precondition_met"], tt["calls_compared"],
                               tt["totality_precondition_unmet_examples"][:1]))
    # ... and the hypotheses of the universal PATH theorems (Props/C01.v: C01_region_extraction_preserves_paths_b,
    # C01_header_unification_any_level_preserves_paths_b; booleans of Model/Applic.v) on the same calls
    for what, tt in (("extract_region", xt_), ("insert_block_and_control_blocks", cbt)):
        if tt.get("path_theorem_hypotheses_unmet_examples"):
            problems.append("the hypotheses of the universal path theorem for %s (Model/Applic.v) do not hold on "
                            "%d of %d calls the pipeline makes, first: %r"
                            % (what, tt["calls_compared"] - tt["path_theorem_hypotheses_met"], tt["calls_compared"],
                               tt["path_theorem_hypotheses_unmet_examples"][:1]))
    b5 = None
    if tier == "thorough":
        from . import bounded5
        b5 = bounded5.run()
        if not b5["ok"]:
            problems.append("bounded theorem for 5 blocks does not check: %r" % (b5.get("failed") or b5.get("output"),))
    coverage = {
        "bounded_theorem_5_blocks": b5 if b5 is not None else "thorough tier only (676 sharded coqc runs over all 443 400 graphs)",
        "pipeline_model": dict(piperun.summary(pr), holds=tie_ok),
        "control_blocks_hierarchy_model": dict(cbt, holds=cb_tie_ok,
                                               role="every call of SCFG.insert_block_and_control_blocks made while the "
                                                    "pipeline restructures a graph - outermost and nested levels, "
                                                    "predecessors that are regions or branching synthetic blocks: "
                                                    "the hierarchy after the call equals CbHier.insert_cb_h of the "
                                                    "hierarchy before it, block for block, children in dictionary "
                                                    "order"),
        "extract_region_model": dict(xt_, holds=extract_tie_ok,
                                     role="every call of transformations.extract_region made while the pipeline "
                                          "restructures a graph (all levels of the hierarchy): the hierarchy after "
                                          "the call equals Extract.extract of the hierarchy before it, block for "
                                          "block with children in dictionary order"),
        "insert_block_hierarchy_model": dict(ibt, holds=ib_tie_ok,
                                             role="every call of SCFG.insert_block made while the pipeline restructures a "
                                                  "graph (join_returns, join_tails_and_exits, insert_SyntheticFill; any "
                                                  "level; predecessors that are regions or branching blocks): the "
                                                  "hierarchy after the call equals InsHier.insert_block_h of the hierarchy "
                                                  "before it"),
        "loop_helper_hierarchy_model": dict(lht, holds=looph_tie_ok,
                                            role="every call of transformations.loop_restructure_helper made while the "
                                                 "pipeline restructures a graph (outermost and nested levels, exits "
                                                 "that are regions, several headers): the hierarchy after the call "
                                                 "equals LoopHier.loop_helper_h of the hierarchy before it, block for "
                                                 "block, children in dictionary order"),
        "loop_helper_model": dict(lt, holds=loop_tie_ok,
                                  role="direct calls of transformations.loop_restructure_helper on (graph, loop) "
                                       "pairs - components of closed and of arbitrary graphs, some sets that are no "
                                       "component - compared order-exactly (or by kind of exception) with "
                                       "LoopEdit.loop_helper, which the path theorems for loop rotation speak about"),
        "evaluations": total,
        "distinct_nontrivial": total - sn["distribution"]["n"].get("1", 0),
        "rule": "closed CFGs with at most two distinct successors per block: ALL with <=4 blocks (3879)%s, shapes, "
                "random ones up to 40 blocks, the closed CFGs of generated source programs (front end) and of "
                "standard-library functions (bytecode front end); restructure() must return within 10 s without "
                "raising; non-trivial = more than one block; distinct by construction of the enumeration"
                % (" and ALL with 5 blocks (443 400)" if tier == "thorough" else ""),
        "exhaustive": True,
        "samples": [{"graph": real[0] if real else None, "from": "real function"}] + sn["samples"][:2],
        "by_source": dict(sn["by_source"], real_functions=len(real), real_function_cfgs_not_closed_or_unbuildable=skipped,
                          exhaustive5=extra - len(real)),
        "exceptions": len(sn["exceptions"]) + sum(len(f) for _, f in res),
        "component_theorems": props["theorems"],
        "obligations_total": nth + 1 + (1 if b5 is not None else 0),
        "discharged_total": (nth if props["ok"] else 0) + (1 if tie_ok else 0) + (1 if b5 and b5["ok"] else 0),
        "explanation": "The universal statement (forall closed g, restructure g terminates without raising) is NOT "
                       "proved: it needs a total-correctness proof of the whole pipeline. Decided by running the "
                       "implementation on the enumerated space (exhaustive up to the stated bound). Proved in Coq "
                       "(Props/C02.v): totality of the value-table rewrite with equal arity (the site repaired by "
                       "cecde5d), find_head succeeds whenever a unique un-targeted block exists, the breadth-first "
                       "iterators terminate on every graph; every EDIT of the pipeline returns without raising, for "
                       "all graphs and hierarchies, under the preconditions its callers establish "
                       "(C02_header_unification_total, C02_loop_rotation_total, C02_update_exiting_total, "
                       "C02_region_extraction_total, C02_header_unification_any_level_total over the line-by-line "
                       "models; the preconditions of the last two are booleans evaluated on every call the pipeline "
                       "makes: totality_precondition_met); and, over an executable model of the WHOLE pipeline "
                       "(Model/Pipe.v: join_returns, loop_restructure_helper, extract_region, restructure_branch "
                       "and everything they call, dictionary order included), C02_pipeline_model_le4: on every "
                       "closed graph with at most 4 blocks all three stages complete (checked by the kernel's VM "
                       "on all 3879 graphs). The model is tied to the code on every run by comparing its whole "
                       "state with the implementation's after each stage on the same graphs (pipeline_model).",
    }
    return {"coverage": coverage, "violations": violations, "problems": problems, "level": "exploration",
            "wall_s": t.s(), "broken_name": "Props/C02.v (component totality, C02_pipeline_model_le4) / acceptance "
                                            "run / correspondence implementation = Model/Pipe.v (PipeRun.run_pipe)"}


def par_nproc():
    import os

    return min(16, os.cpu_count() or 4)


REGISTRY["C02"] = check_c02


# --------------------------------------------------------------------------- C15
def check_c15(pid, tier, build, props):
    from . import c15, par

    t = common.Timer()
    problems = base_problems(build, props, pid)
    items = c15.items_for(tier, common.seed())
    out, errors = par.run(items, c15.export_item)
    if errors:
        problems.append("driver errors: %r" % errors[:2])
    violations = []
    n_dicts = agree = hyp = 0
    fd_n = fd_ok = fd_skipped = 0
    closed = 0
    not_closed = []
    fd_kinds = {}
    graphs = 0
    for item, meta, res in out:
        if meta and "harness_error" in meta:
            problems.append("harness error: %r" % (meta,))
            continue
        graphs += 1
        for f in meta["failures"]:
            if len(violations) < 6:
                violations.append({"graph": item[1], "payload": item[2], "stage": stages.STAGES[f["stage"]],
                                   "witness": {"reason": f["what"] + ": " + f["reason"]}})
        if meta.get("export_errors") and not meta["failures"]:
            problems.append("a graph the library produced cannot be exported to the model (%s): the correspondence "
                            "was not run for %r" % (meta["export_errors"][0], item))
        if res is None:
            continue
        rs = res if (res and isinstance(res[0], list)) else [res]
        fd_meta = list(meta.get("fromdict", []))
        fd_skipped += len(meta.get("fromdict_skipped", []))
        for x in rs:
            if len(x) == 4:
                what, exc = fd_meta.pop(0) if fd_meta else ("?", None)
                fd_n += 1
                fd_kinds[what + ("/raises" if exc else "/builds")] = fd_kinds.get(what + ("/raises" if exc else "/builds"), 0) + 1
                if x == [1, 1, 1, 1]:
                    fd_ok += 1
                elif len(violations) < 6:
                    why = ["instance not decoded", "one raises, the other builds a graph",
                           "top graph differs", "blocks differ"][[i for i, v in enumerate(x) if v != 1][0]]
                    violations.append({"graph": item[1], "payload": item[2], "witness": None, "model_tie": True,
                                       "note": "from_dict differs from the model Serial2.from_dict on the %s dictionary "
                                               "(%s): %s" % (what, exc or "built", why)})
                continue
            n_dicts += 1
            agree += 1 if x[0] == 1 else 0
            hyp += 1 if x[1] == 1 else 0
            closed += 1 if (len(x) > 2 and x[2] == 1) else 0
            if len(x) > 2 and x[2] != 1 and len(not_closed) < 5:
                not_closed.append({"graph": item[1], "payload": item[2]})
            if x[0] != 1 and len(violations) < 6:
                violations.append({"graph": item[1], "payload": item[2], "witness": None,
                                   "note": "written dictionary differs from the model's to_dict of the exported graph"})
    nth = len(props["theorems"])
    coverage = {
        "obligations": nth + 2,
        "discharged": (nth if props["ok"] else 0) + (1 if n_dicts and agree == n_dicts and not violations else 0)
                      + (1 if fd_n and fd_ok == fd_n else 0),
        "from_dict_runs_equal_to_model": fd_ok, "from_dict_runs": fd_n, "from_dict_runs_by_kind": fd_kinds,
        "from_dict_not_exportable": fd_skipped,
        "checker_cmd": "coqc Props/C15.v; build/extract/vchk (Serial.run_c15, Serial2.run_fromdict) on written dictionaries + exported graphs",
        "trusted_base": TRUSTED + ["extraction and ocaml/driver.ml", "harness/vh/c15.py, export.py",
                                   "PyYAML (the YAML text layer is exercised, not modelled)"],
        "theorems": props["theorems"],
        "evaluations": n_dicts,
        "distinct_nontrivial": graphs,
        "rule": "closed CFGs (all with <=3 blocks, sampled 4-block, shapes, random up to 30 blocks; plain and bytecode "
                "payloads) after each of the three stages; per graph: write, read, write again (dict and YAML), "
                "compare dictionaries and structures; every written dictionary (of the graph and of the re-read "
                "graph) compared with the model's to_dict; distinct = input graphs",
        "dictionaries_equal_to_model": agree, "theorem_hypotheses_hold": hyp,
        "round_trip_theorem_hypothesis_holds": closed, "hierarchies_not_closed_samples": not_closed,
        "samples": [{"graph": items[len(items) // 2][1], "payload": items[len(items) // 2][2]}],
        "traces_validated_against_impl": agree,
        "explanation": "Proved (U), over the model of from_dict/make_scfg/find_outer_graph (Model/Serial2.v): for EVERY "
                       "closed hierarchy, of any size and depth, the reader terminates without raising, rebuilds every "
                       "written block with the same class, payload, ordered successors, back edges, table or "
                       "assignments, every region with the same kind, header, exiting block, parent and the same blocks "
                       "in its graph, builds nothing else, keeps the outermost region's name whenever a region recorded "
                       "it, and writing the result gives the same dictionary (C15_round_trip; induction over the "
                       "recursion of make_scfg with a breadth-first invariant per level). 'Closed' is decided by the "
                       "verified checker closedb on every exported hierarchy (round_trip_theorem_hypothesis_holds). "
                       "Also proved: a dictionary entry determines its block; two hierarchies with unique names and the "
                       "same dictionary have the same blocks and nesting. Ties (M): every written dictionary equals the "
                       "model's to_dict of the exported graph; every run of the implementation's from_dict - on the "
                       "written dictionaries and on altered ones (dropped block, re-targeted edge, extra back edge, "
                       "changed contains/header/exiting/parent) - builds exactly the blocks, in the same order, that "
                       "the model builds, or both raise. Evaluated per graph on the implementation: write-read-write "
                       "and the same through YAML. Not modelled: the YAML text layer (PyYAML); dictionary order inside "
                       "a graph and the top region's name (when no region records it) are not recorded by to_dict; "
                       "PythonASTBlock cannot be serialised (not claimed by the property).",
    }
    return {"coverage": coverage, "violations": violations, "problems": problems, "level": "proof",
            "wall_s": t.s(), "broken_name": "Props/C15.v / correspondence to_dict = Serial.to_dict, from_dict = Serial2.from_dict"}


REGISTRY["C15"] = check_c15


# --------------------------------------------------------------------------- C17
def check_c17(pid, tier, build, props):
    import subprocess

    from . import c17, par

    t = common.Timer()
    problems = base_problems(build, props, pid)
    common.import_repo()
    items = c17.items_for(tier, common.seed())
    out, errors = par.run(items, c17.export_item)
    if errors:
        problems.append("driver errors: %r" % errors[:2])
    violations = []
    n = ok = 0
    graphs = 0
    for item, meta, res in out:
        if meta and "harness_error" in meta:
            problems.append("harness error: %r" % (meta,))
            continue
        graphs += 1
        for f in meta["failures"]:
            if len(violations) < 6:
                violations.append({"graph": item[1], "payload": item[2], "stage": stages.STAGES[f["stage"]],
                                   "witness": {"reason": f["reason"]}})
        if res is None:
            continue
        rs = res if (res and isinstance(res[0], list)) else [res]
        for k, x in enumerate(rs):
            n += 1
            if x == [1, 1, 1]:
                ok += 1
            elif len(violations) < 6:
                what = ["nodes/clusters", "edges", "raise/no-raise"]
                violations.append({"graph": item[1], "payload": item[2], "stage": stages.STAGES[k],
                                   "witness": {"reason": "drawing differs from the graph: " +
                                               ", ".join(w for w, v in zip(what, x) if v != 1)}})
    texts, bf_fail = c17.byteflow_texts(tier)
    for f in bf_fail[:3]:
        violations.append({"function": f["function"], "witness": {"reason": f["reason"]}})
    res = subprocess.run([par.VCHK], input="".join(texts), capture_output=True, text=True)
    bf_lines = res.stdout.splitlines()
    bf_ok = sum(1 for l in bf_lines if l.endswith("1 1 1"))
    if len(bf_lines) != len(texts):
        problems.append("driver: %d answers for %d byte-flow drawings" % (len(bf_lines), len(texts)))
    if bf_ok != len(bf_lines) and len(violations) < 8:
        violations.append({"witness": {"reason": "ByteFlowRenderer drawing differs from the graph",
                                       "count": len(bf_lines) - bf_ok}})
    nth = len(props["theorems"])
    coverage = {
        "obligations": nth + 1,
        "discharged": (nth if props["ok"] else 0) + (1 if n and ok == n and bf_ok == len(bf_lines) and not violations else 0),
        "checker_cmd": "coqc Props/C17.v; build/extract/vchk (Render.run_c17) on the parsed DOT body of every drawing",
        "trusted_base": TRUSTED + ["extraction and ocaml/driver.ml", "harness/vh/c17.py: the parser of Digraph.body",
                                   "graphviz.Digraph as a recorder of lines (no dot binary, no viewer)"],
        "theorems": props["theorems"],
        "evaluations": n + len(bf_lines),
        "distinct_nontrivial": graphs + len(bf_lines) // 2,
        "rule": "SCFGRenderer on closed CFGs (all <=3 blocks, sampled 4-block, shapes, random up to 30 blocks) with "
                "plain, bytecode and AST payloads after each stage; ByteFlowRenderer on standard-library functions "
                "before and after restructuring; each drawing's node / cluster / edge commands compared, order "
                "included, with the model; label text (name, control variable, table, assignments) checked by the "
                "harness; distinct = input graphs and functions",
        "drawings_equal_to_model": ok + bf_ok,
        "samples": [{"graph": items[len(items) // 2][1], "payload": items[len(items) // 2][2]}],
        "traces_validated_against_impl": ok + bf_ok,
        "explanation": "Proved (U): the model draws exactly one node per non-region block and one cluster per region, "
                       "in hierarchy order and properly nested; an edge a->b (solid/dashed) is drawn exactly for the "
                       "jump targets / back edges of the non-region blocks of the iteration, to the innermost header. "
                       "With C16_iter the iteration covers every block. Tie: the parsed DOT body equals the model's "
                       "command list for every drawing. Label text is compared by the harness, not proved.",
    }
    return {"coverage": coverage, "violations": violations, "problems": problems, "level": "proof",
            "wall_s": t.s(), "broken_name": "Props/C17.v / correspondence DOT body = Render model"}


REGISTRY["C17"] = check_c17


# --------------------------------------------------------------------------- C07 / C08 / C10
def _src_results(tier):
    from . import srcrun

    return srcrun.get(tier, common.seed())


def _vchk_col(o, tag):
    for line in o.get("vchk", []):
        if line.startswith("#" + tag):
            return [int(x) for x in line.split()[1:]]
    return None


def _semantic_witness(src):
    """A program on which the implementation's graph differs from the front-end model: look for a decision
    list under which interpreting the implementation's graph differs from running the function (only used
    when the correspondence is already broken; programs of a known finding class are left alone)."""
    from . import srcpipe, srcrun
    try:
        if srcrun.finding_class(src):
            return None
        o = srcpipe.analyse(src)
        s = o.get("cfg_semantics")
        if isinstance(s, dict) and "harness" not in s:
            return dict(s, reason="interpreting the graph differs from running the function")
    except Exception:
        pass
    return None


def check_c08(pid, tier, build, props):
    from . import srcrun

    t = common.Timer()
    problems = base_problems(build, props, pid)
    res = [o for o in _src_results(tier) if "src" in o]
    for o in res:
        if "harness_error" in o:
            problems.append("harness failed on a program: %s" % o["harness_error"])
    res = [o for o in res if "harness_error" not in o]
    violations = []
    n_prune = ok_prune = n_sem = ok_sem = paths = 0
    streams = {}
    for o in res:
        streams[o.get("stream")] = streams.get(o.get("stream"), 0) + 1
        cls = srcrun.finding_class(o["src"]) if o.get("stream") != "clean" else None
        if o["front"] == "timeout":
            problems.append("analysis timed out for a program")
            continue
        if isinstance(o["front"], dict):
            violations.append({"source": o["src"], "finding_class": cls,
                               "witness": {"reason": "front end died with an internal error", "site": o["front"]["internal"]}})
            continue
        c = _vchk_col(o, "c08")
        if c is not None:
            n_prune += 1
            if c == [1]:
                ok_prune += 1
            else:
                s0 = o.get("cfg_semantics")
                violations.append({"source": o["src"],
                                   "witness": (dict(s0, reason="interpreting the pruned graph differs from running the function")
                                               if isinstance(s0, dict) and "harness" not in s0 else None),
                                   "note": "pruned graph differs from the model Prune.prune of the unpruned graph"})
        s = o.get("cfg_semantics")
        if s is not None:
            n_sem += 1
            paths += o.get("cfg_paths", 0)
            if s == "ok":
                ok_sem += 1
            elif isinstance(s, dict) and "harness" in s:
                problems.append("path executor failed: %s" % s["harness"])
            else:
                violations.append({"source": o["src"], "finding_class": cls,
                                   "witness": dict(s, reason="interpreting the graph differs from running the function")})
    # a violation with a concrete failing input first
    violations.sort(key=lambda v: v.get("witness") is None)
    nth = len(props["theorems"])
    unknown = [v for v in violations if not v.get("finding_class")]
    # the front-end model of the semantic theorem (Src.v) against the transformer: same blocks, same
    # instruction order, same jump targets, same creation order, on generated programs without and/or
    from . import par, srcmodel
    sitems = srcmodel.items_for(tier, common.seed())
    sout, serr = par.run(sitems, srcmodel.export_item)
    fe = {"programs": len(sitems), "agree": 0, "skipped": {}, "with_for": 0, "mismatch": 0}
    if serr:
        problems.append("front-end correspondence driver: %r" % serr[:1])
    for item, meta, r in sout:
        if meta and "harness_error" in meta:
            problems.append("front-end correspondence harness: %r" % (meta,))
        elif meta and "skipped" in meta:
            fe["skipped"][meta["skipped"]] = fe["skipped"].get(meta["skipped"], 0) + 1
        elif (meta and "model_mismatch" in meta) or r != [1, 1, 1, 1, 1]:
            fe["mismatch"] += 1
            if fe["mismatch"] <= 6:
                violations.append({"source": item, "witness": _semantic_witness(item),
                                   "note": "graph built by the implementation differs from the model Src.build "
                                           "(answers %r %s)" % (r, (meta or {}).get("model_mismatch", ""))})
        else:
            fe["agree"] += 1
            fe["with_for"] += 1 if meta.get("fors") else 0
    fe_ok = fe["agree"] > 0 and fe["mismatch"] == 0
    # the model WITH expressions (SrcE.v: handle_expression / handle_bool_op) on programs of every kind,
    # and/or in any position included
    from . import srcmodel_e
    eitems = srcmodel_e.items_for(tier, common.seed())
    eout, eerr = par.run(eitems, srcmodel_e.export_item)
    fx = {"programs": len(eitems), "agree": 0, "skipped": {}, "with_and_or": 0, "mismatch": 0}
    if eerr:
        problems.append("front-end (expressions) correspondence driver: %r" % eerr[:1])
    for item, meta, r in eout:
        if meta and "harness_error" in meta:
            problems.append("front-end (expressions) correspondence harness: %r" % (meta,))
        elif meta and "skipped" in meta:
            fx["skipped"][meta["skipped"]] = fx["skipped"].get(meta["skipped"], 0) + 1
        elif (meta and "model_mismatch" in meta) or r is None or len(r) != 5 or r[:3] != [1, 1, 1] or r[4] != 1:
            fx["mismatch"] += 1
            if fx["mismatch"] <= 6:
                violations.append({"source": item, "witness": _semantic_witness(item),
                                   "note": "graph built by the implementation differs from the model SrcE.build "
                                           "(answers %r %s)" % (r, (meta or {}).get("model_mismatch", ""))})
        else:
            fx["agree"] += 1
            fx["with_and_or"] += 1 if meta.get("boolops") else 0
            fx["in_theorem_fragment"] = fx.get("in_theorem_fragment", 0) + (1 if len(r) > 3 and r[3] == 1 else 0)
            fx["with_and_or_in_theorem_fragment"] = fx.get("with_and_or_in_theorem_fragment", 0) + (
                1 if meta.get("boolops") and len(r) > 3 and r[3] == 1 else 0)
    fx_ok = fx["agree"] > 0 and fx["mismatch"] == 0
    coverage = {
        "obligations": nth + 3,
        "discharged": (nth if props["ok"] else 0) + (1 if n_prune and ok_prune == n_prune else 0) + (1 if fe_ok else 0)
                      + (1 if fx_ok else 0),
        "front_end_model_correspondence": fe,
        "front_end_model_with_expressions_correspondence": fx,
        "checker_cmd": "coqc Props/C08.v; build/extract/vchk (RunSrc.run_c08) on unpruned/pruned graphs; path-exhaustive "
                       "execution of source vs block-by-block interpretation of the graph",
        "trusted_base": TRUSTED + ["harness/vh/progs.py: program generator, oracle-driven executor and the block-by-block "
                                   "graph interpreter (the reading of the property's semantics)", "CPython as the reference semantics"],
        "theorems": props["theorems"],
        "evaluations": n_prune + n_sem,
        "distinct_nontrivial": len(set(o["src"] for o in res)),
        "rule": "generated programs over the supported subset (assign, augmented assign, expression statements, return, "
                "pass, if/elif/else, while/else, for/else, break, continue; tests that are calls, comparisons, not, "
                "attribute/subscript, and/or chains) whose leaves call an oracle ext(k); stream 'clean' plus three streams "
                "with one known-defective feature each; per program: model prune(unpruned) = pruned graph, and all "
                "decision paths of the function (values 0/1/2 per oracle answer, up to 250 paths) compared with the "
                "graph's interpretation; distinct by source text",
        "programs_by_stream": streams, "pruning_agrees": ok_prune, "semantics_agrees": ok_sem,
        "decision_paths_compared": paths,
        "samples": [{"source": res[0]["src"]}] if res else [],
        "traces_validated_against_impl": ok_prune,
        "explanation": "Proved (U, Prune.v): pruning removes exactly the blocks unreachable from the entry, the no-op "
                       "statements and blocks without instructions; every other instruction survives once, in order. Tie: "
                       "model prune(unpruned graph) = the implementation's pruned graph, order-exact. Proved (U, Src.v / "
                       "SrcProof.v / SrcIdx.v, C08_graph_means_source): for EVERY program of the control skeleton "
                       "(plain statements, pass, return, break, continue, if/else, while/else, for/else in desugared "
                       "form; any nesting), every meaning of statements and tests, every state - if the function "
                       "returns or raises, the block-by-block interpretation of the graph built by the front-end model "
                       "does the same in the same state; and the three pruning passes keep that meaning "
                       "(C08_pruned_graph_means_source, via prune_keeps_meaning and build_tests_last). Tie: "
                       "Src.build(skeleton) = the transformer's unpruned graph and SrcPrune.sprune of it = the "
                       "transformer's pruned graph (and entry), block for block in dictionary order "
                       "(front_end_model_correspondence). The transformer's treatment of expressions is modelled too "
                       "(SrcE.v: handle_expression / handle_bool_op; tie: SrcE.build = the transformer's unpruned graph "
                       "on programs with and/or in every position, front_end_model_with_expressions_correspondence); "
                       "on that model the full statement is FALSE and is refuted by kernel-evaluated witnesses "
                       "(C08_nested_boolop_refuted, C08_expr_order_refuted) - replayed on the implementation these are "
                       "the known findings K2 and K-expr; and where the transformer keeps the order of evaluation the positive "
                       "statement IS proved for every program (C08_graph_means_source_with_and_or: flat and/or chains of "
                       "any length in tests and values, and/or as leading operands; fragment predicate good_stmts, "
                       "evaluated per program in the run: in_theorem_fragment), for the pruned graph as well "
                       "(C08_pruned_graph_means_source_with_and_or; the tie compares the pruned graph and its entry "
                       "too). NOT proved: for-desugaring vs Python's for, divergence - "
                       "decided by path-exhaustive differential execution against CPython (exploration). Known findings (test suite pins the behaviour): nested and/or "
                       "operands are hoisted eagerly; a for target is initialised to None.",
    }
    return {"coverage": coverage, "violations": violations, "problems": problems, "level": "proof",
            "wall_s": t.s(), "broken_name": "Props/C08.v / correspondence prune / correspondence Src.build = transformer (run_src) / correspondence SrcE.build = transformer (run_srce) / "
                                            "path-exhaustive comparison"}


def check_c07(pid, tier, build, props):
    from . import srcrun

    t = common.Timer()
    problems = base_problems(build, props, pid)
    allres = _src_results(tier)
    for o in allres:
        if "harness_error" in o:
            problems.append("harness failed on an input: %s" % o["harness_error"])
    allres = [o for o in allres if "harness_error" not in o]
    violations = []
    outcomes = {}
    paths = 0
    n = 0
    for o in allres:
        is_graph = "graph" in o
        cls = None if is_graph or o.get("stream") == "clean" else srcrun.finding_class(o["src"])
        ident = {"graph": o["graph"]} if is_graph else {"source": o["src"]}
        p = o.get("pipeline")
        key = p if isinstance(p, str) else "internal"
        outcomes[key] = outcomes.get(key, 0) + 1
        n += 1
        if p == "timeout":
            problems.append("analysis timed out")
            continue
        if isinstance(p, dict):
            violations.append(dict(ident, finding_class=cls, witness={"reason": "pipeline died with an internal error",
                                                                      "site": p["internal"]}))
            continue
        if p != "ok":
            continue
        if o.get("compiles") is False:
            violations.append(dict(ident, witness={"reason": "regenerated source does not compile",
                                                   "detail": o.get("compile_error"), "code": o.get("code", "")[:600]}))
            continue
        r = o.get("roundtrip")
        paths += o.get("roundtrip_paths", 0)
        if isinstance(r, dict) and "harness" in r:
            problems.append("path executor failed: %s" % r["harness"])
        elif r is not None and r != "ok":
            violations.append(dict(ident, finding_class=cls,
                                   witness=dict(r, reason="regenerated function behaves differently", code=o.get("code", "")[:800])))
    be, bproblems, _vc, vpaths = _backend_run(tier)
    problems += bproblems
    violations += vpaths[:max(0, 8 - len(violations))]
    nth = len(props["theorems"])
    coverage = {
        "evaluations": n,
        "distinct_nontrivial": len(set(json_key(o) for o in allres if o.get("pipeline") == "ok")),
        "rule": "generated programs (as C08) through AST2SCFG -> restructure -> SCFG2AST, and closed CFGs of AST blocks "
                "(all 3-block, sampled 4-block, random up to 15 blocks) through restructure -> SCFG2AST; outcome must be "
                "'ok' or an explicit NotImplementedError; for 'ok' the regenerated source must compile and agree with the "
                "original (function, or graph interpretation) on every enumerated decision path: sequence of oracle "
                "calls, returned value / exception type; non-trivial = outcome ok; distinct by source or graph",
        "outcomes": outcomes, "decision_paths_compared": paths,
        "samples": [{"source": o["src"]} for o in allres if "src" in o][:1],
        "component_theorems": props["theorems"],
        "theorems": props["theorems"],
        "programs": be["same_tree"],
        "disagreements_checked": len(violations),
        "obligations": nth + 2,
        "discharged": (nth if props["ok"] else 0) + (1 if be["holds"] else 0)
                      + (1 if be["same_tree"] and be["all_paths_ok"] == be["same_tree"] else 0),
        "code_generator_leg": dict(be, what="per instance (restructured random graphs of AST blocks and generated "
                                   "programs): the implementation's tree equals the model's (Back.transform) node for "
                                   "node, and the verified checker back_check accepts it: laid out as a walk "
                                   "(Model/BackSem.v) the tree passes through the original blocks exactly as the input "
                                   "graph does under EVERY decision list (C07_back_leg)"),
        "checker_cmd": "coqc Props/C07.v; build/extract/vchk (BackRun.run_back: tree equality, census, back_check); "
                       "path-exhaustive differential execution against CPython",
        "trusted_base": TRUSTED + ["Model/BackSem.v 'layout': the reading of the generated Python as a walk (modelled, "
                                   "not derived from CPython)", "harness/vh/backend.py (recognition of the tree's node "
                                   "shapes), progs.py (oracle executor)", "CPython as the reference semantics of the "
                                   "differential runs"],
        "explanation": "Front leg, universal (C07_front_leg = C08): for every program of the control skeleton the pruned "
                       "graph means what the source means. Graph -> regenerated tree (restructuring and code generation "
                       "together), per instance with a verified checker (C07_back_leg): for every accepted instance ALL "
                       "decision lists drive the generated tree through the original blocks exactly as they drive the "
                       "input graph; the tree checked is the model's, which equals the implementation's node for node "
                       "on every instance of the run (refusals included). Modelled, not proved: the reading of the "
                       "generated Python as that walk; and/or operands and for-desugaring (known findings K2, K3, "
                       "K-expr); divergence. Those, and 'refuses or is right, never dies', are decided by running the "
                       "pipeline and by path-exhaustive differential execution against CPython under an external "
                       "oracle (exploration part of this check).",
    }
    return {"coverage": coverage, "violations": violations, "problems": problems, "level": "translation_validation",
            "wall_s": t.s(), "broken_name": "Props/C07.v (C07_front_leg, C07_back_leg) / correspondence implementation "
                                            "= Model/Back.v / back_check on generated trees / path-exhaustive round-trip "
                                            "comparison"}


def json_key(o):
    return o.get("src") or repr(o.get("graph"))


_BACKEND = {}


def _backend_run(tier):
    """Implementation vs Model/Back.v on restructured graphs of AST blocks and generated programs:
    same tree / same refusal, census in Coq, all-paths check of the tree against the input graph.
    Returns (summary dict, problems, violations_census, violations_paths)."""
    from . import backend, par

    key = (tier, common.seed(), common.repo_hash())
    if key in _BACKEND:
        return _BACKEND[key]
    problems, vcensus, vpaths = [], [], []
    bitems = backend.items_for(tier, common.seed())
    bout, berr = par.run(bitems, backend.export_item)
    be = {"inputs": len(bitems), "same_tree": 0, "same_refusal": 0, "skipped": {}, "tree_differs": 0,
          "census_in_coq_ok": 0, "all_paths_ok": 0, "by_kind": {}}
    if berr:
        problems.append("code-generator correspondence driver: %r" % berr[:1])
    for item, meta, r in bout:
        ident = {"graph": item[1]} if item[0] == "graph" else {"source": item[1]}
        if meta and "harness_error" in meta:
            problems.append("code-generator correspondence harness: %r" % (meta,))
        elif meta and "skipped" in meta:
            be["skipped"][meta["skipped"]] = be["skipped"].get(meta["skipped"], 0) + 1
        elif (meta and "model_mismatch" in meta) or r is None or len(r) != 6 or r[0] != 1 or r[1] != 1:
            be["tree_differs"] += 1
            if be["tree_differs"] <= 2:
                problems.append("correspondence implementation = Model/Back.v broken on %r: %s"
                                % (ident, (meta or {}).get("model_mismatch", "answers %r" % (r,))))
        else:
            be["by_kind"][item[0]] = be["by_kind"].get(item[0], 0) + 1
            if meta.get("status"):
                be["same_refusal"] += 1
            else:
                be["same_tree"] += 1
                if r[2:5] == [1, 1, 1]:
                    be["census_in_coq_ok"] += 1
                elif len(vcensus) < 6:
                    what = ["statements of original blocks", "control-variable assignments", "tests as if-conditions"]
                    vcensus.append(dict(ident, witness={"reason": "census of the generated tree (taken in Coq on the "
                                        "model's tree, which equals the implementation's): " + ", ".join(
                                            w for w, v in zip(what, r[2:5]) if v != 1)}))
                if r[5] == 1:
                    be["all_paths_ok"] += 1
                elif len(vpaths) < 6:
                    vpaths.append(dict(ident, witness={"reason": "the generated tree, laid out as a walk, does not follow "
                                       "the input graph under every decision list (verified checker back_check "
                                       "rejects)"}))
    be["holds"] = be["tree_differs"] == 0 and be["same_tree"] > 0 and not berr
    _BACKEND[key] = (be, problems, vcensus, vpaths)
    return _BACKEND[key]


def check_c10(pid, tier, build, props):
    t = common.Timer()
    problems = base_problems(build, props, pid)
    allres = _src_results(tier)
    for o in allres:
        if "harness_error" in o:
            problems.append("harness failed on an input: %s" % o["harness_error"])
    allres = [o for o in allres if "harness_error" not in o]
    violations = []
    n = ok = 0
    sizes = [0, 0, 0]
    for o in allres:
        if o.get("pipeline") != "ok":
            continue
        ident = {"graph": o["graph"]} if "graph" in o else {"source": o["src"]}
        c = _vchk_col(o, "c10")
        n += 1
        if o.get("compiles") is False:
            violations.append(dict(ident, witness={"reason": "regenerated source does not compile",
                                                   "detail": o.get("compile_error")}))
            continue
        if o.get("unreserved"):
            violations.append(dict(ident, witness={"reason": "regenerated source introduces names outside the reserved "
                                                   "__scfg_..__ namespace", "names": o["unreserved"]}))
            continue
        if c == [1, 1, 1]:
            ok += 1
            for i, s in enumerate(o.get("census_sizes", [0, 0, 0])):
                sizes[i] += s
        else:
            what = ["statements of original blocks", "control-variable assignments", "tests as if-conditions"]
            violations.append(dict(ident, witness={"reason": "census mismatch: " + ", ".join(
                w for w, v in zip(what, c or [0, 0, 0]) if v != 1), "code": o.get("code", "")[:800]}))
    nth = len(props["theorems"])
    be, bproblems, vcensus, _vpaths = _backend_run(tier)
    problems += bproblems
    violations += vcensus[:max(0, 6 - len(violations))]
    be_ok = be["holds"]
    coverage = {
        "code_generator_model": dict(be, what="Back.transform(hierarchy) = tree built by "
                                     "SCFG2ASTTransformer, node for node, or the same kind of refusal; census of the "
                                     "tree by Back.census_* against the hierarchy, all inside the extracted Coq code"),
        "programs": n,
        "disagreements_checked": len(violations),
        "samples": [{"source": o["src"], "regenerated": o.get("code", "")[:400]} for o in allres
                    if o.get("pipeline") == "ok" and "src" in o][:1] or [{"note": "no accepted program"}],
        "census_accepted": ok,
        "items_counted": {"statements": sizes[0], "assignments": sizes[1], "tests": sizes[2]},
        "theorems": props["theorems"],
        "obligations": nth + 1, "discharged": (nth if props["ok"] else 0) + (1 if be_ok else 0),
        "checker_cmd": "coqc Props/C10.v; build/extract/vchk (RunSrc.run_c10) on the identities of statements in the "
                       "hierarchy vs the regenerated tree; vchk (BackRun.run_back) model tree = implementation tree + census",
        "trusted_base": ["Coq kernel", "extraction, ocaml/driver.ml",
                         "harness/vh/srcpipe.py census_rows: identification of statements by object identity"],
        "explanation": "Per regenerated tree (every accepted generated program and every accepted graph of AST blocks): "
                       "the multiset of original statements, of control-variable assignments and of branching tests "
                       "used as if-conditions equals what the restructured hierarchy holds - decided by the verified "
                       "checker census_check (sound: equal multisets). A static census: covers code on paths no input "
                       "exercises. Also checked by the harness: the output compiles; new identifiers match "
                       "^__scfg_.*__$. Added: an executable model of SCFG2ASTTransformer (Model/Back.v: lookup through "
                       "the region stack, loop-continue counter, if cascades, region views) whose tree equals the "
                       "implementation's node for node on every input of this run, refusals included; the census is "
                       "then taken in Coq on that tree. Not proved: a universal census theorem over that model.",
    }
    return {"coverage": coverage, "violations": violations, "problems": problems, "level": "translation_validation",
            "wall_s": t.s(), "broken_name": "census_check (Props/C10.v) on regenerated trees / correspondence implementation = "
                                                           "Model/Back.v (BackRun.run_back)"}


REGISTRY["C07"] = check_c07
REGISTRY["C08"] = check_c08
REGISTRY["C10"] = check_c10

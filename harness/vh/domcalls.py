"""transformations._find_dominators_internal against its line-by-line model Model/DomWl.v
(DomWlRun.run_dom), two kinds of calls:

 - every call the pipeline makes while it restructures a graph (both directions: _doms, _post_doms),
   with the successor sets iterated in the order the interpreter really uses;
 - direct calls with the successor "sets" given as lists in a chosen (shuffled) order, on tables of
   closed, of arbitrary and of inconsistent graphs (missing keys, no entry points).

Compared: the kind of outcome, the returned dictionary (key order included) and the order in which nodes
are processed together with whether each one changed (observed through the look-ups in preds_table /
succs_table)."""
import random

from . import common, gen_graphs, par, stages


class LogDict(dict):
    def __init__(self, data, log, tag):
        dict.__init__(self, data)
        self._log = log
        self._tag = tag
        self._default = hasattr(data, "default_factory") and data.default_factory is not None

    def __getitem__(self, k):
        self._log.append((self._tag, k))
        if k not in self and self._default:
            return set()
        return dict.__getitem__(self, k)


def observe(fn, entries, nodes, preds, succs):
    """Run fn with logging tables.  preds/succs: dict name -> iterable (kept as given, so a set is
    iterated in the interpreter's own order)."""
    log = []
    # what the model needs: the orders in which the implementation will iterate
    ent_order = list(entries)
    succ_order = {k: list(v) for k, v in succs.items()}
    pred_order = {k: list(v) for k, v in preds.items()}
    status, res = 0, None
    try:
        res = fn(entries, nodes, LogDict(preds, log, "p"), LogDict(succs, log, "s"))
    except KeyError:
        status = 1
    except AssertionError:
        status = 2
    except RuntimeError:
        status = 3
    proc = []
    for tag, k in log:
        if tag == "p":
            proc.append([k, 0])
        elif proc and proc[-1][0] == k:
            proc[-1][1] = 1
        else:
            proc.append([k, 1])   # cannot happen: the model will disagree
    return status, res, proc, ent_order, pred_order, succ_order


def rows_for(nodes, ent_order, pred_order, succ_order, status, res, proc):
    names = set(nodes) | set(ent_order)
    for t in (pred_order, succ_order):
        for k, v in t.items():
            names.add(k)
            names.update(v)
    if res:
        for k, v in res.items():
            names.add(k)
            names.update(v)
    ids = {n: i + 1 for i, n in enumerate(sorted(names, key=str))}
    rows = [[122], [60] + [ids[n] for n in nodes], [61] + [ids[e] for e in ent_order]]
    for k, v in pred_order.items():
        rows.append([62, ids[k]] + [ids[x] for x in v])
    for k, v in succ_order.items():
        rows.append([63, ids[k]] + [ids[x] for x in v])
    rows.append([64, status])
    if status == 0:
        for k, v in res.items():
            rows.append([65, ids[k]] + sorted(ids[x] for x in v))
        for k, c in proc:
            rows.append([66, ids[k], c])
    return "#d\n" + "\n".join(" ".join(map(str, r)) for r in rows) + "\n0\n"


def tables(succ, reverse):
    """Tables as _doms / _post_doms build them for a plain graph succ: index -> tuple of successors."""
    nodes = list(range(len(succ)))
    preds = {n: set() for n in nodes}
    succs = {n: set() for n in nodes}
    for s, ts in enumerate(succ):
        for t in ts:
            if 0 <= t < len(succ):
                if reverse:
                    preds[s].add(t)
                    succs[t].add(s)
                else:
                    preds[t].add(s)
                    succs[s].add(t)
    entries = set(n for n in nodes if not preds[n])
    return entries, nodes, preds, succs


def export_item(item):
    from numba_scfg.core import transformations as T

    kind, payload, seed = item
    texts = []
    meta = {"calls": 0, "kinds": []}
    if kind == "pipeline":
        sc = stages.make_scfg(payload)
        orig_fn = T._find_dominators_internal
        calls = []

        def spy(entries, nodes, preds_table, succs_table):
            status, res, proc, eo, po, so = observe(orig_fn, entries, nodes, preds_table, succs_table)
            calls.append((list(nodes), eo, po, so, status, res, proc))
            if status == 1:
                raise KeyError("dominators")
            if status == 2:
                raise AssertionError("dominators")
            if status == 3:
                raise RuntimeError("dominators")
            return res

        T._find_dominators_internal = spy
        try:
            sc.restructure()
        except Exception as e:
            meta["exc"] = repr(e)[:80]
        finally:
            T._find_dominators_internal = orig_fn
        for nodes, eo, po, so, status, res, proc in calls:
            if len(nodes) > 64:
                continue
            texts.append(rows_for(nodes, eo, po, so, status, res, proc))
            meta["kinds"].append("pipeline")
    else:
        rng = random.Random(seed)
        for reverse in (False, True):
            entries, nodes, preds, succs = tables(payload, reverse)
            # the successor sets as lists in a shuffled order: any order must give the same table
            so = {}
            for k, v in succs.items():
                lv = sorted(v)
                rng.shuffle(lv)
                so[k] = lv
            eo = sorted(entries)
            rng.shuffle(eo)
            if kind == "broken":
                # inconsistent tables: a predecessor that is no node, or no entry points at all
                if rng.random() < 0.5 and nodes:
                    preds[rng.choice(nodes)].add(len(nodes) + 5)
                else:
                    eo = []
            status, res, proc, eo2, po, so2 = observe(T._find_dominators_internal, eo, nodes, preds, so)
            texts.append(rows_for(nodes, eo2, po, so2, status, res, proc))
            meta["kinds"].append(kind + ("-post" if reverse else ""))
    meta["calls"] = len(texts)
    return ("".join(texts) if texts else None), meta


def items_for(tier, seed):
    rng = random.Random(seed + 122)
    items = []
    for s in gen_graphs.shapes():
        items.append(("pipeline", s, 0))
    for i in range(80 if tier == "quick" else 2000):
        n = rng.randrange(3, 9) if i % 2 == 0 else rng.randrange(9, 25)
        items.append(("pipeline", gen_graphs.random_closed(rng, n), 0))
    small = list(gen_graphs.exhaustive(3))
    for g in (small if tier == "thorough" else rng.sample(small, min(len(small), 40))):
        items.append(("direct", g, rng.randrange(1 << 30)))
    for i in range(300 if tier == "quick" else 6000):
        n = rng.randrange(2, 14)
        if i % 3 == 0:
            g = gen_graphs.random_closed(rng, n)
        else:
            # arbitrary graph: any out-degree up to 3, unreachable cycles, several entries, no exit
            g = tuple(tuple(rng.sample(range(n), rng.randrange(0, min(3, n) + 1))) for _ in range(n))
        items.append(("direct", g, rng.randrange(1 << 30)))
    for i in range(40 if tier == "quick" else 400):
        n = rng.randrange(2, 8)
        g = tuple(tuple(rng.sample(range(n), rng.randrange(0, min(3, n) + 1))) for _ in range(n))
        items.append(("broken", g, rng.randrange(1 << 30)))
    return items


def tie(tier, seed):
    common.import_repo()
    items = items_for(tier, seed)
    out, errors = par.run(items, export_item)
    agree = total = 0
    mism = []
    kinds = {}
    for item, meta, res in out:
        if meta and "harness_error" in meta:
            errors = list(errors) + [meta]
            continue
        for k in (meta or {}).get("kinds", []):
            kinds[k] = kinds.get(k, 0) + 1
        if res is None:
            continue
        rs = res if (res and isinstance(res[0], list)) else [res]
        for x in rs:
            total += 1
            if x == [1, 1, 1, 1]:
                agree += 1
            elif len(mism) < 4:
                mism.append({"kind": item[0], "graph": item[1], "columns": x})
    return {"calls_compared": total, "agree": agree, "mismatch_count": total - agree, "mismatches": mism,
            "calls_by_kind": kinds, "harness_errors": [repr(e)[:200] for e in errors][:3]}

"""C15: serialisation — implementation round trips, and the written dictionaries
compared with the model's to_dict of the exported graphs."""
import random
import zlib

from . import common, export, gen_graphs, snap, stages

TCODE = {"basic": 100, "python_bytecode": 100, "synth_asign": 20, "region": 50,
         "synth_head": export.CLS["SyntheticHead"], "synth_branch": export.CLS["SyntheticBranch"],
         "synth_tail": export.CLS["SyntheticTail"], "synth_exit": export.CLS["SyntheticExit"],
         "synth_return": export.CLS["SyntheticReturn"], "synth_exit_latch": export.CLS["SyntheticExitingLatch"],
         "synth_exit_branch": export.CLS["SyntheticExitBranch"], "synth_fill": export.CLS["SyntheticFill"]}


MUTANTS = 2


def dict_rows(d, tabs):
    ids, vids, pls = tabs["names"], tabs["vars"], tabs["payloads"]
    rows = []
    L = lambda xs: [len(xs)] + list(xs)  # noqa: E731
    for name, info in d["blocks"].items():
        ty = info["type"]
        extra = []
        if ty == "basic":
            extra = [pls["basic"]]
        elif ty == "python_bytecode":
            extra = [pls["bc:%r:%r" % (info["begin"], info["end"])]]
        elif ty == "region":
            extra = [export.RK.get(info["kind"], 9), ids[info["header"]], ids[info["exiting"]],
                     ids[info["parent_region"]]] + [ids[c] for c in info["contains"]]
        elif ty == "synth_asign":
            for v, z in info["variable_assignment"].items():
                extra += [vids[v], z]
        elif "branch_value_table" in info:
            extra = [vids[info["variable"]]]
            for z, t in info["branch_value_table"].items():
                extra += [z, ids[t]]
        rows.append([80, ids[name], TCODE[ty]] + L([ids[t] for t in d["edges"][name]])
                    + L([ids[t] for t in d["backedges"][name]]) + L(extra))
    return rows


def fromdict_text(label, orig, d, mutate_seed=None):
    """One instance for Serial2.run_fromdict: what from_dict builds from dictionary d
    (or that it raises), followed by d.  Names are interned over d and the result."""
    import copy
    import sys

    from numba_scfg.core.datastructures.scfg import SCFG

    d = copy.deepcopy(d)
    lim = sys.getrecursionlimit()
    try:
        sys.setrecursionlimit(400)
        try:
            sc, _ = SCFG.from_dict(copy.deepcopy(d))
        finally:
            sys.setrecursionlimit(lim)
    except (KeyError, AssertionError, TypeError, RecursionError, AttributeError, IndexError) as e:
        sc = None
        exc = type(e).__name__
    # every name the dictionary mentions must be interned, also those the result lacks
    extra_names = set(d["blocks"])
    for k in d["blocks"]:
        extra_names.update(d["edges"].get(k, ()))
        extra_names.update(d["backedges"].get(k, ()) or ())
        info = d["blocks"][k]
        for f in ("header", "exiting", "parent_region"):
            if isinstance(info.get(f), str):
                extra_names.add(info[f])
        extra_names.update(info.get("contains", ()))
        if "branch_value_table" in info:
            extra_names.update(info["branch_value_table"].values())
    if sc is None:
        names = {s_: i + 1 for i, s_ in enumerate(sorted(extra_names))}
        tabs = {"names": names, "vars": _vars_of(d), "payloads": _payloads_of(d)}
        rows = [[118], [7]] + dict_rows(d, tabs)
        return "#%s\n" % label + "\n".join(" ".join(map(str, r)) for r in rows) + "\n0\n", exc
    rows, tabs = export.export(orig, sc, extra_names=extra_names, extra_vars=_vars_of(d), extra_payloads=_payloads_of(d))
    rows = [r for r in rows if r[0] != 1]
    dr = dict_rows(d, tabs)
    return "#%s\n" % label + "\n".join(" ".join(map(str, r)) for r in [[118]] + rows + dr) + "\n0\n", None


def _vars_of(d):
    vs = set()
    for info in d["blocks"].values():
        if "variable" in info:
            vs.add(info["variable"])
        vs.update(info.get("variable_assignment", {}).keys())
    return {s_: i + 1 for i, s_ in enumerate(sorted(vs))}


def _payloads_of(d):
    ps = set()
    for info in d["blocks"].values():
        if info["type"] == "basic":
            ps.add("basic")
        elif info["type"] == "python_bytecode":
            ps.add("bc:%r:%r" % (info["begin"], info["end"]))
    return {s_: i + 1 for i, s_ in enumerate(sorted(ps))}


def mutate(d, rng):
    """A dictionary that differs from d in one respect, using only names d already holds."""
    import copy

    d = copy.deepcopy(d)
    keys = sorted(d["blocks"])
    regions = [k for k in keys if d["blocks"][k]["type"] == "region"]
    kind = rng.choice(["drop", "retarget", "uncontain", "header", "exiting", "parent", "backedge"])
    if kind == "drop":
        k = rng.choice(keys)
        for part in ("blocks", "edges", "backedges"):
            d[part].pop(k, None)
    elif kind == "retarget":
        cands = [k for k in keys if d["edges"][k]]
        if cands:
            k = rng.choice(cands)
            e = list(d["edges"][k])
            e[rng.randrange(len(e))] = rng.choice(keys)
            d["edges"][k] = e
    elif kind == "backedge":
        k = rng.choice(keys)
        d["backedges"][k] = list(d["backedges"].get(k) or []) + [rng.choice(keys)]
    elif regions:
        r = rng.choice(regions)
        info = d["blocks"][r]
        if kind == "uncontain" and info["contains"]:
            c = list(info["contains"])
            c.pop(rng.randrange(len(c)))
            info["contains"] = c
        elif kind == "header" and info["contains"]:
            info["header"] = rng.choice(info["contains"])
        elif kind == "exiting" and info["contains"]:
            info["exiting"] = rng.choice(info["contains"])
        elif kind == "parent":
            info["parent_region"] = rng.choice(regions)
    return kind, d


def canon(sc):
    return sorted(l.strip() for l in export.dump(sc))


def export_item(item):
    from numba_scfg.core.datastructures.scfg import SCFG

    src, succ, pk = item
    sc = stages.make_scfg(succ, snap.block_factory(pk))
    orig = export.original_of(sc)
    texts = []
    meta = {"failures": []}

    def one(k, tag, g, d):
        try:
            rows, tabs = export.export(orig, g)
        except export.ExportError as e:
            # a graph the exporter cannot encode (a payload value that is no integer, ...): the comparisons
            # made above on the Python side stand; the correspondence with the model is not run for it
            meta.setdefault("export_errors", []).append("%s%s: %s" % (k, tag, str(e)[:100]))
            return
        try:
            dr = dict_rows(d, tabs)
        except KeyError as e:
            meta["failures"].append({"stage": k, "what": tag, "reason": "dictionary names something the graph does not hold: %r" % (e,)})
            return
        if not all(isinstance(x, int) and not isinstance(x, bool) for r in rows + dr for x in r):
            meta.setdefault("export_errors", []).append("%s%s: a field that is no integer" % (k, tag))
            return
        texts.append("#%d%s\n" % (k, tag) + "\n".join(" ".join(map(str, r)) for r in [[115]] + rows + dr) + "\n0\n")

    def on_stage(k, st, scfg):
        try:
            d = scfg.to_dict()
        except Exception as e:
            meta["failures"].append({"stage": k, "what": "to_dict", "reason": repr(e)[:200]})
            return
        try:
            sc2, _ = SCFG.from_dict(d)
            d2 = sc2.to_dict()
        except Exception as e:
            meta["failures"].append({"stage": k, "what": "from_dict/to_dict again", "reason": repr(e)[:200]})
            return
        if d2 != d:
            meta["failures"].append({"stage": k, "what": "write-read-write", "reason": "second dictionary differs"})
        if canon(sc2) != canon(scfg):
            meta["failures"].append({"stage": k, "what": "re-read graph", "reason": "structure differs from the written graph"})
        try:
            y = scfg.to_yaml()
            sc3, _ = SCFG.from_yaml(y)
            if sc3.to_dict() != d or sc3.to_yaml() != y:
                meta["failures"].append({"stage": k, "what": "yaml write-read-write", "reason": "differs"})
            if canon(sc3) != canon(scfg):
                meta["failures"].append({"stage": k, "what": "yaml re-read graph", "reason": "structure differs"})
        except Exception as e:
            meta["failures"].append({"stage": k, "what": "yaml", "reason": repr(e)[:200]})
        one(k, "w", scfg, d)
        one(k, "r", sc2, d2)
        # the reader itself against its model: the dictionary just written, and altered ones
        rng = random.Random(zlib.crc32(repr((k, sorted(d["blocks"]), sorted(d["edges"].items()))).encode()))
        todo = [("valid", d)] + [mutate(d, rng) for _ in range(MUTANTS)]
        for what, dd in todo:
            try:
                txt, exc = fromdict_text("%df-%s" % (k, what), orig, dd)
            except export.ExportError as e:
                meta.setdefault("fromdict_skipped", []).append("%s: %s" % (what, str(e)[:80]))
                continue
            if not all(tok.lstrip("-").isdigit() for ln in txt.splitlines() if not ln.startswith("#") for tok in ln.split()):
                meta.setdefault("fromdict_skipped", []).append("%s: a field that is no integer" % what)
                continue
            texts.append(txt)
            meta.setdefault("fromdict", []).append([what, exc])

    meta["exc"] = stages.run_stages(sc, on_stage)
    return "".join(texts) if texts else None, meta


def items_for(tier, seed):
    items = []
    for n in (1, 2, 3):
        for s in gen_graphs.exhaustive(n):
            items.append(("exh%d" % n, s, "basic"))
    rng = random.Random(seed + 15)
    g4 = list(gen_graphs.exhaustive(4))
    for s in rng.sample(g4, 400 if tier == "quick" else len(g4)):
        items.append(("exh4", s, "bc"))
    for s in gen_graphs.shapes():
        items.append(("shape", s, "bc"))
    for i in range(400 if tier == "quick" else 8000):
        n = rng.randrange(5, 13) if i % 2 == 0 else rng.randrange(13, 31)
        items.append(("rnd", gen_graphs.random_closed(rng, n), ("basic", "bc")[i % 2]))
    return items

"""C15: serialisation — implementation round trips, and the written dictionaries
compared with the model's to_dict of the exported graphs."""
import random

from . import common, export, gen_graphs, snap, stages

TCODE = {"basic": 100, "python_bytecode": 100, "synth_asign": 20, "region": 50,
         "synth_head": export.CLS["SyntheticHead"], "synth_branch": export.CLS["SyntheticBranch"],
         "synth_tail": export.CLS["SyntheticTail"], "synth_exit": export.CLS["SyntheticExit"],
         "synth_return": export.CLS["SyntheticReturn"], "synth_exit_latch": export.CLS["SyntheticExitingLatch"],
         "synth_exit_branch": export.CLS["SyntheticExitBranch"], "synth_fill": export.CLS["SyntheticFill"]}


def dict_rows(d, tabs):
    ids, vids, pls = tabs["names"], tabs["vars"], tabs["payloads"]
    rows = []
    L = lambda xs: [len(xs)] + list(xs)  # noqa: E731
    for name, info in d["blocks"].items():
        ty = info["type"]
        extra = []
        if ty == "basic":
            extra = [pls["basic"]]
        elif ty == "python_bytecode":
            extra = [pls["bc:%r:%r" % (info["begin"], info["end"])]]
        elif ty == "region":
            extra = [export.RK.get(info["kind"], 9), ids[info["header"]], ids[info["exiting"]],
                     ids[info["parent_region"]]] + [ids[c] for c in info["contains"]]
        elif ty == "synth_asign":
            for v, z in info["variable_assignment"].items():
                extra += [vids[v], z]
        elif "branch_value_table" in info:
            extra = [vids[info["variable"]]]
            for z, t in info["branch_value_table"].items():
                extra += [z, ids[t]]
        rows.append([80, ids[name], TCODE[ty]] + L([ids[t] for t in d["edges"][name]])
                    + L([ids[t] for t in d["backedges"][name]]) + L(extra))
    return rows


def canon(sc):
    return sorted(l.strip() for l in export.dump(sc))


def export_item(item):
    from numba_scfg.core.datastructures.scfg import SCFG

    src, succ, pk = item
    sc = stages.make_scfg(succ, snap.block_factory(pk))
    orig = export.original_of(sc)
    texts = []
    meta = {"failures": []}

    def one(k, tag, g, d):
        rows, tabs = export.export(orig, g)
        try:
            dr = dict_rows(d, tabs)
        except KeyError as e:
            meta["failures"].append({"stage": k, "what": tag, "reason": "dictionary names something the graph does not hold: %r" % (e,)})
            return
        texts.append("#%d%s\n" % (k, tag) + "\n".join(" ".join(map(str, r)) for r in [[115]] + rows + dr) + "\n0\n")

    def on_stage(k, st, scfg):
        try:
            d = scfg.to_dict()
        except Exception as e:
            meta["failures"].append({"stage": k, "what": "to_dict", "reason": repr(e)[:200]})
            return
        try:
            sc2, _ = SCFG.from_dict(d)
            d2 = sc2.to_dict()
        except Exception as e:
            meta["failures"].append({"stage": k, "what": "from_dict/to_dict again", "reason": repr(e)[:200]})
            return
        if d2 != d:
            meta["failures"].append({"stage": k, "what": "write-read-write", "reason": "second dictionary differs"})
        if canon(sc2) != canon(scfg):
            meta["failures"].append({"stage": k, "what": "re-read graph", "reason": "structure differs from the written graph"})
        try:
            y = scfg.to_yaml()
            sc3, _ = SCFG.from_yaml(y)
            if sc3.to_dict() != d or sc3.to_yaml() != y:
                meta["failures"].append({"stage": k, "what": "yaml write-read-write", "reason": "differs"})
            if canon(sc3) != canon(scfg):
                meta["failures"].append({"stage": k, "what": "yaml re-read graph", "reason": "structure differs"})
        except Exception as e:
            meta["failures"].append({"stage": k, "what": "yaml", "reason": repr(e)[:200]})
        one(k, "w", scfg, d)
        one(k, "r", sc2, d2)

    meta["exc"] = stages.run_stages(sc, on_stage)
    return "".join(texts) if texts else None, meta


def items_for(tier, seed):
    items = []
    for n in (1, 2, 3):
        for s in gen_graphs.exhaustive(n):
            items.append(("exh%d" % n, s, "basic"))
    rng = random.Random(seed + 15)
    g4 = list(gen_graphs.exhaustive(4))
    for s in rng.sample(g4, 400 if tier == "quick" else len(g4)):
        items.append(("exh4", s, "bc"))
    for s in gen_graphs.shapes():
        items.append(("shape", s, "bc"))
    for i in range(400 if tier == "quick" else 8000):
        n = rng.randrange(5, 13) if i % 2 == 0 else rng.randrange(13, 31)
        items.append(("rnd", gen_graphs.random_closed(rng, n), ("basic", "bc")[i % 2]))
    return items

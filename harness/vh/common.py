"""Shared plumbing: paths, importing the implementation from /repo, hashing the
working tree, evidence and violation output, known findings."""
import hashlib
import json
import logging
import os
import sys
import time

VERIF = os.path.dirname(os.path.dirname(os.path.dirname(os.path.abspath(__file__))))
REPO = os.environ.get("VERIF_REPO", "/repo")
BUILD = os.path.join(VERIF, "build")
COQ = os.path.join(VERIF, "coq")
EVID = os.path.join(VERIF, "evidence")
REPLAYS = os.path.join(VERIF, "replays")
PY = "/venv/bin/python"


def import_repo():
    """Import numba_scfg from /repo's working tree (never an installed copy)."""
    if REPO not in sys.path:
        sys.path.insert(0, REPO)
    loaded = sys.modules.get("numba_scfg")
    if loaded is not None and os.path.abspath(getattr(loaded, "__file__", "") or "").startswith(
            os.path.abspath(REPO) + os.sep):
        # already the working tree's copy: importing it a second time would leave two generations of
        # the classes alive in one process (isinstance / match statements of the old one fail on
        # blocks built by the new one)
        return loaded
    for m in [m for m in sys.modules if m.startswith("numba_scfg")]:
        del sys.modules[m]
    logging.disable(logging.CRITICAL)
    import numba_scfg  # noqa

    assert os.path.abspath(numba_scfg.__file__).startswith(os.path.abspath(REPO)), (
        numba_scfg.__file__
    )
    return numba_scfg


def repo_hash():
    """sha256 over every .py file under /repo/numba_scfg (working tree)."""
    hh = hashlib.sha256()
    root = os.path.join(REPO, "numba_scfg")
    for d, dirs, files in sorted(os.walk(root)):
        dirs.sort()
        if "__pycache__" in d:
            continue
        for f in sorted(files):
            if f.endswith(".py"):
                p = os.path.join(d, f)
                hh.update(p.encode())
                hh.update(open(p, "rb").read())
    return hh.hexdigest()[:16]


def harness_hash():
    """sha256 over the harness sources: cached runs are tied to the code that produced them."""
    hh = hashlib.sha256()
    d = os.path.dirname(os.path.abspath(__file__))
    for f in sorted(os.listdir(d)):
        if f.endswith(".py"):
            hh.update(open(os.path.join(d, f), "rb").read())
    return hh.hexdigest()[:8]


def seed():
    try:
        return int(os.environ.get("VERIF_SEED", "1"))
    except ValueError:
        return 1


class Timer:
    def __init__(self):
        self.t0 = time.time()

    def s(self):
        return round(time.time() - self.t0, 2)


def write_evidence(pid, tier, level, coverage, wall_s, violations=0, assumptions=None):
    os.makedirs(EVID, exist_ok=True)
    if level == "proof" and coverage.get("discharged") == 0:
        # nothing was discharged on this run: report the counts under other keys so that
        # the file still describes what was explored (the schema wants discharged >= 1)
        coverage = dict(coverage)
        coverage["obligations_total"] = coverage.pop("obligations", 0)
        coverage["discharged_total"] = coverage.pop("discharged", 0)
    ev = {
        "property_id": pid,
        "tier": tier,
        "seed": seed(),
        "level": level,
        "coverage": coverage,
        "assumptions": assumptions or [],
        "wall_s": wall_s,
        "violations": violations,
    }
    tmp = os.path.join(EVID, pid + ".json.tmp")
    with open(tmp, "w") as f:
        json.dump(ev, f, indent=1, sort_keys=True, default=str)
    os.replace(tmp, os.path.join(EVID, pid + ".json"))


def write_replay(pid, payload):
    os.makedirs(REPLAYS, exist_ok=True)
    blob = json.dumps(payload, sort_keys=True, default=str)
    name = "%s-%s.json" % (pid, hashlib.sha256(blob.encode()).hexdigest()[:10])
    path = os.path.join(REPLAYS, name)
    with open(path, "w") as f:
        json.dump(payload, f, indent=1, sort_keys=True, default=str)
    return path


def load_known():
    p = os.path.join(VERIF, "known_findings.json")
    if not os.path.exists(p):
        return {"findings": [], "fixed": []}
    return json.load(open(p))

"""Shared run of the source pipeline over generated programs and graphs of AST
blocks; cached per working tree.  Used by the checks of C07, C08 and C10."""
import ast
import fcntl
import json
import multiprocessing as mp
import os
import random
import subprocess

from . import common, gen_graphs, progs, srcpipe
from .par import VCHK, NPROC


def has_nested_boolop(src):
    for n in ast.walk(ast.parse(src)):
        if isinstance(n, ast.BoolOp) and any(isinstance(v, ast.BoolOp) for v in n.values):
            return True
    return False


def has_live_for_target(src):
    for n in ast.walk(ast.parse(src)):
        if isinstance(n, ast.For) and isinstance(n.target, ast.Name) and n.target.id in ("a", "b"):
            return True
    return False


def has_boolop_in_expr(src):
    """An and/or that the front end hoists out of a binary operation, comparison or call whose
    earlier operands Python evaluates first."""
    for n in ast.walk(ast.parse(src)):
        if isinstance(n, ast.AugAssign) and not isinstance(n.target, ast.Name) and \
                any(isinstance(x, ast.BoolOp) for x in ast.walk(n.value)):
            return True          # the target's sub-expressions are evaluated before the value in Python
        if isinstance(n, ast.BinOp):
            ops = [n.left, n.right]
        elif isinstance(n, ast.Compare):
            ops = [n.left] + list(n.comparators)
        elif isinstance(n, ast.Call):
            ops = list(n.args)
        else:
            continue
        for i, o in enumerate(ops):
            # earlier operands that are constants, names or themselves and/or (hoisted whole, in
            # order, and replaced by a name) leave nothing behind that Python would have evaluated first
            if i > 0 and any(isinstance(x, ast.BoolOp) for x in ast.walk(o)) and \
                    any(not isinstance(e, (ast.Constant, ast.Name, ast.BoolOp)) for e in ops[:i]):
                return True
    return False


def boolop_loop_with_jump(src):
    for n in ast.walk(ast.parse(src)):
        if isinstance(n, ast.While) and isinstance(n.test, ast.BoolOp):
            todo = list(n.body)
            while todo:
                m = todo.pop()
                if isinstance(m, (ast.Continue, ast.Break)):
                    return True
                if isinstance(m, (ast.While, ast.For)):
                    todo.extend(m.orelse)
                    continue
                for f in ("body", "orelse"):
                    todo.extend(getattr(m, f, []) or [])
    return False


def finding_class(src):
    if has_boolop_in_expr(src):
        return "K4-boolop-hoisted-before-earlier-operands"
    if has_nested_boolop(src):
        return "K2-nested-boolop-eager"
    if has_live_for_target(src):
        return "K3-for-target-initialised-to-None"
    return None


def _work(item):
    common.import_repo()
    kind, payload = item
    try:
        if kind == "graph":
            o = srcpipe.analyse_graph(payload)
        else:
            o = srcpipe.analyse(payload)
            o["stream"] = kind
    except BaseException as e:  # a failure of the harness itself: reported by every check that reads the run
        o = {"harness_error": "%s: %s" % (type(e).__name__, str(e)[:200]), "texts": [],
             ("graph" if kind == "graph" else "src"): payload, "front": "ok", "pipeline": None}
        if kind != "graph":
            o["stream"] = kind
    res = subprocess.run([VCHK], input="".join(o["texts"]), capture_output=True, text=True)
    o["vchk"] = res.stdout.splitlines()
    o.pop("texts", None)
    return o


def items_for(tier, seed):
    rng = random.Random(seed + 7)
    items = []
    for _ in range(220 if tier == "quick" else 4000):
        items.append(("clean", progs.ProgGen(rng, progs.CLEAN).func(3)))
    # clean programs with a rarely generated combination: a loop whose test is an and/or and whose
    # body jumps (continue / break) - the jump must land where the WHOLE test is evaluated again
    k = tries = 0
    want = 60 if tier == "quick" else 600
    while k < want and tries < 200 * want:
        tries += 1
        s = progs.ProgGen(rng, progs.CLEAN).func(3)
        if boolop_loop_with_jump(s) and finding_class(s) is None:
            items.append(("clean", s))
            k += 1
    n = 50 if tier == "quick" else 600
    k = 0
    while k < n:
        s = progs.ProgGen(rng, progs.CLEAN | {"nested-boolop"}).func(3)
        if has_nested_boolop(s):
            items.append(("K2", s))
            k += 1
    k = 0
    while k < n:
        s = progs.ProgGen(rng, progs.CLEAN | {"for-live"}).func(3)
        if has_live_for_target(s) and not has_nested_boolop(s):
            items.append(("K3", s))
            k += 1
    k = 0
    while k < n:
        s = progs.ProgGen(rng, progs.CLEAN | {"boolop-in-expr"}).func(3)
        if has_boolop_in_expr(s) and not has_nested_boolop(s):
            items.append(("K4", s))
            k += 1
    graphs = list(gen_graphs.exhaustive(3))
    g4 = list(gen_graphs.exhaustive(4))
    graphs += rng.sample(g4, 120 if tier == "quick" else len(g4))
    graphs += gen_graphs.shapes()
    graphs += [gen_graphs.random_closed(rng, rng.randrange(5, 16)) for _ in range(120 if tier == "quick" else 3000)]
    items += [("graph", g) for g in graphs]
    return items


def get(tier, seed):
    d = os.path.join(common.BUILD, "cache")
    os.makedirs(d, exist_ok=True)
    f = os.path.join(d, "src-%s-%s-%s-%d.json" % (common.repo_hash(), common.harness_hash(), tier, seed))
    lock = open(os.path.join(d, "srclock"), "w")
    fcntl.flock(lock, fcntl.LOCK_EX)
    try:
        stamp = os.path.getmtime(VCHK)
        if os.path.exists(f):
            data = json.load(open(f))
            if data.get("vchk_mtime") == stamp:
                return data["results"]
        items = items_for(tier, seed)
        ctx = mp.get_context("fork")
        with ctx.Pool(NPROC) as pool:
            results = pool.map(_work, items, chunksize=8)
        with open(f + ".tmp", "w") as fh:
            json.dump({"vchk_mtime": stamp, "results": results}, fh, default=str)
        os.replace(f + ".tmp", f)
        olds = sorted((x for x in os.listdir(d) if x.startswith("src-") and x.endswith(".json")),
                      key=lambda x: os.path.getmtime(os.path.join(d, x)))
        for old in olds[:-4]:
            if os.path.join(d, old) != f:
                os.remove(os.path.join(d, old))
        return json.load(open(f))["results"]
    finally:
        fcntl.flock(lock, fcntl.LOCK_UN)
        lock.close()

"""Correspondence of the pipeline model (coq/Model/Pipe.v) with the implementation:
the input graph, the name table and — after every stage — the complete state of
the implementation (every graph in dictionary order, kinds, tables, headers,
exiting blocks, nesting, generator counters) are exported as rows for
PipeRun.run_pipe, which runs the model on the same input and compares."""
import random

from . import gen_graphs, snap, stages, tr_universe

_FIXED = None


def fixed_universe():
    global _FIXED
    if _FIXED is None:
        _FIXED = tr_universe.universe()
    return _FIXED

KINDS = {  # generator kind string -> (category, code)   category 0 block, 1 region, 2 variable
    "synth_head": (0, 1), "synth_exit_latch": (0, 2), "synth_exit": (0, 3), "synth_asign": (0, 4),
    "synth_return": (0, 5), "synth_tail": (0, 6), "synth_fill": (0, 7),
    "loop": (1, 10), "head": (1, 11), "branch": (1, 12), "tail": (1, 13), "meta": (1, 14),
    "control": (2, 20), "exit": (2, 21), "backedge": (2, 22),
}
STATUS = {"KeyError": 1, "AssertionError": 2, "RuntimeError": 3, "StopIteration": 4}
CLS = {"SyntheticBlock": 1, "SyntheticExit": 2, "SyntheticReturn": 3, "SyntheticTail": 4, "SyntheticFill": 5,
       "SyntheticBranch": 10, "SyntheticHead": 11, "SyntheticExitingLatch": 12, "SyntheticExitBranch": 13}
RK = {"meta": 1, "loop": 2, "head": 3, "branch": 4, "tail": 5}
SLACK = 3


def render(cat, kind, idx):
    if cat == 0:
        return "%s_block_%d" % (kind, idx)
    if cat == 1:
        return "%s_region_%d" % (kind, idx)
    return "__scfg_%s_var_%d__" % (kind, idx)


def describe(b):
    """Immutable description of a block (regions are mutated in place by later stages)."""
    from numba_scfg.core.datastructures.basic_block import (
        RegionBlock, SyntheticAssignment, SyntheticBranch, SyntheticBlock)

    base = (b.name, tuple(b._jump_targets), tuple(b.backedges))
    if isinstance(b, RegionBlock):
        return base + (("region", b.kind, b.header, b.exiting),)
    if isinstance(b, SyntheticAssignment):
        return base + (("assign", tuple(b.variable_assignment.items())),)
    if isinstance(b, SyntheticBranch):
        return base + (("branch", type(b).__name__, b.variable, tuple(b.branch_value_table.items())),)
    if isinstance(b, SyntheticBlock):
        return base + (("plain", CLS.get(type(b).__name__, 9)),)
    return base + (("plain", 100),)


def dump(scfg):
    """[(region name, [(key, description)...])...], parents {region: containing region}, in traversal order."""
    from numba_scfg.core.datastructures.basic_block import RegionBlock

    out, parents = [], {}

    def rec(rname, g):
        items = list(g.graph.items())
        out.append((rname, [(k, describe(b)) for k, b in items]))
        for k, b in items:
            if isinstance(b, RegionBlock):
                parents[k] = rname
                rec(k, b.subregion)

    rec(scfg.region.name, scfg)
    return out, parents


def export_item(item):
    src, succ, pk = item
    sc = stages.make_scfg(succ, snap.block_factory(pk))
    top = sc.region.name
    inputs = list(sc.graph.items())
    gen0 = dict(sc.name_gen.kinds)
    states = []
    status = {}

    def on_stage(k, st, scfg):
        states.append((k, dump(scfg), dict(scfg.name_gen.kinds)))
        status[k] = 0

    exc = stages.run_stages(sc, on_stage)
    if exc:
        status[len(states)] = STATUS.get(exc["type"], 9)
    # the name universe.  Small graphs use the FIXED universe of coq/Gen/NameUniverse.v, i.e. exactly
    # the name table the bounded theorems of Model/PipeBounded.v are stated with; larger ones get the
    # names up to the last index used plus some slack.  Interning is order-preserving either way.
    final = dict(sc.name_gen.kinds)
    for kind in final:
        if kind not in KINDS:
            return None, {"model_mismatch": "unknown generator kind %r" % kind}
    fixed = False
    if len(succ) <= tr_universe.NINPUT and max(final.values()) + SLACK <= tr_universe.IDX:
        table, ids = fixed_universe()
        universe = set(ids)
        fixed = True
    else:
        universe = set(k for k, _ in inputs)
        table = []
        for kind, (cat, code) in KINDS.items():
            for idx in range(final.get(kind, 0) + SLACK):
                nm = render(cat, kind, idx)
                universe.add(nm)
                table.append((cat, code, idx, nm))
        ids = {n: i + 1 for i, n in enumerate(sorted(universe))}   # order-preserving interning
    seen = set(k for k, _ in inputs)
    for k, (graphs, parents), kinds in states:
        for rname, items in graphs:
            seen.add(rname)
            for key, d in items:
                seen.add(key)
                seen.update(d[1])
    if not seen <= universe:
        return None, {"model_mismatch": "names outside the generator's templates: %r" % sorted(seen - universe)[:5]}
    L = lambda xs: [len(xs)] + [ids[x] for x in xs]
    rows = [[130]]
    for cat, code, idx, nm in table:
        rows.append([131, cat, code, idx, ids[nm]])
    rows.append([132, ids[top]])
    for key, b in inputs:
        rows.append([133, ids[key], 100] + L(b._jump_targets))
    for kind, n in gen0.items():
        rows.append([136, -1, KINDS[kind][1], n])
    for k in sorted(status):
        rows.append([134, k, status[k]])
    for k, (graphs, parents), kinds in states:
        for rname, items in graphs:
            rows.append([138, k, ids[rname]])
            for key, d in items:
                name, jt, be, kd = d
                head = [135, k, ids[rname], ids[key]] + L(jt) + L(be)
                if key != name:
                    return None, {"harness_error": "key %r holds block %r" % (key, name)}
                if kd[0] == "region":
                    rows.append(head + [3, RK.get(kd[1], 9), ids.get(kd[2], 0), ids.get(kd[3], 0)])
                elif kd[0] == "assign":
                    a = []
                    for v, z in kd[1]:
                        a += [ids[v], z]
                    rows.append(head + [1, len(kd[1])] + a)
                elif kd[0] == "branch":
                    t = []
                    for z, tgt in kd[3]:
                        t += [z, ids[tgt]]
                    rows.append(head + [2, CLS.get(kd[1], 19), ids[kd[2]], len(kd[3])] + t)
                else:
                    rows.append(head + [0, kd[1]])
        for kind, n in kinds.items():
            rows.append([136, k, KINDS[kind][1], n])
        for r, p in parents.items():
            rows.append([137, k, ids[r], ids[p]])
    text = "#p\n" + "\n".join(" ".join(map(str, r)) for r in rows) + "\n0\n"
    return text, {"stages": len(states), "exc": exc, "n": len(succ), "fixed_universe": fixed}


def items_for(tier, seed):
    items = []
    for n in (1, 2, 3, 4):
        for s in gen_graphs.exhaustive(n):
            items.append(("exh%d" % n, s, "basic"))
    for s in gen_graphs.shapes():
        items.append(("shape", s, "basic"))
    rng = random.Random(seed + 23)
    for i in range(2500 if tier == "quick" else 60000):
        items.append(("small", gen_graphs.random_closed(rng, rng.randrange(5, 10)), "basic"))
    for i in range(800 if tier == "quick" else 20000):
        n = rng.randrange(10, 20) if i % 2 == 0 else rng.randrange(20, 41)
        items.append(("rnd", gen_graphs.random_closed(rng, n), "basic"))
    return items

"""Correspondence of the front-end model (coq/Model/Src.v) with AST2SCFGTransformer:
the control skeleton of a function (statement identities allotted here) goes to
the model, the unpruned blocks the implementation built go with it, and
SrcRun.run_src compares them block by block in creation order."""
import ast
import random
import re

from . import progs

GEN_PATTERNS = [
    (0, re.compile(r"^__scfg_iterator_(\d+)__ = iter\((.*)\)$", re.S)),          # h, iterator text
    (2, re.compile(r"^__scfg_iter_last_(\d+)__ = (.*)$", re.S)),                 # h, target text
    (3, re.compile(r"^(.*) = next\(__scfg_iterator_(\d+)__, '__scfg_sentinel__'\)$", re.S)),
    (5, re.compile(r"^(.*) = __scfg_iter_last_(\d+)__$", re.S)),
    (4, re.compile(r"^(.*) != '__scfg_sentinel__'$", re.S)),
    (1, re.compile(r"^(.*) = None$", re.S)),
]


def gen_id(slot, h, tgt, itr):
    return -(1 + slot + 10 * (h + 1000 * (tgt + 1000 * itr)))


class Unsupported(Exception):
    pass


class Mismatch(Exception):
    pass


def has_boolop(tree):
    return any(isinstance(n, ast.BoolOp) for n in ast.walk(tree))


def export(src):
    """(rows text, meta) for one function source; None text when the program is outside the skeleton."""
    from numba_scfg.core.datastructures.ast_transforms import AST2SCFGTransformer

    tree = ast.parse(src).body
    fdef = tree[0]
    if has_boolop(fdef):
        return None, {"skipped": "boolop"}
    try:
        t = AST2SCFGTransformer(tree, prune=False)
        cfg = t.transform_to_ASTCFG()
    except NotImplementedError:
        return None, {"skipped": "refused"}
    ids = {}
    texts = {}

    def nid(node):
        return ids.setdefault(id(node), len(ids) + 1)

    def tid(text):
        return texts.setdefault(text, len(texts) + 1)

    def toks_list(stmts):
        out = [len(stmts)]
        for s in stmts:
            out += toks(s)
        return out

    def toks(s):
        if isinstance(s, (ast.Assign, ast.AugAssign, ast.Expr)):
            return [1, nid(s)]
        if isinstance(s, ast.Pass):
            return [2, nid(s)]
        if isinstance(s, ast.Return):
            return [3, nid(s)]
        if isinstance(s, ast.Break):
            return [4, nid(s)]
        if isinstance(s, ast.Continue):
            return [5, nid(s)]
        if isinstance(s, ast.If):
            return [6, nid(s.test)] + toks_list(s.body) + toks_list(s.orelse)
        if isinstance(s, ast.While):
            return [7, nid(s.test)] + toks_list(s.body) + toks_list(s.orelse)
        if isinstance(s, ast.For):
            return [8, tid(ast.unparse(s.target)), tid(ast.unparse(s.iter))] + toks_list(s.body) + toks_list(s.orelse)
        raise Unsupported(type(s).__name__)

    # the body as the transformer left it (it appends a bare return when the last statement is none)
    try:
        program = toks_list(fdef.body)
    except Unsupported as e:
        return None, {"skipped": "statement " + str(e)}
    if max(texts.values(), default=0) >= 1000:
        return None, {"skipped": "too many texts"}
    rows = [[140], [141] + program]

    def encode(tag):
        out = []
        for name, b in cfg.items():
            r = [tag, int(name), len(b.instructions)]
            n = len(b.instructions)
            for pos, i in enumerate(b.instructions):
                key = id(i)
                if key not in ids and isinstance(i, ast.Expr) and id(i.value) in ids:
                    # a test that decides nothing any more, kept as an expression statement by prune_empty
                    r += [6, ids[id(i.value)]]
                    continue
                if key in ids:
                    if isinstance(i, ast.Pass):
                        kind = 2
                    elif isinstance(i, ast.Return):
                        kind = 3
                    elif isinstance(i, ast.Break):
                        kind = 4
                    elif isinstance(i, ast.Continue):
                        kind = 5
                    elif isinstance(i, ast.expr):
                        kind = 6                      # a bare expression: the test of an if / while
                    else:
                        kind = 1
                    r += [kind, ids[key]]
                    continue
                # not a node of the source: one of the statements generated for a for-loop
                text = ast.unparse(i)
                for slot, pat in GEN_PATTERNS:
                    m = pat.match(text)
                    if m:
                        break
                else:
                    raise Mismatch("unrecognised instruction %r in block %s" % (text, name))
                if slot == 0:
                    code = gen_id(0, int(m.group(1)), 0, tid(m.group(2)))
                elif slot == 2:
                    code = gen_id(2, int(m.group(1)), tid(m.group(2)), 0)
                elif slot in (3, 5):
                    code = gen_id(slot, int(m.group(2)), tid(m.group(1)), 0)
                else:
                    code = gen_id(slot, 0, tid(m.group(1)), 0)
                if slot == 4:
                    if not isinstance(i, ast.Expr):
                        raise Mismatch("sentinel test is not an expression statement in block %s" % name)
                    r += [6, code]
                else:
                    if not isinstance(i, ast.Assign):
                        raise Mismatch("generated statement is not an assignment: %r" % text)
                    r += [1, code]
            r += [len(b.jump_targets)] + [int(x) for x in b.jump_targets]
            out.append(r)
        return out

    try:
        rows += encode(142)
        status = 0
        try:
            cfg.prune_unreachable()
            cfg.prune_noops()
            cfg.prune_empty()
        except IndexError:
            status = 1
        if status == 0:
            rows += encode(143)
            rows.append([144, 0, int(next(iter(cfg)))])
        else:
            rows.append([144, 1, 0])
    except Mismatch as e:
        return None, {"model_mismatch": str(e)}
    text = "#s\n" + "\n".join(" ".join(map(str, r)) for r in rows) + "\n0\n"
    return text, {"blocks": len(cfg), "fors": sum(isinstance(n, ast.For) for n in ast.walk(fdef))}


NOBOOL = {"not", "attr", "for", "for-live", "while-else", "for-else", "aug", "dead-after-jump"}


def export_item(item):
    return export(item)


def items_for(tier, seed):
    rng = random.Random(seed + 41)
    n = 3000 if tier == "quick" else 60000
    out = []
    for i in range(n):
        g = progs.ProgGen(rng, NOBOOL)
        out.append(g.func(depth=rng.choice([2, 3, 3, 4])))
    return out

"""Correspondence of the code-generator model (coq/Model/Back.v) with
SCFG2ASTTransformer: the restructured hierarchy (exported as for the validators),
the statement identities of its original blocks and the tree the implementation
generated go to BackRun.run_back, which generates the tree with the model,
compares node for node and takes the census of the tree inside Coq."""
import ast
import random
import re

from . import export, gen_graphs, progs, srcpipe

STATUS = {"NotImplementedError": 1, "KeyError": 2, "AssertionError": 3, "IndexError": 4, "AttributeError": 5}
LOOP_CONT = re.compile(r"^__scfg_loop_cont_(\d+)__$")
RETVAL = "__scfg_return_value__"


class Mismatch(Exception):
    pass


def export_scfg(scfg, fdef, label):
    from numba_scfg.core.datastructures.basic_block import PythonASTBlock, RegionBlock
    from numba_scfg.core.datastructures.ast_transforms import SCFG2ASTTransformer

    orig = export.original_of(scfg)
    try:
        scfg.restructure()
    except Exception as e:  # not the code generator's business (C02)
        return None, {"skipped": "restructure raised " + type(e).__name__}
    rows, tabs = export.export(orig, scfg)
    names, vars_ = tabs["names"], tabs["vars"]
    ids = {}
    info_rows = []

    def rec(g):
        for name, b in g.graph.items():
            if isinstance(b, RegionBlock):
                rec(b.subregion)
            elif type(b) is PythonASTBlock:
                these = []
                for i in b.tree:
                    k = len(ids) + 1
                    ids[id(i)] = k
                    if isinstance(i, ast.Expr):
                        ids.setdefault(id(i.value), k)
                    if isinstance(i, ast.Return) and i.value is not None:
                        ids.setdefault(id(i.value), k)
                    these.append(k)
                lastret = 1 if b.tree and type(b.tree[-1]) is ast.Return else 0
                info_rows.append([150, names[name], lastret, len(these)] + these)

    rec(scfg)
    try:
        tree = SCFG2ASTTransformer().transform(original=fdef, scfg=scfg)
        status = 0
    except Exception as e:
        tree = None
        status = STATUS.get(type(e).__name__, 9)

    def var_id(name):
        if name not in vars_:
            raise Mismatch("variable %r is not a control variable of the hierarchy" % name)
        return vars_[name]

    def toks_list(stmts):
        out = [len(stmts)]
        for s in stmts:
            out += toks(s)
        return out

    def toks(s):
        if id(s) in ids and isinstance(s, ast.stmt):
            return [1, ids[id(s)]]
        if isinstance(s, ast.Assign) and len(s.targets) == 1 and isinstance(s.targets[0], ast.Name):
            tgt = s.targets[0].id
            if tgt == RETVAL:
                if id(s.value) in ids:
                    return [2, ids[id(s.value)]]
                if isinstance(s.value, ast.Constant) and s.value.value is None:
                    return [2, -1]
                raise Mismatch("return value of unknown origin")
            m = LOOP_CONT.match(tgt)
            if m:
                if isinstance(s.value, ast.Constant) and s.value.value is True:
                    return [6, int(m.group(1))]
                if (isinstance(s.value, ast.UnaryOp) and isinstance(s.value.op, ast.Not)
                        and isinstance(s.value.operand, ast.Name)):
                    return [7, int(m.group(1)), var_id(s.value.operand.id)]
                raise Mismatch("unrecognised loop-continue assignment")
            if isinstance(s.value, ast.Constant) and type(s.value.value) is int:
                return [3, var_id(tgt), s.value.value]
            raise Mismatch("unrecognised assignment to %s" % tgt)
        if isinstance(s, ast.Pass):
            return [4]
        if isinstance(s, ast.Return) and isinstance(s.value, ast.Name) and s.value.id == RETVAL:
            return [5]
        if isinstance(s, ast.If):
            t = s.test
            if id(t) in ids:
                return [8, ids[id(t)]] + toks_list(s.body) + toks_list(s.orelse)
            if (isinstance(t, ast.Compare) and isinstance(t.left, ast.Name) and len(t.ops) == 1
                    and isinstance(t.ops[0], ast.In) and len(t.comparators) == 1
                    and isinstance(t.comparators[0], ast.Tuple)
                    and all(isinstance(e, ast.Constant) and type(e.value) is int for e in t.comparators[0].elts)):
                vals = [e.value for e in t.comparators[0].elts]
                return [9, var_id(t.left.id), len(vals)] + vals + toks_list(s.body) + toks_list(s.orelse)
            raise Mismatch("unrecognised if-condition")
        if isinstance(s, ast.While):
            m = isinstance(s.test, ast.Name) and LOOP_CONT.match(s.test.id)
            if m and not s.orelse:
                return [10, int(m.group(1))] + toks_list(s.body)
            raise Mismatch("unrecognised while")
        raise Mismatch("unrecognised statement %s" % type(s).__name__)

    out = [[160]] + rows + info_rows + [[152, status]]
    if tree is not None:
        try:
            out.append([153] + toks_list(tree.body))
        except Mismatch as e:
            return None, {"model_mismatch": str(e)}
    text = "#b\n" + "\n".join(" ".join(map(str, r)) for r in out) + "\n0\n"
    return text, {"status": status, "label": label, "blocks": len(info_rows)}


def export_item(item):
    kind, payload = item
    if kind == "graph":
        scfg, _ = srcpipe.graph_program(payload)
        fdef = ast.parse("def f(a, b):\n    pass\n").body[0]
        return export_scfg(scfg, fdef, "graph")
    from numba_scfg import AST2SCFG

    try:
        scfg = AST2SCFG(payload)
    except NotImplementedError:
        return None, {"skipped": "front end refused"}
    except Exception as e:
        return None, {"skipped": "front end raised " + type(e).__name__}
    return export_scfg(scfg, ast.parse(payload).body[0], "source")


def items_for(tier, seed):
    rng = random.Random(seed + 59)
    items = []
    for n in (1, 2, 3):
        for s in gen_graphs.exhaustive(n):
            items.append(("graph", s))
    for s in gen_graphs.shapes():
        items.append(("graph", s))
    for i in range(1500 if tier == "quick" else 40000):
        items.append(("graph", gen_graphs.random_closed(rng, rng.randrange(4, 14))))
    for i in range(600 if tier == "quick" else 15000):
        items.append(("source", progs.ProgGen(rng, progs.ALL).func(rng.choice([2, 3, 3, 4]))))
    return items

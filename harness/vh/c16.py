"""C16: iterators — implementation vs the BFS model, on every graph of every stage."""
import random

from . import common, export, gen_graphs, par, snap, stages


def export_item(item):
    from numba_scfg.core.datastructures.basic_block import RegionBlock

    src, succ, pk = item
    sc = stages.make_scfg(succ, snap.block_factory(pk))
    orig = export.original_of(sc)
    texts = []
    meta = {"stages": 0, "errors": []}

    def on_stage(k, st, scfg):
        rows, tabs = export.export(orig, scfg)
        ids = tabs["names"]
        q = []
        graphs = [(scfg.region.name, scfg)]
        for name, b, g, rname in export.walk_nodes(scfg):
            if isinstance(b, RegionBlock):
                graphs.append((name, b.subregion))
        for rname, g in graphs:
            try:
                v = g.concealed_region_view
                l = list(v)
                q.append([60, ids[rname], len(l)] + [ids[x] for x in l])
                # a view is a mapping: every way of enumerating it, and enumerating it again, must
                # give what the first pass gave (compared with the model above)
                again = {"second pass": list(v), "keys()": list(v.keys()), "items()": [k_ for k_, _ in v.items()],
                         "values()": [b_.name for b_ in v.values()], "third pass": list(v)}
                if len(v) != len(l):
                    again["len()"] = None
                for what, l2 in again.items():
                    if l2 != l:
                        meta["errors"].append({"stage": k, "graph_of": rname, "what": "concealed_region_view",
                                               "error": "%s gives %r, the first pass gave %r" % (what, l2, l)})
                        break
                if any(x not in v for x in l) or any(v[x].name != x for x in l):
                    meta["errors"].append({"stage": k, "graph_of": rname, "what": "concealed_region_view",
                                           "error": "membership / lookup disagrees with iteration"})
            except Exception as e:
                meta["errors"].append({"stage": k, "graph_of": rname, "what": "concealed_region_view",
                                       "error": repr(e)[:200]})
        try:
            l = [name for name, _ in scfg]
            q.append([61, len(l)] + [ids[x] for x in l])
            if [name for name, _ in scfg] != l:
                meta["errors"].append({"stage": k, "what": "__iter__", "error": "a second pass gives something else"})
        except Exception as e:
            meta["errors"].append({"stage": k, "what": "__iter__", "error": repr(e)[:200]})
        texts.append("#%d\n" % k + "\n".join(" ".join(map(str, r)) for r in [[116]] + rows + q) + "\n0\n")
        meta["stages"] += 1

    if src == "wide":
        # a graph as it is (blocks with up to four successors, heavy fan-in): no stage is run
        on_stage(0, "input", sc)
        exc = None
    else:
        exc = stages.run_stages(sc, on_stage)
    meta["exc"] = exc
    return "".join(texts) if texts else None, meta


def items_for(tier, seed):
    items = []
    for n in (1, 2, 3, 4):
        for s in gen_graphs.exhaustive(n):
            items.append(("exh%d" % n, s, "basic"))
    for s in gen_graphs.shapes():
        items.append(("shape", s, "basic"))
    rng = random.Random(seed + 5)
    for i in range(600 if tier == "quick" else 20000):
        n = rng.randrange(5, 13) if i % 2 == 0 else rng.randrange(13, 36)
        items.append(("rnd", gen_graphs.random_closed(rng, n), "basic"))
    # "all graphs": blocks with three and four successors and many arcs into one block, every block reachable
    # from the one block without predecessors; iterated as they are
    for i in range(400 if tier == "quick" else 8000):
        items.append(("wide", wide_graph(rng, rng.randrange(4, 10)), "basic"))
    return items


def wide_graph(rng, n):
    perm = list(range(n))
    rng.shuffle(perm)
    succ = [[] for _ in range(n)]
    for i in range(1, n):
        succ[rng.choice(perm[:i])].append(perm[i])
    for b in range(n):
        want = rng.choice([0, 1, 2, 3, 3, 4, 4])
        cands = [t for t in perm[1:] if t not in succ[b]]
        rng.shuffle(cands)
        while len(succ[b]) < want and cands:
            succ[b].append(cands.pop())
        rng.shuffle(succ[b])
    return tuple(tuple(s) for s in succ)

"""./bin/check <ID> --replay <file>: re-execute a recorded violation against the
current /repo.  Exit 1 if it still fails, 0 if it no longer does."""
import json

from . import common


def run(pid, path):
    data = json.load(open(path))
    v = data.get("violation")
    if not v:
        print("replay: no concrete input recorded; broken obligation was:", data.get("broken"))
        print(json.dumps(data.get("problems"), indent=1))
        return 1
    common.import_repo()
    if pid in ("C01", "C03", "C04", "C05", "C06") and "graph" in v:
        from . import snap, vprops, stages

        f = {"graph": v["graph"], "payload": v.get("payload", "basic"),
             "stage": stages.STAGES.index(v["stage"]), "cols": [1, 0, 0, 0, 0, 0, 0, 0]}
        w = vprops.search(pid, f)
        print("replay %s on %s after %s: %s" % (pid, v["graph"], v["stage"],
                                                 json.dumps(w, default=str) if w else "no failure"))
        return 1 if w else 0
    try:
        from . import checks_more

        if pid in checks_more.REPLAY:
            return checks_more.REPLAY[pid](v)
    except ImportError:
        pass
    print("replay: nothing to re-execute for", pid)
    return 1

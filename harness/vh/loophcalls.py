"""Every call of transformations.loop_restructure_helper made while the pipeline restructures a graph (any
level of the hierarchy; exits and entries that are regions; several headers): the whole hierarchy before and
after the call, compared with the model Model/LoopHier.v (LoopHier.run_looph), children in dictionary order.
What the function takes from elsewhere is given to the model: headers / entries / exiting blocks / exits
(find_headers_and_entries, find_exiting_and_exits on the level's graph), the dominator sets (_doms, as
computed inside the call) and the names the generator hands out, in order."""
import copy
import random

from . import common, export, gen_graphs, par, stages


def export_item(item):
    from numba_scfg.core import transformations as T
    from .checks_more import Recorder

    src, succ = item
    sc = stages.make_scfg(succ)
    orig = export.original_of(sc)
    calls = []
    orig_fn = T.loop_restructure_helper
    orig_doms = T._doms
    rec_box = []
    doms_box = []

    def doms_spy(scfg):
        d = orig_doms(scfg)
        doms_box.append({k: sorted(v) for k, v in d.items()})
        return d

    def spy(scfg, loop):
        before = copy.deepcopy(sc)
        loop0 = sorted(loop)
        try:
            headers, entries = scfg.find_headers_and_entries(set(loop))
            exiting, exits = scfg.find_exiting_and_exits(set(loop))
        except Exception:
            headers = entries = exiting = exits = None
        n0 = len(rec_box[0].events)
        d0 = len(doms_box)
        status = 0
        try:
            orig_fn(scfg, loop)
        except KeyError:
            status = 1
        except (AssertionError, StopIteration):
            status = 2
        finally:
            evs = rec_box[0].events[n0:]
            calls.append((before, scfg.region.name, loop0, headers, entries, exiting, exits,
                          doms_box[d0:][-1] if len(doms_box) > d0 else {},
                          [e[3] for e in evs if e[0] == "request" and e[1] == "block"],
                          [e[3] for e in evs if e[0] == "request" and e[1] == "var"],
                          status, copy.deepcopy(sc) if status == 0 else None))
        if status == 1:
            raise KeyError("loop_restructure_helper")
        if status == 2:
            raise AssertionError("loop_restructure_helper")

    exc = None
    with Recorder() as rec:
        rec_box.append(rec)
        T.loop_restructure_helper = spy
        T._doms = doms_spy
        try:
            sc.join_returns()
            sc.restructure_loop()
            sc.restructure_branch()
        except Exception as e:
            exc = repr(e)[:100]
        finally:
            T.loop_restructure_helper = orig_fn
            T._doms = orig_doms
    texts = []
    skipped = 0
    shapes = []
    for before, lvl, loop, headers, entries, exiting, exits, doms, bnames, vnames, status, after in calls:
        if headers is None:
            skipped += 1
            continue
        extra = set(loop) | set(headers) | set(entries) | set(exiting) | set(exits) | {lvl} | set(bnames)
        for k, v in doms.items():
            extra.add(k)
            extra.update(v)
        if after is not None:
            _, tabs_a = export.export(orig, after)
            extra |= set(tabs_a["names"])
            vars_a, pls_a = set(tabs_a["vars"]) | set(vnames), set(tabs_a["payloads"])
        else:
            vars_a, pls_a = set(vnames), set()
        rows_b, tabs = export.export(orig, before, extra_names=extra, extra_vars=vars_a, extra_payloads=pls_a)
        ids, vids = tabs["names"], tabs["vars"]
        if after is not None:
            rows_a, tabs2 = export.export(orig, after, extra_names=set(ids), extra_vars=set(vids),
                                          extra_payloads=set(tabs["payloads"]))
            if tabs2["names"] != ids or tabs2["vars"] != vids or tabs2["payloads"] != tabs["payloads"]:
                skipped += 1
                continue
        else:
            rows_a = []
        L = lambda xs: [len(xs)] + [ids[x] for x in xs]  # noqa: E731
        rows = [[123]] + rows_b
        rows.append([49, ids[lvl]] + L(loop) + L(headers) + L(entries) + L(exiting) + L(exits) + L(bnames)
                    + [len(vnames)] + [vids[v] for v in vnames])
        for k, v in doms.items():
            rows.append([45, ids[k]] + L(v))
        rows.append([50, status])
        rows += [[47] + r for r in rows_a if r[0] != 1]
        texts.append("#lh\n" + "\n".join(" ".join(map(str, r)) for r in rows) + "\n0\n")
        shapes.append(_shape(before, lvl, headers, entries, exits, bnames))
    return ("".join(texts) if texts else None), {"calls": len(calls), "skipped": skipped, "exc": exc, "shapes": shapes}


def _shape(before, lvl, headers, entries, exits, bnames):
    from numba_scfg.core.datastructures.basic_block import RegionBlock

    def find(g):
        if g.region.name == lvl:
            return g
        for b in g.graph.values():
            if isinstance(b, RegionBlock):
                r = find(b.subregion)
                if r is not None:
                    return r
        return None

    g = find(before)
    tags = ["nested" if before.region.name != lvl else "top"]
    tags.append("unified" if len(headers) > 1 else ("early" if not bnames else "rotate"))
    if g is not None:
        if any(isinstance(g.graph.get(x), RegionBlock) for x in exits):
            tags.append("region-exit")
        if any(isinstance(g.graph.get(x), RegionBlock) for x in entries):
            tags.append("region-entry")
    return "/".join(tags)


def items_for(tier, seed):
    rng = random.Random(seed + 123)
    items = []
    for s in gen_graphs.shapes():
        items.append(("shape", s))
    for i in range(700 if tier == "quick" else 12000):
        n = rng.randrange(4, 10) if i % 2 == 0 else rng.randrange(10, 18)
        items.append(("rnd", gen_graphs.random_closed(rng, n)))
    return items


def tie(tier, seed):
    common.import_repo()
    items = items_for(tier, seed)
    out, errors = par.run(items, export_item)
    agree = total = skipped = 0
    rot_yes = rot_no = rot_other = early_yes = uni_yes = uni_early_yes = uni_region_entry = 0
    uni_unmet = []
    wf_yes = wf_no = 0
    wf_unmet = []
    cons_yes = cons_no = 0
    cons_unmet = []
    rot_unmet = []
    mism = []
    shapes = {}
    for item, meta, res in out:
        if meta and "harness_error" in meta:
            errors = list(errors) + [meta]
            continue
        skipped += (meta or {}).get("skipped", 0)
        for k in (meta or {}).get("shapes", []):
            shapes[k] = shapes.get(k, 0) + 1
        if res is None:
            continue
        rs = res if (res and isinstance(res[0], list)) else [res]
        for x in rs:
            total += 1
            if len(x) >= 4:
                # fourth column: a plain rotation (one header, no early return) that meets the hypotheses of the
                # universal path theorem (LoopHierApplic.walk_pre_rot) and is the rotation the theorem speaks about
                if x[3] == 1:
                    rot_yes += 1
                elif x[3] == 2:
                    rot_other += 1
                    if len(uni_unmet) < 4:
                        uni_unmet.append({"graph": item[1]})
                elif x[3] == 4:
                    uni_yes += 1
                elif x[3] == 5:
                    uni_early_yes += 1
                elif x[3] == 6:
                    uni_region_entry += 1
                elif x[3] == 3:
                    early_yes += 1
                else:
                    rot_no += 1
                    if len(rot_unmet) < 4:
                        rot_unmet.append({"graph": item[1]})
            if len(x) >= 5:
                # fifth column: the call is an edit of one level that meets the conditions of the universal
                # consistency theorem (LevelWf.level_edit_keeps_wf_b) and the hierarchy it speaks about is the one
                # the implementation produced
                if x[4] == 1:
                    wf_yes += 1
                elif x[3] != 6:
                    wf_no += 1
                    if len(wf_unmet) < 4:
                        wf_unmet.append({"graph": item[1]})
            if len(x) >= 6:
                # sixth column: the conditions of the universal conservation theorem for edits of one level
                # (LevelCons.level_edit_conserves_b) hold and the hierarchy it speaks about is the one produced
                if x[5] == 1:
                    cons_yes += 1
                elif x[4] == 1:
                    cons_no += 1
                    if len(cons_unmet) < 4:
                        cons_unmet.append({"graph": item[1]})
            if x[:3] == [1, 1, 1]:
                agree += 1
            elif len(mism) < 4:
                mism.append({"graph": item[1], "columns": x})
    return {"calls_compared": total, "agree": agree, "mismatch_count": total - agree, "mismatches": mism,
            "plain_rotations_meeting_path_theorem_hypotheses": rot_yes, "plain_rotations_or_early_returns_not_meeting_them": rot_no,
            "plain_rotation_unmet_examples": rot_unmet, "early_returns_meeting_path_theorem_hypotheses": early_yes,
            "unified_rotations_meeting_path_theorem_hypotheses": uni_yes,
            "unified_early_returns_meeting_path_theorem_hypotheses": uni_early_yes,
            "calls_with_several_headers_and_a_region_entry_outside_the_theorem": uni_region_entry,
            "calls_with_several_headers_not_meeting_them": rot_other, "several_headers_unmet_examples": uni_unmet,
            "calls_meeting_consistency_theorem_conditions": wf_yes,
            "calls_not_meeting_consistency_theorem_conditions": wf_no, "consistency_unmet_examples": wf_unmet,
            "calls_meeting_conservation_theorem_conditions": cons_yes,
            "level_edits_not_meeting_conservation_theorem_conditions": cons_no, "conservation_unmet_examples": cons_unmet,
            "calls_by_shape": shapes, "skipped": skipped, "harness_errors": [repr(e)[:200] for e in errors][:3]}

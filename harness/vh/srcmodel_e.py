"""Correspondence of the front-end model WITH expressions (coq/Model/SrcE.v): the
skeleton is taken from a pristine parse of the source (statements by frame text,
expressions as trees down to the leaves the transformer does not look into), the
transformer runs on a second parse, and its unpruned blocks are serialised in the
token format SrcERun.ser_blk produces."""
import ast
import copy
import random
import re

from . import progs

TMP = re.compile(r"^__scfg_bool_op_(\d+)__$")
ITER = re.compile(r"^__scfg_iterator_(\d+)__$")
LAST = re.compile(r"^__scfg_iter_last_(\d+)__$")
HOLE = "__HOLE__"


class Mismatch(Exception):
    pass


class Interner(dict):
    def __call__(self, text):
        return self.setdefault(text, len(self) + 1)


def handled_children(n):
    if isinstance(n, ast.BoolOp):
        return list(n.values)
    if isinstance(n, ast.Compare):
        return [n.left] + list(n.comparators)
    if isinstance(n, ast.BinOp):
        return [n.left, n.right]
    if isinstance(n, ast.Call):
        return list(n.args)
    return []


def reaches(n, pred):
    """Is there a node satisfying pred at n or below it through handled positions?"""
    if pred(n):
        return True
    return any(reaches(c, pred) for c in handled_children(n))


def op_frame(n):
    if isinstance(n, ast.Compare):
        return "cmp:" + ",".join(type(o).__name__ for o in n.ops)
    if isinstance(n, ast.BinOp):
        return "bin:" + type(n.op).__name__
    if isinstance(n, ast.Call):
        return "call:%s:%d:%s" % (ast.unparse(n.func), len(n.args), ",".join(ast.unparse(k) for k in n.keywords))
    raise Mismatch("no frame for " + type(n).__name__)


def stmt_frame(s):
    if isinstance(s, ast.Assign):
        return "assign:" + " = ".join(ast.unparse(t) for t in s.targets)
    if isinstance(s, ast.AugAssign):
        return "aug:%s %s" % (ast.unparse(s.target), type(s.op).__name__)
    if isinstance(s, ast.Expr):
        return "expr"
    if isinstance(s, ast.Return):
        return "return"
    raise Mismatch("no frame for statement " + type(s).__name__)


def skeleton_expr(n, T):
    is_bool = lambda x: isinstance(x, ast.BoolOp)  # noqa: E731
    if isinstance(n, ast.BoolOp):
        out = [2, 1 if isinstance(n.op, ast.Or) else 0, len(n.values)]
        for v in n.values:
            out += skeleton_expr(v, T)
        return out
    if isinstance(n, (ast.Compare, ast.BinOp, ast.Call)) and reaches(n, is_bool):
        ch = handled_children(n)
        out = [3, T("op:" + op_frame(n)), len(ch)]
        for c in ch:
            out += skeleton_expr(c, T)
        return out
    return [1, T("atom:" + ast.unparse(n))]


def residual(n, T):
    is_tmp = lambda x: isinstance(x, ast.Name) and TMP.match(x.id)  # noqa: E731
    if isinstance(n, ast.Name):
        m = TMP.match(n.id)
        if m:
            return [2, int(m.group(1))]
    if isinstance(n, ast.BoolOp):
        raise Mismatch("and/or left in a statement")
    if isinstance(n, (ast.Compare, ast.BinOp, ast.Call)) and reaches(n, is_tmp):
        ch = handled_children(n)
        out = [3, T("op:" + op_frame(n)), len(ch)]
        for c in ch:
            out += residual(c, T)
        return out
    return [1, T("atom:" + ast.unparse(n))]


def export(src):
    from numba_scfg.core.datastructures.ast_transforms import AST2SCFGTransformer

    T = Interner()
    pristine = ast.parse(src).body[0]
    tree = ast.parse(src).body

    def toks_list(stmts):
        out = [len(stmts)]
        for s in stmts:
            out += toks(s)
        return out

    def toks(s):
        if isinstance(s, ast.AugAssign) and not isinstance(s.target, ast.Name):
            # Python evaluates the sub-expressions of the target before the value: the target is an operand
            return [1, T("stmt:augx:" + type(s.op).__name__), 3, T("op:augtarget"), 2,
                    1, T("atom:" + ast.unparse(s.target))] + skeleton_expr(s.value, T)
        if isinstance(s, (ast.Assign, ast.AugAssign, ast.Expr)):
            return [1, T("stmt:" + stmt_frame(s))] + skeleton_expr(s.value, T)
        if isinstance(s, ast.Pass):
            return [2, 0]
        if isinstance(s, ast.Return):
            if s.value is None:
                return [3, T("stmt:return"), 0]
            return [3, T("stmt:return"), 1] + skeleton_expr(s.value, T)
        if isinstance(s, ast.Break):
            return [4, 0]
        if isinstance(s, ast.Continue):
            return [5, 0]
        if isinstance(s, ast.If):
            return [6] + skeleton_expr(s.test, T) + toks_list(s.body) + toks_list(s.orelse)
        if isinstance(s, ast.While):
            return [7] + skeleton_expr(s.test, T) + toks_list(s.body) + toks_list(s.orelse)
        if isinstance(s, ast.For):
            return ([8, T("target:" + ast.unparse(s.target))] + skeleton_expr(s.iter, T)
                    + toks_list(s.body) + toks_list(s.orelse))
        raise Mismatch("statement " + type(s).__name__)

    # the transformer appends a bare return when the body does not end in one: the skeleton does the same
    body = list(pristine.body)
    if not isinstance(body[-1], ast.Return):
        body = body + [ast.Return()]
    try:
        program = toks_list(body)
    except Mismatch as e:
        return None, {"skipped": str(e)}
    try:
        t = AST2SCFGTransformer(tree, prune=False)
        cfg = t.transform_to_ASTCFG()
    except NotImplementedError:
        return None, {"skipped": "refused"}
    known = set()
    for n in ast.walk(tree[0]):
        if isinstance(n, ast.stmt):
            known.add(id(n))

    def instr(i, is_last_test):
        if isinstance(i, ast.expr):
            return [6] + residual(i, T)
        if isinstance(i, ast.Expr) and id(i) not in known and not (
                isinstance(i.value, ast.Compare) and len(i.value.ops) == 1 and isinstance(i.value.ops[0], ast.NotEq)
                and isinstance(i.value.comparators[0], ast.Constant)
                and i.value.comparators[0].value == "__scfg_sentinel__"):
            # a test that decides nothing any more, kept as an expression statement by prune_empty
            return [6] + residual(i.value, T)
        if id(i) in known:
            if isinstance(i, ast.Pass):
                return [2, 0]
            if isinstance(i, ast.Break):
                return [4, 0]
            if isinstance(i, ast.Continue):
                return [5, 0]
            if isinstance(i, ast.Return):
                if i.value is None:
                    return [3, T("stmt:return"), 0]
                return [3, T("stmt:return"), 1] + residual(i.value, T)
            if isinstance(i, ast.AugAssign) and not isinstance(i.target, ast.Name):
                return [1, T("stmt:augx:" + type(i.op).__name__), 3, T("op:augtarget"), 2,
                        1, T("atom:" + ast.unparse(i.target))] + residual(i.value, T)
            return [1, T("stmt:" + stmt_frame(i))] + residual(i.value, T)
        # generated by the transformer
        if isinstance(i, ast.Return) and i.value is None:
            return [3, T("stmt:return"), 0]          # the implicit return appended to the body
        if isinstance(i, ast.Assign) and len(i.targets) == 1:
            tgt = ast.unparse(i.targets[0])
            m = TMP.match(tgt)
            if m:
                return [7, int(m.group(1))] + residual(i.value, T)
            m = ITER.match(tgt)
            if m:
                v = i.value
                if not (isinstance(v, ast.Call) and isinstance(v.func, ast.Name) and v.func.id == "iter"
                        and len(v.args) == 1 and not v.keywords):
                    raise Mismatch("iterator set-up is not iter(<iterable>)")
                return [8, int(m.group(1))] + residual(v.args[0], T)
            m = LAST.match(tgt)
            if m:
                return [10, int(m.group(1)), T("target:" + ast.unparse(i.value))]
            v = i.value
            if isinstance(v, ast.Constant) and v.value is None:
                return [9, T("target:" + tgt)]
            if (isinstance(v, ast.Call) and isinstance(v.func, ast.Name) and v.func.id == "next" and len(v.args) == 2
                    and isinstance(v.args[0], ast.Name) and ITER.match(v.args[0].id)
                    and isinstance(v.args[1], ast.Constant) and v.args[1].value == "__scfg_sentinel__"):
                return [11, int(ITER.match(v.args[0].id).group(1)), T("target:" + tgt)]
            if isinstance(v, ast.Name) and LAST.match(v.id):
                return [13, int(LAST.match(v.id).group(1)), T("target:" + tgt)]
        if (isinstance(i, ast.Expr) and isinstance(i.value, ast.Compare) and len(i.value.ops) == 1
                and isinstance(i.value.ops[0], ast.NotEq) and isinstance(i.value.comparators[0], ast.Constant)
                and i.value.comparators[0].value == "__scfg_sentinel__"):
            return [12, T("target:" + ast.unparse(i.value.left))]
        raise Mismatch("unrecognised generated instruction %r" % ast.unparse(i))

    rows = [[170], [171] + program]

    def encode(tag):
        out = []
        for name, b in cfg.items():
            r = [tag, int(name), len(b.jump_targets)] + [int(x) for x in b.jump_targets]
            for pos, i in enumerate(b.instructions):
                r += instr(i, pos == len(b.instructions) - 1 and len(b.jump_targets) == 2)
            out.append(r)
        return out

    try:
        rows += encode(172)
        status = 0
        try:
            cfg.prune_unreachable()
            cfg.prune_noops()
            cfg.prune_empty()
        except IndexError:
            status = 1
        if status == 0:
            rows += encode(173)
            rows.append([174, 0, int(next(iter(cfg)))])
        else:
            rows.append([174, 1, 0])
    except Mismatch as e:
        return None, {"model_mismatch": str(e)}
    text = "#e\n" + "\n".join(" ".join(map(str, r)) for r in rows) + "\n0\n"
    return text, {"blocks": len(cfg), "boolops": sum(isinstance(n, ast.BoolOp) for n in ast.walk(pristine))}


def export_item(item):
    return export(item)


def items_for(tier, seed):
    rng = random.Random(seed + 43)
    n = 2500 if tier == "quick" else 50000
    out = []
    for i in range(n):
        out.append(progs.ProgGen(rng, progs.ALL).func(depth=rng.choice([2, 3, 3, 4])))
    return out

"""Run under several PYTHONHASHSEED values (one process each): prints one digest
per input of the canonical, order-sensitive dump of what the library produced.
usage: python -m vh.c12_seeds <tier> <seed>"""
import ast
import hashlib
import json
import random
import sys

from . import common, export, gen_graphs, par, pipe, progs, stages


def digest(obj):
    return hashlib.sha256(json.dumps(obj, default=str).encode()).hexdigest()[:16]


def main():
    tier, seed = sys.argv[1], int(sys.argv[2])
    common.import_repo()
    from numba_scfg import AST2SCFG, SCFG2AST
    from numba_scfg.core.datastructures.ast_transforms import AST2SCFGTransformer
    from numba_scfg.core.datastructures.byte_flow import ByteFlow

    rng = random.Random(seed)
    out = []
    graphs = list(gen_graphs.exhaustive(3)) + gen_graphs.shapes()
    g4 = list(gen_graphs.exhaustive(4))
    graphs += rng.sample(g4, 250 if tier == "quick" else 2000)
    graphs += [gen_graphs.random_closed(rng, rng.randrange(5, 31)) for _ in range(250 if tier == "quick" else 3000)]
    for succ in graphs:
        sc = stages.make_scfg(succ)
        try:
            sc.restructure()
            d = export.dump(sc) + [repr(list(sc.name_gen.kinds.items()))]
        except Exception as e:
            d = ["EXC " + type(e).__name__]
        out.append(("graph", repr(succ), digest(d)))
    # the same graphs against the pipeline MODEL (a pure function of the input): under this hash
    # seed too the implementation's whole state after every stage must be what the model computes
    import subprocess
    texts, bad = [], []
    for succ in graphs:
        t, meta = pipe.export_item(("c12", succ, "basic"))
        if t is None:
            bad.append(repr(succ))
        else:
            texts.append((succ, t))
    res = subprocess.run([par.VCHK], input="".join(t for _, t in texts), capture_output=True, text=True)
    lines = res.stdout.splitlines()
    if res.returncode != 0 or len(lines) != len(texts):
        bad.append("vchk failed: " + res.stderr[-200:])
    else:
        for (succ, _), ln in zip(texts, lines):
            if ln.split()[1:] != ["1", "1", "1", "1"]:
                bad.append(repr(succ))
    out.append(("pipeline-model", "%d graphs" % len(graphs), "agree" if not bad else "DIFFER " + ";".join(bad[:3])))
    for i in range(120 if tier == "quick" else 1500):
        src = progs.ProgGen(rng, progs.CLEAN).func(3)
        try:
            cfg = AST2SCFGTransformer(src).transform_to_ASTCFG().to_dict()
            d = [list(cfg.items())]
            try:
                scfg = AST2SCFG(src)
                scfg.restructure()
                d.append(export.dump(scfg))
                d.append(ast.unparse(ast.fix_missing_locations(SCFG2AST(src, scfg))))
            except Exception as e:
                d.append("EXC " + type(e).__name__)
        except Exception as e:
            d = ["EXC " + type(e).__name__]
        out.append(("source", src, digest(d)))
    import textwrap, heapq, bisect, shlex, fnmatch, posixpath, colorsys  # noqa: E401
    import types
    n = 0
    for mod in (textwrap, heapq, bisect, shlex, fnmatch, posixpath, colorsys):
        for name, f in sorted(vars(mod).items()):
            if isinstance(f, types.FunctionType) and not f.__code__.co_exceptiontable:
                try:
                    flow = ByteFlow.from_bytecode(f)
                    flow.scfg.restructure()
                    d = export.dump(flow.scfg)
                except Exception as e:
                    d = ["EXC " + type(e).__name__]
                out.append(("bytecode", mod.__name__ + "." + name, digest(d)))
                n += 1
    json.dump(out, sys.stdout)


if __name__ == "__main__":
    main()

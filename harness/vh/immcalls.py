"""transformations._imm_doms against its line-by-line model Model/ImmDom.v (ImmDomRun.run_imm): every call the
pipeline makes (dominators and post-dominators of every level), and direct calls on the dominator tables of
arbitrary small graphs (unreachable cycles included, where the sets are no chains and the function may raise).
The fourth column says whether the chain hypotheses of the universal theorem (ImmDomProof.imm_doms_correct)
hold for the call, with the returned dictionary as the witness."""
import random

from . import common, gen_graphs, par, stages


def rows_for(doms, status, out):
    names = set(doms)
    for v in doms.values():
        names.update(v)
    if out:
        names.update(out)
        names.update(out.values())
    ids = {n: i + 1 for i, n in enumerate(sorted(names, key=str))}
    rows = [[125]]
    for k, v in doms.items():
        rows.append([71, ids[k]] + sorted(ids[x] for x in v))
    rows.append([72, status])
    if status == 0:
        for k, v in out.items():
            rows.append([73, ids[k], ids[v]])
    return "#i\n" + "\n".join(" ".join(map(str, r)) for r in rows) + "\n0\n"


def observe(fn, doms):
    arg = {k: set(v) for k, v in doms.items()}
    status, out = 0, None
    try:
        out = fn({k: set(v) for k, v in doms.items()})
    except KeyError:
        status = 1
    except ValueError:
        status = 4
    return rows_for(arg, status, out), status


def export_item(item):
    from numba_scfg.core import transformations as T

    kind, payload = item
    texts = []
    meta = {"kinds": []}
    if kind == "pipeline":
        sc = stages.make_scfg(payload)
        orig_fn = T._imm_doms
        seen = []

        def spy(doms):
            seen.append({k: set(v) for k, v in doms.items()})
            return orig_fn(doms)

        T._imm_doms = spy
        try:
            sc.restructure()
        except Exception as e:
            meta["exc"] = repr(e)[:80]
        finally:
            T._imm_doms = orig_fn
        for d in seen:
            if len(d) > 64:
                continue
            t, st = observe(orig_fn, d)
            texts.append(t)
            meta["kinds"].append("pipeline")
    else:
        from .domcalls import tables
        for reverse in (False, True):
            entries, nodes, preds, succs = tables(payload, reverse)
            if not entries:
                continue
            try:
                d = T._find_dominators_internal(entries, nodes, preds, succs)
            except Exception:
                continue
            t, st = observe(T._imm_doms, d)
            texts.append(t)
            meta["kinds"].append("direct" + ("-raises" if st else ""))
    return ("".join(texts) if texts else None), meta


def items_for(tier, seed):
    rng = random.Random(seed + 125)
    items = []
    for s in gen_graphs.shapes():
        items.append(("pipeline", s))
    for i in range(80 if tier == "quick" else 2000):
        n = rng.randrange(3, 9) if i % 2 == 0 else rng.randrange(9, 25)
        items.append(("pipeline", gen_graphs.random_closed(rng, n)))
    for i in range(300 if tier == "quick" else 6000):
        n = rng.randrange(2, 12)
        g = tuple(tuple(rng.sample(range(n), rng.randrange(0, min(3, n) + 1))) for _ in range(n))
        items.append(("direct", g))
    return items


def tie(tier, seed):
    common.import_repo()
    items = items_for(tier, seed)
    out, errors = par.run(items, export_item)
    agree = total = 0
    applies = {"pipeline": 0, "direct": 0}
    not_chain = {"pipeline": 0, "direct": 0}
    unmet = []
    mism = []
    kinds = {}
    for item, meta, res in out:
        if meta and "harness_error" in meta:
            errors = list(errors) + [meta]
            continue
        for k in (meta or {}).get("kinds", []):
            kinds[k] = kinds.get(k, 0) + 1
        if res is None:
            continue
        rs = res if (res and isinstance(res[0], list)) else [res]
        for x in rs:
            total += 1
            if x[:3] == [1, 1, 1]:
                agree += 1
            elif len(mism) < 4:
                mism.append({"kind": item[0], "graph": item[1], "columns": x})
            if len(x) >= 4:
                if x[3] == 1:
                    applies[item[0]] += 1
                else:
                    not_chain[item[0]] += 1
                    if item[0] == "pipeline" and len(unmet) < 4:
                        unmet.append({"graph": item[1]})
    return {"calls_compared": total, "agree": agree, "mismatch_count": total - agree, "mismatches": mism,
            "calls_meeting_the_chain_hypotheses": applies, "calls_not_meeting_them": not_chain,
            "pipeline_calls_not_meeting_them_examples": unmet,
            "calls_by_kind": kinds, "harness_errors": [repr(e)[:200] for e in errors][:3]}

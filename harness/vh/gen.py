"""python -m vh.gen : regenerate coq/Gen/*.v from /repo (used by bin/build.sh)."""
from . import translate

if __name__ == "__main__":
    for r in translate.run_all():
        print("gen %-22s %s%s" % (r["file"], r["status"], " (rewritten)" if r["changed"] else ""))

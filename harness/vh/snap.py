"""The shared restructuring run: every input graph of the tier is pushed through
join_returns / restructure_loop / restructure_branch on the implementation in
/repo, the hierarchy after each stage is exported and handed to the extracted
Coq checkers (build/extract/vchk).  Results are cached under
build/cache/<hash of /repo sources + tier + seed> and shared by the checks of
C01..C06 (and, through the per-stage observers, by others)."""
import fcntl
import json
import multiprocessing as mp
import os
import random
import shutil
import subprocess
import time

from . import common, export, gen_graphs, stages

VCHK = os.path.join(common.BUILD, "extract", "vchk")
NCOLS = 9
NPROC = min(16, os.cpu_count() or 4)


def inputs_for(tier, seed):
    """List of (source, successor-tuples, payload kind)."""
    out = []
    for n in (1, 2, 3, 4):
        for s in gen_graphs.exhaustive(n):
            out.append(("exh%d" % n, s, "basic"))
    for s in gen_graphs.shapes():
        for pk in ("basic", "bc", "ast"):
            out.append(("shape", s, pk))
    rng = random.Random(seed)
    # many small graphs: rare shapes (nesting depth >= 2, region predecessors) show up at 5..9 blocks
    for i in range(3000 if tier == "quick" else 60000):
        out.append(("small", gen_graphs.random_closed(rng, rng.randrange(5, 10)), "basic"))
    # input blocks whose names look like the generator's own
    for i in range(400 if tier == "quick" else 8000):
        out.append(("gennames", gen_graphs.random_closed(rng, rng.randrange(3, 10)), "basic-gn"))
    # written to a dictionary and read back between the stages
    for i in range(400 if tier == "quick" else 8000):
        out.append(("reload", gen_graphs.random_closed(rng, rng.randrange(3, 12)), "basic-rw"))
    nrand = 1200 if tier == "quick" else 40000
    for i in range(nrand):
        n = rng.randrange(5, 13) if i % 2 == 0 else rng.randrange(13, 41)
        out.append(("rnd", gen_graphs.random_closed(rng, n), ("basic", "bc", "ast")[i % 3]))
    return out


def exh5_shards():
    return len(gen_graphs.options(5))


def block_factory(kind):
    if kind in ("basic", "basic-gn", "basic-rw"):
        return None
    if kind == "bc":
        from numba_scfg.core.datastructures.basic_block import PythonBytecodeBlock

        return lambda name, jt: PythonBytecodeBlock(
            name=name, _jump_targets=jt, begin=10 * int(name), end=10 * int(name) + 8)
    if kind == "ast":
        import ast
        from numba_scfg.core.datastructures.basic_block import PythonASTBlock

        return lambda name, jt: PythonASTBlock(
            name=name, _jump_targets=jt, begin=int(name), end=int(name) + 1,
            tree=ast.parse("x_%s = %s" % (name, name)).body)
    raise ValueError(kind)


OBSERVERS = []  # functions (stage_index, scfg, orig) -> dict merged into the stage record


def run_one(item):
    src, succ, pk = item
    sc = stages.make_scfg(succ, block_factory(pk), stages.namer_for(succ, pk))
    orig = export.original_of(sc)
    texts = []
    recs = []

    def on_stage(k, st, scfg):
        try:
            rows, _ = export.export(orig, scfg)
            texts.append((k, export.rows_text("%d" % k, rows)))
        except export.ExportError as e:
            texts.append((k, None))
            recs.append({"stage": k, "export_error": str(e)})
        for ob in OBSERVERS:
            r = ob(k, scfg, orig)
            if r:
                r["stage"] = k
                recs.append(r)

    if pk.endswith("-rw"):
        # two (three) sessions: the graph is written to a dictionary and read back between the stages,
        # the next stage runs on the re-read graph (a fresh name generator that must respect the names held)
        from numba_scfg.core.datastructures.scfg import SCFG

        exc = None
        for k, st in enumerate(stages.STAGES):
            try:
                getattr(sc, st)()
            except Exception as e:  # noqa
                exc = stages.exc_site(e)
                exc["stage"] = st
                break
            on_stage(k, st, sc)
            try:
                sc, _ = SCFG.from_dict(sc.to_dict())
            except Exception as e:  # noqa
                exc = stages.exc_site(e)
                exc["stage"] = st + " (write / read back)"
                break
        return texts, exc, recs
    exc = stages.run_stages(sc, on_stage)
    return texts, exc, recs


def _worker(args):
    idx, chunk = args
    common.import_repo()
    buf = []
    index = []  # (position in chunk, stage)
    out = []
    for pos, item in enumerate(chunk):
        try:
            texts, exc, recs = run_one(item)
        except Exception as e:  # harness-level failure: report, never hide
            out.append({"pos": pos, "harness_error": repr(e)})
            continue
        out.append({"pos": pos, "exc": exc, "recs": recs, "stages": [k for k, _ in texts]})
        for k, t in texts:
            if t is not None:
                buf.append(t)
                index.append((pos, k))
    res = subprocess.run([VCHK], input="".join(buf), capture_output=True, text=True)
    if res.returncode != 0:
        return idx, out, None, res.stderr[-500:]
    cols = []
    lines = res.stdout.splitlines()
    if len(lines) != len(index):
        return idx, out, None, "vchk printed %d lines for %d instances" % (len(lines), len(index))
    for (pos, k), line in zip(index, lines):
        parts = line.split()
        cols.append((pos, k, [int(x) for x in parts[1:]]))
    samples = buf[:2]
    return idx, out, cols, samples


def compute(tier, seed, extra_inputs=None):
    t0 = time.time()
    items = inputs_for(tier, seed)
    if extra_inputs:
        items += extra_inputs
    chunks = []
    csize = max(50, min(2000, len(items) // (NPROC * 4) or 1))
    for i in range(0, len(items), csize):
        chunks.append((len(chunks), items[i:i + csize]))
    ctx = mp.get_context("fork")
    with ctx.Pool(NPROC) as pool:
        results = pool.map(_worker, chunks)
    snap = {
        "tier": tier, "seed": seed, "graphs": len(items), "instances": 0,
        "pass": [[0] * NCOLS for _ in range(3)], "fail": [[0] * NCOLS for _ in range(3)],
        "failures": [], "exceptions": [], "harness_errors": [], "export_errors": [],
        "by_source": {}, "distribution": {"n": {}, "cyclic": 0, "multi_exit": 0, "payload": {}},
        "samples": [], "sample_rows": [], "undecodable": 0, "records": [],
    }
    rng = random.Random(seed + 17)
    for idx, out, cols, extra in sorted(results, key=lambda r: r[0]):
        chunk = chunks[idx][1]
        if cols is None:
            snap["harness_errors"].append({"chunk": idx, "error": extra})
            continue
        if idx % 7 == 0 and extra:
            snap["sample_rows"].extend(extra[:1])
        for o in out:
            src, succ, pk = chunk[o["pos"]]
            if "harness_error" in o:
                snap["harness_errors"].append({"graph": succ, "error": o["harness_error"]})
                continue
            if o["exc"]:
                snap["exceptions"].append({"graph": succ, "payload": pk, "source": src, "site": o["exc"]})
            for r in o["recs"]:
                if "export_error" in r:
                    snap["export_errors"].append({"graph": succ, "payload": pk, **r})
                else:
                    snap["records"].append({"graph": succ, "payload": pk, **r})
            d = gen_graphs.describe(succ)
            dist = snap["distribution"]
            dist["n"][str(d["n"])] = dist["n"].get(str(d["n"]), 0) + 1
            dist["cyclic"] += 1 if d["cyclic"] else 0
            dist["multi_exit"] += 1 if d["exits"] > 1 else 0
            dist["payload"][pk] = dist["payload"].get(pk, 0) + 1
            snap["by_source"][src] = snap["by_source"].get(src, 0) + 1
        for pos, k, c in cols:
            src, succ, pk = chunk[pos]
            snap["instances"] += 1
            if not c or c[0] != 1:
                snap["undecodable"] += 1
                snap["failures"].append({"graph": succ, "payload": pk, "stage": k, "cols": c,
                                         "undecodable": True})
                continue
            bad = False
            for j in range(NCOLS):
                if c[j] == 1:
                    snap["pass"][k][j] += 1
                else:
                    snap["fail"][k][j] += 1
                    bad = True
            if bad:
                snap["failures"].append({"graph": succ, "payload": pk, "stage": k, "cols": c})
            elif rng.random() < 8.0 / max(8, len(items)):
                snap["samples"].append({"graph": succ, "payload": pk, "stage": k, "cols": c})
    snap["wall_s"] = round(time.time() - t0, 2)
    return snap


def cache_dir(tier, seed):
    key = "%s-%s-%s-%d" % (common.repo_hash(), common.harness_hash(), tier, seed)
    return os.path.join(common.BUILD, "cache", key)


def get_snapshot(tier, seed):
    """Cached result of compute(); the cache key covers every source file of the
    implementation, so an edit to /repo forces a fresh run."""
    d = cache_dir(tier, seed)
    os.makedirs(os.path.dirname(d), exist_ok=True)
    lock = open(os.path.join(common.BUILD, "cache", "lock"), "w")
    fcntl.flock(lock, fcntl.LOCK_EX)
    try:
        f = os.path.join(d, "snap.json")
        vstamp = os.path.getmtime(VCHK)
        if os.path.exists(f):
            snap = json.load(open(f))
            if snap.get("vchk_mtime") == vstamp:
                snap["from_cache"] = True
                return snap
        snap = compute(tier, seed)
        snap["vchk_mtime"] = vstamp
        os.makedirs(d, exist_ok=True)
        with open(f + ".tmp", "w") as fh:
            json.dump(snap, fh)
        os.replace(f + ".tmp", f)
        # prune old caches
        root = os.path.join(common.BUILD, "cache")
        ds = sorted((os.path.getmtime(os.path.join(root, x)), x) for x in os.listdir(root)
                    if os.path.isdir(os.path.join(root, x)))
        for _, x in ds[:-6]:
            shutil.rmtree(os.path.join(root, x), ignore_errors=True)
        snap["from_cache"] = False
        return snap
    finally:
        fcntl.flock(lock, fcntl.LOCK_UN)
        lock.close()


def rebuild(graph, payload, upto_stage):
    """Re-run the implementation on one graph up to a stage (for the violation search)."""
    g_ = tuple(tuple(s) for s in graph)
    sc = stages.make_scfg(g_, block_factory(payload), stages.namer_for(g_, payload))
    orig = export.original_of(sc)
    for k, st in enumerate(stages.STAGES):
        getattr(sc, st)()
        if k == upto_stage:
            break
        if str(payload).endswith("-rw"):
            from numba_scfg.core.datastructures.scfg import SCFG

            sc, _ = SCFG.from_dict(sc.to_dict())
    return orig, sc

"""The source pipeline on one program: front end (unpruned / pruned), CFG
interpretation, restructuring, regenerated source, census.  Used by C07, C08, C10."""
import ast
import re
import traceback

from . import progs

RESERVED = re.compile(r"^__scfg_.*__$")


def site(e):
    tb = traceback.extract_tb(e.__traceback__)
    last = [f for f in tb if "numba_scfg" in f.filename][-1:] or tb[-1:]
    return {"type": type(e).__name__, "function": last[0].name, "file": last[0].filename.split("/")[-1],
            "message": str(e)[:120]}


def front(src):
    """Unpruned and pruned CFG of the same transformer run, with instruction identities.
    Returns (rows text for run_c08, pruned blocks {name: (nodes, targets)}, error)."""
    from numba_scfg.core.datastructures.ast_transforms import AST2SCFGTransformer

    t = AST2SCFGTransformer(src, prune=False)
    cfg = t.transform_to_ASTCFG()
    ids = {}

    def iid(node):
        key = id(node.value) if isinstance(node, ast.Expr) and id(node.value) in ids else id(node)
        if key not in ids:
            ids[key] = len(ids) + 1
        return ids[key]

    def rows(tag):
        out = []
        for name, b in cfg.items():
            r = [tag, int(name), len(b.instructions)]
            for i in b.instructions:
                r += [iid(i), 1 if isinstance(i, (ast.Pass, ast.Break, ast.Continue)) else 0]
            r += [len(b.jump_targets)] + [int(x) for x in b.jump_targets]
            out.append(r)
        return out

    before = rows(120)
    keep = list(ids)  # keep node objects alive through ids' keys (they are ints; objects live in cfg)
    status = 0
    try:
        cfg.prune_unreachable()
        cfg.prune_noops()
        cfg.prune_empty()
        after = rows(121)
    except Exception as e:
        status = 1
        after = []
        err = site(e)
    text = "#c08\n" + "\n".join(" ".join(map(str, r)) for r in [[108]] + before + after + [[122, status]]) + "\n0\n"
    if status:
        return text, None, err
    blocks = {name: (list(b.instructions), list(b.jump_targets)) for name, b in cfg.items()}
    return text, blocks, None


def census_rows(scfg, tree):
    """Rows for run_c10: what the hierarchy holds vs what the regenerated tree contains."""
    from numba_scfg.core.datastructures.basic_block import (
        PythonASTBlock, RegionBlock, SyntheticAssignment)

    ids = {}
    want_stmts, want_tests, want_asg = [], [], []
    pair_ids = {}

    def pid(var, val):
        return pair_ids.setdefault((var, val), len(pair_ids) + 1)

    def rec(g):
        for name, b in g.graph.items():
            if isinstance(b, RegionBlock):
                rec(b.subregion)
            elif type(b) is PythonASTBlock:
                ins = list(b.tree)
                if len(b.jump_targets) == 2:
                    t = ins.pop()
                    t = t.value if isinstance(t, ast.Expr) else t
                    ids[id(t)] = len(ids) + 1
                    want_tests.append(ids[id(t)])
                for i in ins:
                    k = len(ids) + 1
                    ids[id(i)] = k
                    if isinstance(i, ast.Return) and i.value is not None:
                        # emitted either as it is or as `__scfg_return_value__ = <value>`
                        ids[id(i.value)] = k
                    want_stmts.append(k)
            elif type(b) is SyntheticAssignment:
                for var, val in b.variable_assignment.items():
                    want_asg.append(pid(var, val))

    rec(scfg)
    got_stmts, got_tests, got_asg = [], [], []
    for n in ast.walk(tree):
        if isinstance(n, ast.If) and id(n.test) in ids:
            got_tests.append(ids[id(n.test)])
    # statements: walk statement lists only (an expression id may also occur as a test)
    def walk_body(body):
        for s in body:
            if id(s) in ids:
                got_stmts.append(ids[id(s)])
            elif isinstance(s, ast.Assign) and len(s.targets) == 1 and isinstance(s.targets[0], ast.Name):
                nm = s.targets[0].id
                if nm == "__scfg_return_value__":
                    if id(s.value) in ids:
                        got_stmts.append(ids[id(s.value)])
                    else:
                        got_stmts.append(-1)     # `return` without value: matched below
                elif isinstance(s.value, ast.Constant) and isinstance(s.value.value, int) \
                        and not isinstance(s.value.value, bool) and re.match(r"^__scfg_(exit|backedge|control)_var_\d+__$", nm):
                    got_asg.append(pid(nm, s.value.value))
            for f in ("body", "orelse"):
                if hasattr(s, f) and isinstance(getattr(s, f), list):
                    walk_body(getattr(s, f))
        return

    walk_body(tree.body)
    return want_stmts, got_stmts, want_asg, got_asg, want_tests, got_tests


def new_names(src, code):
    a = {n.id for n in ast.walk(ast.parse(src)) if isinstance(n, ast.Name)} | \
        {a.arg for n in ast.walk(ast.parse(src)) if isinstance(n, ast.arguments) for a in n.args}
    b = {n.id for n in ast.walk(ast.parse(code)) if isinstance(n, ast.Name)}
    return sorted(x for x in b - a if x not in ("iter", "next"))


class Timeout(Exception):
    pass


def analyse(src, paths=True, seconds=20):
    """analyse_inner under an alarm: a program whose analysis does not finish is reported as such."""
    import signal

    def handler(*a):
        raise Timeout()

    old = signal.signal(signal.SIGALRM, handler)
    signal.alarm(seconds)
    try:
        return analyse_inner(src, paths)
    except Timeout:
        return {"src": src, "texts": [], "front": "timeout", "pipeline": "timeout"}
    finally:
        signal.alarm(0)
        signal.signal(signal.SIGALRM, old)


def analyse_inner(src, paths=True):
    """Everything the three checks need about one program."""
    from numba_scfg import AST2SCFG, SCFG2AST

    out = {"src": src, "texts": [], "front": "ok", "pipeline": None}
    try:
        text, blocks, err = front(src)
        out["texts"].append(text)
        if err:
            out["front"] = {"internal": err}
    except NotImplementedError:
        out["front"] = "refused"
        blocks = None
    except Exception as e:
        out["front"] = {"internal": site(e)}
        blocks = None
    if blocks is not None and paths:
        try:
            r = progs.compare_functions(src, "f", progs.cfg_factory(blocks), None, max_paths=250)
            out["cfg_semantics"] = "ok" if isinstance(r, tuple) else r
            out["cfg_paths"] = r[1] if isinstance(r, tuple) else 0
        except Exception as e:
            out["cfg_semantics"] = {"harness": repr(e)[:200]}
    try:
        scfg = AST2SCFG(src)
        scfg.restructure()
        tree = SCFG2AST(src, scfg)
        code = ast.unparse(ast.fix_missing_locations(tree))
    except NotImplementedError:
        out["pipeline"] = "refused"
        return out
    except Exception as e:
        out["pipeline"] = {"internal": site(e)}
        return out
    out["pipeline"] = "ok"
    out["code"] = code
    try:
        compile(code, "<regenerated>", "exec")
        out["compiles"] = True
    except SyntaxError as e:
        out["compiles"] = False
        out["compile_error"] = str(e)[:120]
        return out
    out["new_names"] = new_names(src, code)
    out["unreserved"] = [n for n in out["new_names"] if not RESERVED.match(n)]
    ws, gs, wa, ga, wt, gt = census_rows(scfg, tree)
    # a bare `return` has no value object to identify: pair them by count
    nb = gs.count(-1)
    gs = [x for x in gs if x != -1]
    bare_ids = [x for x in ws if x not in gs]
    if len(bare_ids) >= nb:
        gs += bare_ids[:nb]
    L = lambda tag, xs: [tag, len(xs)] + xs  # noqa: E731
    rows = [[110], L(100, ws), L(101, gs), L(102, wa), L(103, ga), L(104, wt), L(105, gt)]
    out["texts"].append("#c10\n" + "\n".join(" ".join(map(str, r)) for r in rows) + "\n0\n")
    out["census_sizes"] = [len(ws), len(wa), len(wt)]
    if paths and out["compiles"]:
        try:
            r = progs.compare_functions(src, "f", code, "transformed_f", max_paths=250)
            out["roundtrip"] = "ok" if isinstance(r, tuple) else r
            out["roundtrip_paths"] = r[1] if isinstance(r, tuple) else 0
        except Exception as e:
            out["roundtrip"] = {"harness": repr(e)[:200]}
    return out


def graph_program(succ):
    """A closed CFG as a graph of AST blocks: block i calls ext(i+1); a two-way block
    ends with the test ext(100+i); an exit returns ext(200+i).  Returns (scfg, blocks)."""
    from numba_scfg.core.datastructures.scfg import SCFG
    from numba_scfg.core.datastructures.basic_block import PythonASTBlock

    blocks = {}
    g = {}
    for i, s in enumerate(succ):
        ins = [ast.parse("ext(%d)" % (i + 1)).body[0]]
        if len(s) == 2:
            ins.append(ast.parse("ext(%d)" % (100 + i)).body[0].value)
        if len(s) == 0:
            ins.append(ast.parse("return ext(%d)" % (200 + i)).body[0])
        jt = tuple(str(j) for j in s)
        blocks[str(i)] = (ins, list(jt))
        g[str(i)] = PythonASTBlock(name=str(i), _jump_targets=jt, tree=list(ins))
    # the walk starts at the entry: put it first
    preds = set(j for s in succ for j in s)
    entry = [str(i) for i in range(len(succ)) if i not in preds][0]
    blocks = {entry: blocks[entry], **{k: v for k, v in blocks.items() if k != entry}}
    return SCFG(g), blocks


def analyse_graph(succ, seconds=20):
    """Restructure a graph of AST blocks and regenerate code: census + path comparison with the graph."""
    import signal
    from numba_scfg.core.datastructures.ast_transforms import SCFG2ASTTransformer

    def handler(*a):
        raise Timeout()

    out = {"graph": succ, "texts": []}
    old = signal.signal(signal.SIGALRM, handler)
    signal.alarm(seconds)
    try:
        scfg, blocks = graph_program(succ)
        original = ast.parse("def f(a, b):\n    pass\n").body[0]
        try:
            scfg.restructure()
            tree = SCFG2ASTTransformer().transform(original=original, scfg=scfg)
            code = ast.unparse(ast.fix_missing_locations(tree))
        except NotImplementedError:
            out["pipeline"] = "refused"
            return out
        except Exception as e:
            out["pipeline"] = {"internal": site(e)}
            return out
        out["pipeline"] = "ok"
        out["code"] = code
        try:
            compile(code, "<regenerated>", "exec")
            out["compiles"] = True
        except SyntaxError as e:
            out["compiles"] = False
            out["compile_error"] = str(e)[:120]
            return out
        out["unreserved"] = [n for n in new_names("def f(a, b):\n    ext\n", code) if not RESERVED.match(n)]
        ws, gs, wa, ga, wt, gt = census_rows(scfg, tree)
        gs = [x for x in gs if x != -1]
        L = lambda tag, xs: [tag, len(xs)] + xs  # noqa: E731
        rows = [[110], L(100, ws), L(101, gs), L(102, wa), L(103, ga), L(104, wt), L(105, gt)]
        out["texts"].append("#c10\n" + "\n".join(" ".join(map(str, r)) for r in rows) + "\n0\n")
        r = progs.compare_functions(progs.cfg_factory(blocks), None, code, "transformed_f", max_paths=200)
        out["roundtrip"] = "ok" if isinstance(r, tuple) else r
        return out
    except Timeout:
        out["pipeline"] = "timeout"
        return out
    finally:
        signal.alarm(0)
        signal.signal(signal.SIGALRM, old)

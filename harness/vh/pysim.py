"""Independent concrete executors working on the implementation's live objects.
Used only by the violation search: to turn a checker rejection (or a broken
proof obligation) into a concrete decision list / node on which the property
fails against the real code.  Nothing here decides a property."""
from collections import deque


class Stuck(Exception):
    pass


class Flat:
    """Index of a hierarchy: name -> (block, containing SCFG, parent region block)."""

    def __init__(self, scfg):
        from numba_scfg.core.datastructures.basic_block import RegionBlock

        self.RegionBlock = RegionBlock
        self.scfg = scfg
        self.node = {}
        self.dups = []
        self.parent = {}  # name -> region block (or the top scfg.region)
        self.graph_of = {}

        def rec(g, region):
            for n, b in g.graph.items():
                if n in self.node:
                    self.dups.append(n)
                self.node[n] = b
                self.parent[n] = region
                self.graph_of[n] = g
                if isinstance(b, RegionBlock):
                    rec(b.subregion, b)

        rec(scfg, scfg.region)

    def is_region(self, b):
        return isinstance(b, self.RegionBlock)

    # ---- flat discipline
    def enter_flat(self, name):
        for _ in range(len(self.node) + 2):
            if name not in self.node:
                raise Stuck(("dangling", name))
            b = self.node[name]
            if self.is_region(b):
                name = b.header
            else:
                return b
        raise Stuck(("header-cycle", name))

    # ---- region discipline
    def enter_region(self, name, graph):
        for _ in range(len(self.node) + 2):
            if name not in graph.graph:
                raise Stuck(("not-in-level", name))
            b = graph.graph[name]
            if self.is_region(b):
                if b.header not in b.subregion.graph:
                    raise Stuck(("header-not-inside", b.name, b.header))
                graph = b.subregion
                name = b.header
            else:
                return b
        raise Stuck(("deep", name))

    def resolve_region(self, cur, t):
        isbe = t in cur.backedges
        x = cur
        for _ in range(len(self.node) + 2):
            g = self.graph_of[x.name]
            if t in g.graph:
                return self.enter_region(t, g)
            p = self.parent[x.name]
            if p is self.scfg.region or p.kind == "meta":
                raise Stuck(("region-dangling", cur.name, t))
            if p.exiting != x.name:
                raise Stuck(("leaves-from-non-exiting", x.name, p.name, t))
            if not isbe and t not in p._jump_targets:
                raise Stuck(("target-not-a-region-target", x.name, p.name, t))
            x = p
        raise Stuck(("deep", t))

    def resolve(self, region_walk, cur, t):
        return self.resolve_region(cur, t) if region_walk else self.enter_flat(t)

    def start(self, region_walk):
        head = self.scfg.find_head()
        return self.enter_region(head, self.scfg) if region_walk else self.enter_flat(head)


def srun(fl, region_walk, orig_names, cur, env, strict):
    """Run through synthetic blocks from leaf cur.  Returns (block|None, env)."""
    from numba_scfg.core.datastructures.basic_block import (
        SyntheticAssignment, SyntheticBranch, SyntheticBlock)

    env = dict(env)
    for _ in range(len(fl.node) + 5):
        if cur.name in orig_names and not isinstance(cur, SyntheticBlock):
            return cur, env
        if isinstance(cur, SyntheticAssignment):
            if len(cur._jump_targets) != 1:
                raise Stuck(("assign-arity", cur.name))
            for v, z in cur.variable_assignment.items():
                env[v] = (z, ())
            nxt = cur._jump_targets[0]
        elif isinstance(cur, SyntheticBranch):
            if cur.variable not in env:
                raise Stuck(("unset", cur.name, cur.variable))
            z, readers = env[cur.variable]
            if z not in cur.branch_value_table:
                raise Stuck(("out-of-range", cur.name, cur.variable, z))
            nxt = cur.branch_value_table[z]
            if nxt not in cur._jump_targets:
                raise Stuck(("table-target-not-successor", cur.name, nxt))
            if strict:
                if cur.name in readers:
                    raise Stuck(("stale-read", cur.name, cur.variable))
                env[cur.variable] = (z, readers + (cur.name,))
        elif isinstance(cur, SyntheticBlock):
            if len(cur._jump_targets) == 0:
                return None, env
            if len(cur._jump_targets) != 1:
                raise Stuck(("synthetic-with-several-targets", cur.name))
            nxt = cur._jump_targets[0]
        else:
            raise Stuck(("block-not-in-input", cur.name, type(cur).__name__))
        cur = fl.resolve(region_walk, cur, nxt)
    raise Stuck(("synthetic-cycle", cur.name))


def find_path_violation(orig, scfg, region_walk, max_states=200000):
    """Breadth-first search over (original block, control environment) for a
    decision list on which the walk of scfg differs from the original graph.
    orig: name -> (payload, successors).  Returns None or a dict."""
    fl = Flat(scfg)
    if fl.dups:
        return {"reason": "duplicate-names", "names": fl.dups, "decisions": []}
    orig_names = set(orig)
    preds = set(j for _, s in orig.values() for j in s)
    entries = [n for n in orig if n not in preds]
    if len(entries) != 1:
        return None
    entry = entries[0]
    try:
        h = fl.start(region_walk)
    except (Stuck, AssertionError, KeyError) as e:
        return {"reason": "stuck-at-entry", "detail": repr(e), "decisions": []}
    if h.name != entry:
        return {"reason": "entry-differs", "expected": entry, "actual": h.name, "decisions": []}
    seen = set()
    q = deque([(entry, (), ())])
    while q and len(seen) < max_states:
        n, envt, ds = q.popleft()
        if (n, envt) in seen:
            continue
        seen.add((n, envt))
        blk = fl.node[n]
        succ = orig[n][1]
        env = dict(envt)
        if not succ:
            if len(blk._jump_targets) == 0:
                continue
            if len(blk._jump_targets) != 1:
                return {"reason": "exit-block-arity", "block": n, "decisions": list(ds)}
            try:
                nb, _ = srun(fl, region_walk, orig_names,
                             fl.resolve(region_walk, blk, blk._jump_targets[0]), env, False)
            except Stuck as e:
                return {"reason": "stuck", "block": n, "detail": e.args, "decisions": list(ds)}
            if nb is not None:
                return {"reason": "continues-after-exit", "block": n, "reached": nb.name,
                        "decisions": list(ds)}
            continue
        if len(blk._jump_targets) != len(succ):
            return {"reason": "arity", "block": n, "expected": succ,
                    "actual": blk._jump_targets, "decisions": list(ds)}
        for i, t in enumerate(succ):
            try:
                nb, env2 = srun(fl, region_walk, orig_names,
                                fl.resolve(region_walk, blk, blk._jump_targets[i]), env, False)
            except Stuck as e:
                return {"reason": "stuck", "block": n, "decision": i, "detail": e.args,
                        "decisions": list(ds) + [i]}
            if nb is None:
                return {"reason": "stops-early", "block": n, "decision": i, "expected": t,
                        "decisions": list(ds) + [i]}
            if nb.name != t:
                return {"reason": "wrong-successor", "block": n, "decision": i, "expected": t,
                        "actual": nb.name, "decisions": list(ds) + [i]}
            q.append((t, tuple(sorted(env2.items())), ds + (i,)))
    return None


def find_ctrl_violation(orig, scfg, max_states=200000):
    """C06 search: strict flat walk, all decisions free."""
    from numba_scfg.core.datastructures.basic_block import SyntheticBranch

    fl = Flat(scfg)
    for n, b in fl.node.items():
        if isinstance(b, SyntheticBranch):
            for z, t in b.branch_value_table.items():
                if t not in b._jump_targets:
                    return {"reason": "table-entry-not-a-successor", "block": n, "value": z,
                            "target": t, "decisions": []}
            for t in b._jump_targets:
                if t not in b.branch_value_table.values():
                    return {"reason": "successor-without-table-entry", "block": n, "target": t,
                            "decisions": []}
    orig_names = set(orig)
    try:
        h = fl.start(False)
    except (Stuck, AssertionError, KeyError) as e:
        return {"reason": "stuck-at-entry", "detail": repr(e), "decisions": []}
    seen = set()
    q = deque([(h.name, (), ())])
    while q and len(seen) < max_states:
        n, envt, ds = q.popleft()
        if (n, envt) in seen:
            continue
        seen.add((n, envt))
        blk = fl.node[n]
        for i, t in enumerate(blk._jump_targets):
            try:
                nb, env2 = srun(fl, False, orig_names, fl.enter_flat(t), dict(envt), True)
            except Stuck as e:
                return {"reason": e.args[0], "block": n, "decision": i, "detail": e.args,
                        "decisions": list(ds) + [i]}
            if nb is not None:
                q.append((nb.name, tuple(sorted(env2.items())), ds + (i,)))
    return None


# ---------------------------------------------------------------------------
# declarative predicates re-evaluated in Python (C03, C04, C05): which clause
# fails, and where

def find_wf_violation(scfg):
    fl = Flat(scfg)
    if fl.dups:
        return {"clause": "names-unique", "names": fl.dups}
    for n, b in fl.node.items():
        g = fl.graph_of[n]
        region = fl.parent[n]
        if b.name != n:
            return {"clause": "key-is-name", "key": n, "name": b.name}
        for t in tuple(b._jump_targets) + tuple(b.backedges):
            x = b
            ok = False
            for _ in range(len(fl.node) + 2):
                gx = fl.graph_of[x.name]
                if t in gx.graph:
                    ok = True
                    break
                p = fl.parent[x.name]
                if p is scfg.region or p.kind == "meta" or p.exiting != x.name:
                    break
                x = p
            if not ok:
                return {"clause": "target-in-scope", "block": n, "target": t,
                        "stopped_at": x.name}
        if fl.is_region(b):
            sub = b.subregion.graph
            if b.header not in sub:
                return {"clause": "header-inside", "region": n, "header": b.header}
            if b.exiting not in sub:
                return {"clause": "exiting-inside", "region": n, "exiting": b.exiting}
            if tuple(b._jump_targets) != tuple(sub[b.exiting].jump_targets):
                return {"clause": "region-targets-are-exiting-targets", "region": n,
                        "region_targets": b._jump_targets,
                        "exiting_targets": sub[b.exiting].jump_targets}
            if b.parent_region is None or b.parent_region.name != region.name:
                return {"clause": "recorded-parent", "region": n,
                        "recorded": b.parent_region.name if b.parent_region else None,
                        "actual": region.name}
            if b.parent_region.subregion is not g:
                return {"clause": "recorded-parent-holds-it", "region": n}
            if b.subregion.region.name != n:
                return {"clause": "subgraph-knows-its-region", "region": n,
                        "recorded": b.subregion.region.name}
    return None


def find_cons_violation(orig, scfg):
    from numba_scfg.core.datastructures.basic_block import SyntheticBlock
    from .export import payload_repr, ORIG_CLASSES

    fl = Flat(scfg)
    if fl.dups:
        return {"clause": "names-unique", "names": fl.dups}
    for n, (pl, succ) in orig.items():
        if n not in fl.node:
            return {"clause": "block-lost", "block": n}
        b = fl.node[n]
        if type(b).__name__ not in ORIG_CLASSES:
            return {"clause": "block-replaced", "block": n, "class": type(b).__name__}
        if payload_repr(b) != pl:
            return {"clause": "payload-altered", "block": n, "before": pl, "after": payload_repr(b)}
        jt = b._jump_targets
        if len(jt) != len(succ):
            if not (len(succ) == 0 and len(jt) == 1 and jt[0] not in orig and jt[0] in fl.node):
                return {"clause": "arity", "block": n, "before": succ, "after": jt}
        else:
            for i, (s, t) in enumerate(zip(succ, jt)):
                if t not in fl.node:
                    return {"clause": "successor-dangling", "block": n, "position": i, "after": t}
                if t != s and t in orig:
                    return {"clause": "successor-reordered-or-swapped", "block": n,
                            "position": i, "before": s, "after": t}
                if t != s and fl.is_region(fl.node[t]):
                    # renamed to a region: it must enclose the old successor
                    x, ok = s, False
                    for _ in range(len(fl.node) + 2):
                        par = fl.parent.get(x)
                        if par is None or par.name not in fl.node:
                            break
                        if par.name == t:
                            ok = True
                            break
                        x = par.name
                    if not ok:
                        # ... or be entered at an inserted block (an inserted block that was wrapped afterwards)
                        try:
                            ok = fl.enter_flat(t).name not in orig
                        except Stuck:
                            ok = False
                    if not ok:
                        return {"clause": "successor-renamed-to-a-region-that-does-not-enclose-it", "block": n,
                                "position": i, "before": s, "after": t}
    for n, b in fl.node.items():
        if not fl.is_region(b) and not isinstance(b, SyntheticBlock) and n not in orig:
            return {"clause": "non-synthetic-block-added", "block": n, "class": type(b).__name__}
    return None


def find_struct_violation(scfg, full):
    fl = Flat(scfg)

    def cyclic(nodes, edges):
        color = {}
        for s in nodes:
            if s in color:
                continue
            st = [(s, iter(edges(s)))]
            color[s] = 1
            while st:
                v, it = st[-1]
                for w in it:
                    if color.get(w) == 1:
                        return (v, w)
                    if w not in color:
                        color[w] = 1
                        st.append((w, iter(edges(w))))
                        break
                else:
                    color[v] = 2
                    st.pop()
        return None

    graphs = [scfg] + [b.subregion for b in fl.node.values() if fl.is_region(b)]
    for g in graphs:
        c = cyclic(list(g.graph), lambda v, g=g: [t for t in g.graph[v].jump_targets if t in g.graph])
        if c:
            return {"clause": "level-acyclic", "edge": c}
    leaves = [n for n, b in fl.node.items() if not fl.is_region(b)]

    def fedges(v):
        out = []
        for t in fl.node[v].jump_targets:
            try:
                out.append(fl.enter_flat(t).name)
            except Stuck:
                pass
        return out

    c = cyclic(leaves, fedges)
    if c:
        return {"clause": "flat-acyclic-without-back-edges", "edge": c}
    for n, b in fl.node.items():
        if b.backedges:
            if fl.is_region(b) or len(b.backedges) != 1 or b.backedges[0] not in b._jump_targets:
                return {"clause": "back-edge-shape", "block": n, "backedges": b.backedges}
            t = b.backedges[0]
            ok = False
            for L in fl.node.values():
                if fl.is_region(L) and L.kind == "loop" and L.header == t:
                    x = L
                    for _ in range(len(fl.node) + 2):
                        if not fl.is_region(x):
                            break
                        if x.exiting == n:
                            ok = True
                            break
                        x = x.subregion.graph.get(x.exiting)
                        if x is None:
                            break
            if not ok:
                return {"clause": "back-edge-from-latch-of-loop-region-to-its-header",
                        "block": n, "target": t}
    if not full:
        return None
    for n, b in fl.node.items():
        region = fl.parent[n]
        g = fl.graph_of[n]
        if len(b.jump_targets) >= 2:
            if fl.is_region(b):
                if b.kind != "head":
                    return {"clause": "region-with-several-successors-is-head", "region": n,
                            "kind": b.kind}
            elif not (region.kind == "head" and region.exiting == n):
                return {"clause": "branching-block-is-exiting-of-head-region", "block": n,
                        "region": region.name, "kind": region.kind, "exiting": region.exiting}
        if fl.is_region(b) and b.kind == "head" and b._jump_targets:
            tg = b._jump_targets
            if len(set(tg)) != len(tg):
                return {"clause": "head-successors-distinct", "region": n, "targets": tg}
            conts = set()
            for t in tg:
                m = g.graph.get(t)
                if m is None or not fl.is_region(m) or m.kind != "branch":
                    return {"clause": "head-successor-is-branch-region", "region": n, "target": t}
                if len(m._jump_targets) != 1:
                    return {"clause": "branch-region-has-one-continuation", "region": t,
                            "targets": m._jump_targets}
                conts.add(m._jump_targets[0])
            if len(conts) != 1:
                return {"clause": "common-tail", "region": n, "continuations": sorted(conts)}
            c = g.graph.get(next(iter(conts)))
            if c is None or not fl.is_region(c) or c.kind != "tail":
                return {"clause": "continuation-is-tail-region", "region": n,
                        "continuation": next(iter(conts))}
    return None

"""Run the implementation stage by stage on one input graph."""
import traceback

STAGES = ("join_returns", "restructure_loop", "restructure_branch")


def make_scfg(succ, block_factory=None):
    from numba_scfg.core.datastructures.scfg import SCFG
    from numba_scfg.core.datastructures.basic_block import BasicBlock

    g = {}
    for i, s in enumerate(succ):
        name = str(i)
        jt = tuple(str(j) for j in s)
        g[name] = (block_factory(name, jt) if block_factory
                   else BasicBlock(name=name, _jump_targets=jt))
    return SCFG(g)


def exc_site(e):
    fr = traceback.extract_tb(e.__traceback__)
    chain = [x.name for x in fr if "numba_scfg" in x.filename]
    last = fr[-1]
    return {
        "type": type(e).__name__,
        "function": last.name,
        "file": last.filename.split("/")[-1],
        "line_text": last.line,
        "chain": chain[-5:],
        "message": str(e)[:200],
    }


def run_stages(scfg, on_stage):
    """Apply the three stages in order; call on_stage(k, name, scfg) after each.
    Returns None or the exception site of the first stage that raised."""
    for k, st in enumerate(STAGES):
        try:
            getattr(scfg, st)()
        except Exception as e:  # noqa
            site = exc_site(e)
            site["stage"] = st
            return site
        on_stage(k, st, scfg)
    return None

"""Run the implementation stage by stage on one input graph."""
import traceback

STAGES = ("join_returns", "restructure_loop", "restructure_branch")


GEN_LIKE = ["synth_fill_block_0", "synth_fill_block_1", "synth_tail_block_0", "synth_tail_block_1",
            "synth_asign_block_0", "synth_asign_block_1", "synth_asign_block_2", "synth_head_block_0",
            "synth_head_block_1", "synth_exit_block_0", "synth_exit_latch_block_0", "synth_return_block_0",
            "loop_region_0", "loop_region_1", "head_region_0", "head_region_1", "branch_region_0",
            "branch_region_1", "tail_region_0", "tail_region_1", "meta_region_1", "__scfg_control_var_0__",
            "synth_tail_block_2", "synth_fill_block_2", "branch_region_2", "head_region_2"]


def namer_for(succ, kind):
    """Block names of an input graph: str(i), or - for payload kinds ending in '-gn' - names that look
    like the generator's own (a deterministic choice per graph)."""
    if not str(kind).endswith("-gn"):
        return str
    import random

    rng = random.Random(repr(succ))
    pool = list(GEN_LIKE)
    rng.shuffle(pool)
    # consecutive indices of one kind are the interesting case: keep some neighbours together
    pool.sort(key=lambda n: (rng.random() < 0.5, n))
    names = pool[:len(succ)] + [str(i) for i in range(len(succ))][len(pool):]
    return lambda i: names[int(i)]


def make_scfg(succ, block_factory=None, namer=str):
    from numba_scfg.core.datastructures.scfg import SCFG
    from numba_scfg.core.datastructures.basic_block import BasicBlock

    g = {}
    for i, s in enumerate(succ):
        name = namer(i)
        jt = tuple(namer(j) for j in s)
        g[name] = (block_factory(name, jt) if block_factory
                   else BasicBlock(name=name, _jump_targets=jt))
    return SCFG(g)


def exc_site(e):
    fr = traceback.extract_tb(e.__traceback__)
    chain = [x.name for x in fr if "numba_scfg" in x.filename]
    last = fr[-1]
    return {
        "type": type(e).__name__,
        "function": last.name,
        "file": last.filename.split("/")[-1],
        "line_text": last.line,
        "chain": chain[-5:],
        "message": str(e)[:200],
    }


def run_stages(scfg, on_stage):
    """Apply the three stages in order; call on_stage(k, name, scfg) after each.
    Returns None or the exception site of the first stage that raised."""
    for k, st in enumerate(STAGES):
        try:
            getattr(scfg, st)()
        except Exception as e:  # noqa
            site = exc_site(e)
            site["stage"] = st
            return site
        on_stage(k, st, scfg)
    return None

"""Every call of SCFG.insert_block made while the pipeline restructures a graph (any level; join_returns,
join_tails_and_exits, insert_SyntheticFill ...): the whole hierarchy before and after the call, compared with
the model Model/InsHier.v (InsHier.run_ibh), children in dictionary order."""
import copy
import random

from . import common, export, gen_graphs, par, stages


def export_item(item):
    from numba_scfg.core.datastructures import scfg as scfgmod
    from numba_scfg.core.datastructures.basic_block import RegionBlock, SyntheticBranch

    src, succ = item
    sc = stages.make_scfg(succ)
    orig = export.original_of(sc)
    calls = []
    orig_fn = scfgmod.SCFG.insert_block

    def spy(self, new_name, predecessors, successors, block_type):
        before = copy.deepcopy(sc)
        status = 0
        shape = ["nested" if self.region.kind != "meta" else "top", "succs=%d" % len(successors)]
        if any(isinstance(self.graph.get(p), RegionBlock) for p in predecessors):
            shape.append("region-pred")
        if any(isinstance(self.graph.get(p), SyntheticBranch) for p in predecessors):
            shape.append("branch-pred")
        if any(isinstance(self.graph.get(s), RegionBlock) for s in successors):
            shape.append("region-succ")
        try:
            orig_fn(self, new_name, predecessors, successors, block_type)
        except KeyError:
            status = 1
        except AssertionError:
            status = 2
        finally:
            calls.append((before, self.region.name, new_name, list(predecessors), list(successors),
                          block_type.__name__, status, copy.deepcopy(sc) if status == 0 else None, "/".join(shape)))
        if status == 1:
            raise KeyError("insert_block")
        if status == 2:
            raise AssertionError("insert_block")

    exc = None
    scfgmod.SCFG.insert_block = spy
    try:
        sc.join_returns()
        sc.restructure_loop()
        sc.restructure_branch()
    except Exception as e:
        exc = repr(e)[:100]
    finally:
        scfgmod.SCFG.insert_block = orig_fn
    texts = []
    skipped = 0
    shapes = []
    for before, lvl, new, preds, succs, cls, status, after, shape in calls:
        if cls not in export.CLS:
            skipped += 1
            continue
        extra = set(preds) | set(succs) | {lvl, new}
        if after is not None:
            _, tabs_a = export.export(orig, after)
            extra |= set(tabs_a["names"])
            vars_a, pls_a = set(tabs_a["vars"]), set(tabs_a["payloads"])
        else:
            vars_a, pls_a = set(), set()
        rows_b, tabs = export.export(orig, before, extra_names=extra, extra_vars=vars_a, extra_payloads=pls_a)
        ids = tabs["names"]
        if after is not None:
            rows_a, tabs2 = export.export(orig, after, extra_names=set(ids), extra_vars=set(tabs["vars"]),
                                          extra_payloads=set(tabs["payloads"]))
            if tabs2["names"] != ids or tabs2["vars"] != tabs["vars"] or tabs2["payloads"] != tabs["payloads"]:
                skipped += 1
                continue
        else:
            rows_a = []
        L = lambda xs: [len(xs)] + [ids[x] for x in xs]  # noqa: E731
        rows = [[124]] + rows_b
        rows.append([51, ids[lvl], ids[new], export.CLS[cls]] + L(preds) + L(succs))
        rows.append([50, status])
        rows += [[47] + r for r in rows_a if r[0] != 1]
        texts.append("#ib\n" + "\n".join(" ".join(map(str, r)) for r in rows) + "\n0\n")
        shapes.append(shape)
    return ("".join(texts) if texts else None), {"calls": len(calls), "skipped": skipped, "exc": exc, "shapes": shapes}


def items_for(tier, seed):
    rng = random.Random(seed + 124)
    items = []
    for s in gen_graphs.shapes():
        items.append(("shape", s))
    for i in range(500 if tier == "quick" else 10000):
        n = rng.randrange(4, 10) if i % 2 == 0 else rng.randrange(10, 18)
        items.append(("rnd", gen_graphs.random_closed(rng, n)))
    return items


def tie(tier, seed):
    common.import_repo()
    items = items_for(tier, seed)
    out, errors = par.run(items, export_item)
    agree = total = skipped = 0
    thm_yes = thm_no = thm_other = closing = rl_yes = 0
    wf_yes = wf_no_block_preds = wf_no_other = 0
    wf_unmet = []
    cons_yes = cons_no = 0
    cons_unmet = []
    thm_unmet = []
    mism = []
    shapes = {}
    for item, meta, res in out:
        if meta and "harness_error" in meta:
            errors = list(errors) + [meta]
            continue
        skipped += (meta or {}).get("skipped", 0)
        for k in (meta or {}).get("shapes", []):
            shapes[k] = shapes.get(k, 0) + 1
        if res is None:
            continue
        rs = res if (res and isinstance(res[0], list)) else [res]
        for x in rs:
            total += 1
            if len(x) >= 4:
                # fourth column: one successor, predecessors that are blocks (no regions), the hypotheses of the
                # universal path theorem hold and the hierarchy it speaks about is the one produced (1);
                # not such a call (2); such a call that does not meet them (0)
                if x[3] == 1:
                    thm_yes += 1
                elif x[3] == 2:
                    thm_other += 1
                elif x[3] == 3:
                    closing += 1
                elif x[3] == 7:
                    rl_yes += 1
                else:
                    thm_no += 1
                    if len(thm_unmet) < 4:
                        thm_unmet.append({"graph": item[1]})
            if len(x) >= 5:
                # fifth column: the call is an edit of one level that meets the conditions of the universal
                # consistency theorem (LevelWf.level_edit_keeps_wf_b) and the hierarchy it speaks about is the one
                # the implementation produced
                if x[4] == 1:
                    wf_yes += 1
                elif x[3] in (1, 3):
                    wf_no_block_preds += 1
                    if len(wf_unmet) < 4:
                        wf_unmet.append({"graph": item[1]})
                else:
                    wf_no_other += 1
            if len(x) >= 6:
                # sixth column: the conditions of the universal conservation theorem for edits of one level
                # (LevelCons.level_edit_conserves_b) hold and the hierarchy it speaks about is the one produced
                if x[5] == 1:
                    cons_yes += 1
                elif x[4] == 1:
                    cons_no += 1
                    if len(cons_unmet) < 4:
                        cons_unmet.append({"graph": item[1]})
            if x[:3] == [1, 1, 1]:
                agree += 1
            elif len(mism) < 4:
                mism.append({"graph": item[1], "columns": x})
    return {"calls_compared": total, "agree": agree, "mismatch_count": total - agree, "mismatches": mism,
            "single_successor_insertions_meeting_path_theorem_hypotheses": thm_yes,
            "single_successor_insertions_not_meeting_them": thm_no, "unmet_examples": thm_unmet,
            "closings_meeting_the_hypotheses_of_the_closing_theorem": closing,
            "region_predecessor_insertions_validated_on_the_leaf_graphs": rl_yes,
            "other_insertions": thm_other,
            "calls_meeting_consistency_theorem_conditions": wf_yes,
            "block_predecessor_calls_not_meeting_them": wf_no_block_preds, "consistency_unmet_examples": wf_unmet,
            "other_calls_not_meeting_them": wf_no_other,
            "calls_meeting_conservation_theorem_conditions": cons_yes,
            "level_edits_not_meeting_conservation_theorem_conditions": cons_no, "conservation_unmet_examples": cons_unmet,
            "calls_by_shape": shapes, "skipped": skipped, "harness_errors": [repr(e)[:200] for e in errors][:3]}

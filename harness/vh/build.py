"""Bring the Coq development up to date with /repo's working tree: re-run the
translators (Gen/*.v), make, extraction.  Serialised by a lock file."""
import fcntl
import os
import re
import subprocess

from . import common

WHITELIST = ()  # axioms allowed in Print Assumptions output (none so far)
FORBIDDEN = re.compile(
    r"\b(Admitted|admit|Axiom|Parameter|Conjecture|Unset Guard|bypass_check|"
    r"Unset Positivity|Unset Universe|type-in-type|impredicative-set)\b")


def grep_forbidden():
    bad = []
    for d, _, files in os.walk(common.COQ):
        for f in files:
            if f.endswith(".v"):
                p = os.path.join(d, f)
                for i, line in enumerate(open(p, errors="replace"), 1):
                    code = re.sub(r"\(\*.*?\*\)", "", line)
                    if FORBIDDEN.search(code):
                        bad.append("%s:%d: %s" % (os.path.relpath(p, common.COQ), i, line.strip()))
    return bad


def run_translators():
    """Regenerate coq/Gen/*.v from /repo; a file is rewritten only if its text changed."""
    from . import translate

    return translate.run_all()


def ensure_build():
    """Returns dict(ok, log, failed_files, translators)."""
    os.makedirs(common.BUILD, exist_ok=True)
    lock = open(os.path.join(common.BUILD, "build.lock"), "w")
    fcntl.flock(lock, fcntl.LOCK_EX)
    try:
        tr = run_translators()
        res = subprocess.run([os.path.join(common.VERIF, "bin", "build.sh")],
                             capture_output=True, text=True)
        log = open(os.path.join(common.BUILD, "make.log")).read() if os.path.exists(
            os.path.join(common.BUILD, "make.log")) else ""
        failed = re.findall(r'File "\./([^"]+)", line', log) if res.returncode != 0 else []
        return {"ok": res.returncode == 0, "log": (res.stdout + res.stderr)[-3000:],
                "failed_files": sorted(set(failed)), "translators": tr,
                "forbidden": grep_forbidden()}
    finally:
        fcntl.flock(lock, fcntl.LOCK_UN)
        lock.close()


def dep_closure(targets):
    """Source files (relative to coq/) the given .v files depend on, themselves included, read from
    the dependency file coq_makefile writes (.Makefile.d)."""
    deps = {}
    dfile = os.path.join(common.COQ, ".Makefile.d")
    if os.path.exists(dfile):
        for line in open(dfile):
            if ":" not in line:
                continue
            left, right = line.split(":", 1)
            outs = [x for x in left.split() if x.endswith(".vo")]
            ins = [x[:-3] + ".v" for x in right.split() if x.endswith(".vo")]
            for o in outs:
                deps[o[:-3] + ".v"] = ins
    seen, todo = set(), list(targets)
    while todo:
        x = todo.pop()
        if x in seen:
            continue
        seen.add(x)
        todo.extend(deps.get(x, []))
    return seen


def relevant_failures(pid, build):
    """What of a failed build concerns property pid: failed files and rejected translators among the
    dependencies of Props/<pid>.v and of the extracted checker (Valid/Dispatch.v), and a missing checker
    binary.  A failure elsewhere in the development is some other property's business."""
    out = []
    clo = dep_closure(["Props/%s.v" % pid, "Valid/Dispatch.v", "Extract/Extract.v"])
    if not build["ok"]:
        rel = [f for f in build["failed_files"] if f in clo]
        if rel:
            out.append("Coq build failed: " + ", ".join(rel) + " :: " + build["log"][-400:])
        elif not build["failed_files"]:
            out.append("build failed: " + build["log"][-400:])
    for tr in build.get("translators") or []:
        if tr["status"] != "ok" and ("Gen/" + tr["file"]) in clo:
            out.append("translator %s: %s" % (tr["file"], tr["status"]))
    if not os.path.exists(os.path.join(common.BUILD, "extract", "vchk")):
        out.append("extracted checker build/extract/vchk is missing")
    return out


def run_props(pid):
    """Compile Props/<pid>.v on its own and read what Print Assumptions printed.
    Returns dict(ok, theorems:[{name, assumptions}], output)."""
    src = os.path.join(common.COQ, "Props", pid + ".v")
    outdir = os.path.join(common.BUILD, "props")
    os.makedirs(outdir, exist_ok=True)
    res = subprocess.run(
        ["timeout", "600", "coqc", "-Q", common.COQ, "V", "-o", os.path.join(outdir, pid + ".vo"), src],
        capture_output=True, text=True, cwd=common.COQ)
    out = res.stdout + res.stderr
    text = open(src).read()
    names = re.findall(r"^\s*Theorem\s+(\w+)", text, re.M)
    printed = re.findall(r"^\s*Print Assumptions\s+(\w+)\.", text, re.M)
    blocks = []
    # Coq prints one block per Print Assumptions, in order
    cur = None
    for line in res.stdout.splitlines():
        if line.startswith("Closed under the global context"):
            blocks.append([])
            cur = None
        elif line.startswith("Axioms:"):
            cur = []
            blocks.append(cur)
        elif cur is not None and line.strip():
            if re.match(r"^\S", line):
                cur.append(line.strip())
            elif cur:
                cur[-1] += " " + line.strip()
    theorems = []
    for i, n in enumerate(printed):
        theorems.append({"name": n, "assumptions": blocks[i] if i < len(blocks) else ["<no output>"]})
    unprinted = [n for n in names if n not in printed]
    ok = res.returncode == 0 and len(blocks) == len(printed) and not unprinted
    bad_axioms = [a for t in theorems for a in t["assumptions"]
                  if not any(a.startswith(w) for w in WHITELIST)]
    return {"ok": ok and not bad_axioms, "theorems": theorems, "unprinted": unprinted,
            "bad_axioms": bad_axioms, "output": out[-2000:], "returncode": res.returncode}

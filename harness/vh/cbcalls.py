"""Every call of SCFG.insert_block_and_control_blocks made while the pipeline restructures a graph (any
level, predecessors of any kind, regions included): the whole hierarchy before and after the call,
compared with the line-by-line model Model/CbHier.v (CbHier.run_cbh), children in dictionary order."""
import copy
import random

from . import common, export, gen_graphs, par, stages


def export_item(item):
    from numba_scfg.core.datastructures import scfg as scfgmod
    from .checks_more import Recorder

    src, succ = item
    sc = stages.make_scfg(succ)
    orig = export.original_of(sc)
    calls = []
    orig_fn = scfgmod.SCFG.insert_block_and_control_blocks
    rec_box = []

    def spy(self, new_name, predecessors, successors):
        before = copy.deepcopy(sc)
        n0 = len(rec_box[0].events)
        status = 0
        try:
            orig_fn(self, new_name, predecessors, successors)
        except KeyError:
            status = 1
        except AssertionError:
            status = 2
        finally:
            evs = rec_box[0].events[n0:]
            calls.append((before, self.region.name, new_name, list(predecessors), list(successors),
                          [e[3] for e in evs if e[0] == "request" and e[1] == "block"],
                          [e[3] for e in evs if e[0] == "request" and e[1] == "var"],
                          status, copy.deepcopy(sc) if status == 0 else None))
        if status == 1:
            raise KeyError("insert_block_and_control_blocks")
        if status == 2:
            raise AssertionError("insert_block_and_control_blocks")

    exc = None
    with Recorder() as rec:
        rec_box.append(rec)
        scfgmod.SCFG.insert_block_and_control_blocks = spy
        try:
            sc.join_returns()
            sc.restructure_loop()
            sc.restructure_branch()
        except Exception as e:
            exc = repr(e)[:100]
        finally:
            scfgmod.SCFG.insert_block_and_control_blocks = orig_fn
    texts = []
    skipped = 0
    shapes = []
    for before, lvl, new, preds, succs, bnames, vnames, status, after in calls:
        if len(vnames) != 1:
            skipped += 1
            continue
        extra = set(preds) | set(succs) | {lvl, new} | set(bnames)
        if after is not None:
            _, tabs_a = export.export(orig, after)
            extra |= set(tabs_a["names"])
            vars_a, pls_a = set(tabs_a["vars"]) | set(vnames), set(tabs_a["payloads"])
        else:
            vars_a, pls_a = set(vnames), set()
        rows_b, tabs = export.export(orig, before, extra_names=extra, extra_vars=vars_a, extra_payloads=pls_a)
        ids, vids = tabs["names"], tabs["vars"]
        if after is not None:
            rows_a, tabs2 = export.export(orig, after, extra_names=set(ids), extra_vars=set(vids),
                                          extra_payloads=set(tabs["payloads"]))
            if tabs2["names"] != ids or tabs2["vars"] != vids or tabs2["payloads"] != tabs["payloads"]:
                skipped += 1
                continue
        else:
            rows_a = []
        L = lambda xs: [len(xs)] + [ids[x] for x in xs]  # noqa: E731
        rows = [[121]] + rows_b
        rows.append([48, ids[lvl], ids[new], vids[vnames[0]]] + L(preds) + L(succs) + L(bnames))
        rows.append([50, status])
        rows += [[47] + r for r in rows_a if r[0] != 1]
        texts.append("#cbh\n" + "\n".join(" ".join(map(str, r)) for r in rows) + "\n0\n")
        shapes.append(_shape(before, lvl, preds))
    return ("".join(texts) if texts else None), {"calls": len(calls), "skipped": skipped, "exc": exc, "shapes": shapes}


def _shape(before, lvl, preds):
    """nested level? region predecessor? branching predecessor?"""
    from numba_scfg.core.datastructures.basic_block import RegionBlock, SyntheticBranch

    def find(g):
        if g.region.name == lvl:
            return g
        for b in g.graph.values():
            if isinstance(b, RegionBlock):
                r = find(b.subregion)
                if r is not None:
                    return r
        return None

    g = find(before)
    tags = []
    tags.append("nested" if before.region.name != lvl else "top")
    if g is not None:
        if any(isinstance(g.graph.get(p), RegionBlock) for p in preds):
            tags.append("region-pred")
        if any(isinstance(g.graph.get(p), SyntheticBranch) for p in preds):
            tags.append("branch-pred")
    return "/".join(tags)


def items_for(tier, seed):
    rng = random.Random(seed + 121)
    items = []
    for s in gen_graphs.shapes():
        items.append(("shape", s))
    for i in range(700 if tier == "quick" else 12000):
        n = rng.randrange(4, 10) if i % 2 == 0 else rng.randrange(10, 18)
        items.append(("rnd", gen_graphs.random_closed(rng, n)))
    return items


def tie(tier, seed):
    common.import_repo()
    items = items_for(tier, seed)
    out, errors = par.run(items, export_item)
    agree = total = skipped = 0
    pre_met = 0
    pre_unmet = []
    walk_met = 0
    walk_unmet = []
    mism = []
    shapes = {}
    for item, meta, res in out:
        if meta and "harness_error" in meta:
            errors = list(errors) + [meta]
            continue
        skipped += (meta or {}).get("skipped", 0)
        for k in (meta or {}).get("shapes", []):
            shapes[k] = shapes.get(k, 0) + 1
        if res is None:
            continue
        rs = res if (res and isinstance(res[0], list)) else [res]
        for x in rs:
            total += 1
            if len(x) >= 4:
                # fourth column: the precondition of the totality theorem (Model/Total2.v) holds for this call
                if x[3] == 1:
                    pre_met += 1
                elif len(pre_unmet) < 4:
                    pre_unmet.append({"graph": item[1]})
                # fifth column: the hypotheses of the universal path theorem (Model/Applic.v) hold for this call
                if len(x) >= 5:
                    if x[4] == 1:
                        walk_met += 1
                    elif len(walk_unmet) < 4:
                        walk_unmet.append({"graph": item[1]})
                x = x[:3]
            if x == [1, 1, 1]:
                agree += 1
            elif len(mism) < 4:
                mism.append({"graph": item[1], "columns": x})
    return {"calls_compared": total, "agree": agree, "totality_precondition_met": pre_met,
            "totality_precondition_unmet_examples": pre_unmet,
            "path_theorem_hypotheses_met": walk_met, "path_theorem_hypotheses_unmet_examples": walk_unmet, "mismatch_count": total - agree, "mismatches": mism,
            "calls_by_shape": shapes, "skipped": skipped, "harness_errors": [repr(e)[:200] for e in errors][:3]}

"""C13: graph queries — implementation vs the proved reference definitions."""
import itertools
import random

from . import common, par

EXT = "x"


def tuples(names, maxdeg):
    out = [()]
    for d in range(1, maxdeg + 1):
        out += list(itertools.product(names, repeat=d))
    return out


def d_exh(n, maxdeg):
    names = [str(i) for i in range(n)] + [EXT]
    opts = tuples(names, maxdeg)
    for combo in itertools.product(opts, repeat=n):
        yield tuple((c, ()) for c in combo)


def d_rnd(rng, n):
    names = [str(i) for i in range(n)] + [EXT, "y"]
    g = []
    for i in range(n):
        k = rng.choice([0, 1, 1, 2, 2, 3])
        jt = tuple(rng.choice(names) for _ in range(k))
        be = tuple(t for t in set(jt) if rng.random() < 0.15)
        g.append((jt, be))
    return tuple(g)


def d_dense(rng, n):
    """Small graphs with many cycles and cross edges (several entries into a cycle, edges into
    finished subtrees): where the order in which Tarjan's algorithm meets the edges matters."""
    names = [str(i) for i in range(n)]
    g = []
    for i in range(n):
        k = rng.choice([1, 2, 2, 2, 3])
        jt = tuple(dict.fromkeys(rng.choice(names) for _ in range(k)))
        g.append((jt, ()))
    return ("light", tuple(g))


def intern(strs):
    return {s: i + 1 for i, s in enumerate(sorted(strs))}


def export_item(item):
    """item: tuple of (jt, be) per node; node i is named str(i)."""
    from numba_scfg.core.datastructures.scfg import SCFG
    from numba_scfg.core.datastructures.basic_block import BasicBlock
    from numba_scfg.core import transformations as T

    light = bool(item) and item[0] == "light"   # components, dominators and a few reachability pairs only
    if light:
        item = item[1]
    n = len(item)
    keys = [str(i) for i in range(n)]
    strs = set(keys) | {EXT, "y", "zz"}
    for jt, be in item:
        strs.update(jt)
    ids = intern(strs)
    sc = SCFG({k: BasicBlock(name=k, _jump_targets=tuple(jt), backedges=tuple(be))
               for k, (jt, be) in zip(keys, item)})
    rows = [[113]]

    def L(xs):
        xs = list(xs)
        return [len(xs)] + [ids[x] for x in xs]

    for k, (jt, be) in zip(keys, item):
        rows.append([20, ids[k]] + L(jt) + L(be))
    nq = 0
    # find_head
    try:
        rows.append([30, ids[sc.find_head()]])
    except AssertionError:
        rows.append([30, 0])
    # subset queries
    subsets = []
    if light:
        pass
    elif n <= 4:
        for r in range(0, n + 1):
            subsets += [set(c) for c in itertools.combinations(keys, r)]
    else:
        rng = random.Random(n * 7919 + len(repr(item)))
        subsets = [set(rng.sample(keys, rng.randrange(0, n + 1))) for _ in range(12)]
    for sub in subsets:
        try:
            hs, es = sc.find_headers_and_entries(set(sub))
            rows.append([31] + L(sorted(sub)) + [1] + L(hs) + L(es))
        except AssertionError:
            rows.append([31] + L(sorted(sub)) + [0, 0, 0])
        try:
            xs, es = sc.find_exiting_and_exits(set(sub))
            rows.append([32] + L(sorted(sub)) + [1] + L(xs) + L(es))
        except KeyError:
            rows.append([32] + L(sorted(sub)) + [0, 0, 0])
    # a subset naming a block that does not exist
    bad = set(keys[:1]) | {"zz"}
    try:
        xs, es = sc.find_exiting_and_exits(set(bad))
        rows.append([32] + L(sorted(bad)) + [1] + L(xs) + L(es))
    except KeyError:
        rows.append([32] + L(sorted(bad)) + [0, 0, 0])
    # reachability
    ends = keys + [EXT]
    pairs = [(a, b) for a in keys + [EXT] for b in ends]
    if n > 4 or light:
        rng = random.Random(n * 31 + len(repr(item)))
        pairs = rng.sample(pairs, min(len(pairs), 6 if light else 20))
    for a, b in pairs:
        try:
            r = 1 if sc.is_reachable_dfs(a, b) else 0
        except KeyError:
            r = 2
        rows.append([33, ids[a], ids[b], r])
    # dominators / post-dominators
    for tag, fn, raised in ((34, T._doms, 36), (35, T._post_doms, 37)):
        try:
            d = fn(sc)
            for b in keys:
                rows.append([tag, ids[b]] + L(sorted(d[b])))
        except RuntimeError:
            rows.append([raised])
    # strongly connected components
    comps = sc.compute_scc()
    row = [38, len(comps)]
    for c in comps:
        row += L(sorted(c))
    rows.append(row)
    text = "#c13\n" + "\n".join(" ".join(map(str, r)) for r in rows) + "\n0\n"
    return text, {"queries": len(rows) - 1 - n}


def items_for(tier, seed):
    items = []
    for n in (1, 2, 3):
        items += list(d_exh(n, 2))
    items += list(d_exh(1, 3)) + list(d_exh(2, 3))
    rng = random.Random(seed)
    for _ in range(200 if tier == "quick" else 6000):
        items.append(d_rnd(rng, rng.randrange(2, 31)))
    for _ in range(4000 if tier == "quick" else 80000):
        items.append(d_dense(rng, rng.randrange(4, 10)))
    if tier == "thorough":
        items += list(d_exh(3, 3))
        items += list(itertools.islice(d_exh(4, 2), 0, None, 3))
    return items


def run(tier, seed):
    items = items_for(tier, seed)
    out, errors = par.run(items, export_item)
    return items, out, errors

"""C13: graph queries — implementation vs the proved reference definitions."""
import itertools
import random

from . import common, par

EXT = "x"


def tuples(names, maxdeg):
    out = [()]
    for d in range(1, maxdeg + 1):
        out += list(itertools.product(names, repeat=d))
    return out


def d_exh(n, maxdeg):
    names = [str(i) for i in range(n)] + [EXT]
    opts = tuples(names, maxdeg)
    for combo in itertools.product(opts, repeat=n):
        yield tuple((c, ()) for c in combo)


def d_rnd(rng, n):
    names = [str(i) for i in range(n)] + [EXT, "y"]
    g = []
    for i in range(n):
        k = rng.choice([0, 1, 1, 2, 2, 3])
        jt = tuple(rng.choice(names) for _ in range(k))
        be = tuple(t for t in set(jt) if rng.random() < 0.15)
        g.append((jt, be))
    return tuple(g)


def d_dense(rng, n):
    """Small graphs with many cycles and cross edges (several entries into a cycle, edges into
    finished subtrees): where the order in which Tarjan's algorithm meets the edges matters."""
    names = [str(i) for i in range(n)]
    g = []
    for i in range(n):
        k = rng.choice([1, 2, 2, 2, 3])
        jt = tuple(dict.fromkeys(rng.choice(names) for _ in range(k)))
        g.append((jt, ()))
    return ("light", tuple(g))


def intern(strs):
    return {s: i + 1 for i, s in enumerate(sorted(strs))}


def export_item(item):
    """item: tuple of (jt, be) per node; node i is named str(i)."""
    from numba_scfg.core.datastructures.scfg import SCFG
    from numba_scfg.core.datastructures.basic_block import BasicBlock
    from numba_scfg.core import transformations as T

    light = bool(item) and item[0] == "light"   # components, dominators and a few reachability pairs only
    if light:
        item = item[1]
    n = len(item)
    keys = [str(i) for i in range(n)]
    strs = set(keys) | {EXT, "y", "zz"}
    for jt, be in item:
        strs.update(jt)
    ids = intern(strs)
    sc = SCFG({k: BasicBlock(name=k, _jump_targets=tuple(jt), backedges=tuple(be))
               for k, (jt, be) in zip(keys, item)})
    rows = [[113]]

    def L(xs):
        xs = list(xs)
        return [len(xs)] + [ids[x] for x in xs]

    for k, (jt, be) in zip(keys, item):
        rows.append([20, ids[k]] + L(jt) + L(be))
    nq = 0
    # find_head
    try:
        rows.append([30, ids[sc.find_head()]])
    except AssertionError:
        rows.append([30, 0])
    # subset queries
    subsets = []
    if light:
        pass
    elif n <= 4:
        for r in range(0, n + 1):
            subsets += [set(c) for c in itertools.combinations(keys, r)]
    else:
        rng = random.Random(n * 7919 + len(repr(item)))
        subsets = [set(rng.sample(keys, rng.randrange(0, n + 1))) for _ in range(12)]
    for sub in subsets:
        try:
            hs, es = sc.find_headers_and_entries(set(sub))
            rows.append([31] + L(sorted(sub)) + [1] + L(hs) + L(es))
        except AssertionError:
            rows.append([31] + L(sorted(sub)) + [0, 0, 0])
        try:
            xs, es = sc.find_exiting_and_exits(set(sub))
            rows.append([32] + L(sorted(sub)) + [1] + L(xs) + L(es))
        except KeyError:
            rows.append([32] + L(sorted(sub)) + [0, 0, 0])
    # a subset naming a block that does not exist
    bad = set(keys[:1]) | {"zz"}
    try:
        xs, es = sc.find_exiting_and_exits(set(bad))
        rows.append([32] + L(sorted(bad)) + [1] + L(xs) + L(es))
    except KeyError:
        rows.append([32] + L(sorted(bad)) + [0, 0, 0])
    # reachability
    ends = keys + [EXT]
    pairs = [(a, b) for a in keys + [EXT] for b in ends]
    if n > 4 or light:
        rng = random.Random(n * 31 + len(repr(item)))
        pairs = rng.sample(pairs, min(len(pairs), 6 if light else 20))
    for a, b in pairs:
        try:
            r = 1 if sc.is_reachable_dfs(a, b) else 0
        except KeyError:
            r = 2
        rows.append([33, ids[a], ids[b], r])
    # dominators / post-dominators
    for tag, fn, raised in ((34, T._doms, 36), (35, T._post_doms, 37)):
        try:
            d = fn(sc)
            for b in keys:
                rows.append([tag, ids[b]] + L(sorted(d[b])))
        except RuntimeError:
            rows.append([raised])
    # strongly connected components
    comps = sc.compute_scc()
    row = [38, len(comps)]
    for c in comps:
        row += L(sorted(c))
    rows.append(row)
    text = "#c13\n" + "\n".join(" ".join(map(str, r)) for r in rows) + "\n0\n"
    return text, {"queries": len(rows) - 1 - n}


def items_for(tier, seed):
    items = []
    for n in (1, 2, 3):
        items += list(d_exh(n, 2))
    items += list(d_exh(1, 3)) + list(d_exh(2, 3))
    rng = random.Random(seed)
    for _ in range(200 if tier == "quick" else 6000):
        items.append(d_rnd(rng, rng.randrange(2, 31)))
    for _ in range(4000 if tier == "quick" else 80000):
        items.append(d_dense(rng, rng.randrange(4, 10)))
    if tier == "thorough":
        items += list(d_exh(3, 3))
        items += list(itertools.islice(d_exh(4, 2), 0, None, 3))
    return items


def run(tier, seed):
    items = items_for(tier, seed)
    out, errors = par.run(items, export_item)
    return items, out, errors


# ---------------------------------------------------------------------------
# queries must be functions of the graph's CURRENT contents: after in-place edits the answers on the
# edited object equal the answers on a freshly built copy of the same graph
def _answers(sc, keys, rng_seed):
    from numba_scfg.core import transformations as T

    rng = random.Random(rng_seed)
    out = {}
    try:
        out["head"] = sc.find_head()
    except AssertionError:
        out["head"] = "AssertionError"
    subs = [set(rng.sample(keys, rng.randrange(0, len(keys) + 1))) for _ in range(4)]
    for i, sub in enumerate(subs):
        try:
            hs, es = sc.find_headers_and_entries(set(sub))
            out["he%d" % i] = (sorted(hs), sorted(es))
        except AssertionError:
            out["he%d" % i] = "AssertionError"
        try:
            xs, es = sc.find_exiting_and_exits(set(sub))
            out["xe%d" % i] = (sorted(xs), sorted(es))
        except KeyError:
            out["xe%d" % i] = "KeyError"
    for a in keys:
        for b in keys:
            out["r%s-%s" % (a, b)] = sc.is_reachable_dfs(a, b)
    for tag, fn in (("dom", T._doms), ("pdom", T._post_doms)):
        try:
            d = fn(sc)
            out[tag] = {k: sorted(v) for k, v in d.items()}
            out["i" + tag] = dict(T._imm_doms({k: set(v) for k, v in d.items()}))
        except RuntimeError:
            out[tag] = "RuntimeError"
        except ValueError:
            out["i" + tag] = "ValueError"
    out["scc"] = sorted(sorted(c) for c in sc.compute_scc())
    return out


def history_check(tier, seed):
    """Returns (number of comparisons, violations)."""
    from numba_scfg.core.datastructures.scfg import SCFG
    from numba_scfg.core.datastructures.basic_block import BasicBlock

    common.import_repo()
    rng = random.Random(seed + 1313)
    violations = []
    compared = 0

    def build(table):
        return SCFG({k: BasicBlock(name=k, _jump_targets=tuple(jt)) for k, jt in table.items()})

    for gi in range(60 if tier == "quick" else 1200):
        n = rng.randrange(2, 8)
        keys = [str(i) for i in range(n)]
        table = {k: tuple(dict.fromkeys(rng.choice(keys) for _ in range(rng.choice([0, 1, 2, 2])))) for k in keys}
        sc = build(table)
        history = [dict(table)]
        for step in range(4):
            qseed = rng.randrange(1 << 30)
            got = _answers(sc, keys, qseed)
            want = _answers(build(table), keys, qseed)
            compared += 1
            if got != want:
                bad = sorted(k for k in want if got.get(k) != want.get(k))
                if len(violations) < 5:
                    violations.append({"graph_history": [{k: list(v) for k, v in t.items()} for t in history],
                                       "witness": {"reason": "after in-place edits a query answers differently on the "
                                                             "edited graph object than on a freshly built copy of the "
                                                             "same graph", "queries": bad[:4],
                                                   "edited": {q: got.get(q) for q in bad[:2]},
                                                   "fresh": {q: want.get(q) for q in bad[:2]}}})
                break
            # an in-place edit that keeps the block names: re-target one block
            k = rng.choice(keys)
            table[k] = tuple(dict.fromkeys(rng.choice(keys) for _ in range(rng.choice([0, 1, 2]))))
            blk = sc.graph[k].replace_jump_targets(jump_targets=table[k]) if len(table[k]) == len(sc.graph[k]._jump_targets) \
                else BasicBlock(name=k, _jump_targets=table[k])
            if rng.random() < 0.5:
                sc.graph.pop(k)
            sc.add_block(blk)
            history.append(dict(table))
    return compared, violations

(* driver.ml — reads exported instances (rows of integers, one row per line;
   a line "0" ends an instance; a line starting with '#' is a label copied to
   the output) and prints, per instance, the label and the result codes of the
   extracted Coq function Vchk.run_any.  Trusted: int <-> Z conversion and
   line splitting below. *)
open Vchk

let rec pos_of_int n =
  if n = 1 then XH
  else if n land 1 = 0 then XO (pos_of_int (n lsr 1))
  else XI (pos_of_int (n lsr 1))

let z_of_int n =
  if n = 0 then Z0 else if n > 0 then Zpos (pos_of_int n) else Zneg (pos_of_int (-n))

let rec int_of_pos = function
  | XH -> 1
  | XO p -> 2 * int_of_pos p
  | XI p -> 2 * int_of_pos p + 1

let int_of_z = function Z0 -> 0 | Zpos p -> int_of_pos p | Zneg p -> - (int_of_pos p)

let parse_row line =
  String.split_on_char ' ' line
  |> List.filter (fun s -> s <> "")
  |> List.map (fun s -> z_of_int (int_of_string s))

let () =
  let rows = ref [] and label = ref "" in
  (try
     while true do
       let line = input_line stdin in
       if String.length line > 0 && line.[0] = '#' then label := line
       else if String.trim line = "0" then begin
         let res = run_any (List.rev !rows) in
         print_string !label;
         List.iter (fun z -> print_char ' '; print_int (int_of_z z)) res;
         print_newline ();
         rows := []; label := ""
       end else if String.trim line <> "" then rows := parse_row line :: !rows
     done
   with End_of_file -> ());
  if !rows <> [] then (prerr_endline "driver: unterminated instance"; exit 2)

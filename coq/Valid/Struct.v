(* Struct.v — property C03: the result is structured.
   Acyclicity is established by rank certificates (every edge strictly
   increases the rank), computed by untrusted code and checked here. *)
From Coq Require Import List ZArith Bool Lia.
Import ListNotations.
From V Require Import Valid.Hier Valid.FlatRegion.
Local Open Scope Z_scope.

(* ---------- S1: acyclic at every level, back edges ignored ---------- *)
Definition LevelEdge (h : hier) (x y : name) : Prop :=
  exists n m, find h x = Some n /\ In y (jump_targets n) /\
              find h y = Some m /\ n_parent m = n_parent n.

Inductive Path (E : name -> name -> Prop) : name -> name -> Prop :=
| P_one x y : E x y -> Path E x y
| P_cons x y z : E x y -> Path E y z -> Path E x z.

Definition Acyclic (E : name -> name -> Prop) : Prop := forall x, ~ Path E x x.

Lemma ranked_acyclic (E : name -> name -> Prop) (rk : name -> Z) :
  (forall x y, E x y -> rk x < rk y) -> Acyclic E.
Proof.
  intros Hr.
  assert (Hp : forall x y, Path E x y -> rk x < rk y).
  { induction 1 as [x y He|x y z He _ IH]; [apply Hr; exact He|].
    specialize (Hr _ _ He). lia. }
  intros x Hx. specialize (Hp _ _ Hx). lia.
Qed.

(* ---------- S2: the flattened graph without declared back edges ---------- *)
Definition FlatEdge (h : hier) (x y : name) : Prop :=
  exists n t, find h x = Some n /\ is_region n = false /\ In t (jump_targets n) /\
              enter_flat h (S (length h)) t = Some y.

(* ---------- S3: back edges belong to latches of loop regions ---------- *)
(* x is the block through which region L is left, following exiting blocks
   through nested regions *)
Inductive ExitChain (h : hier) : name -> name -> Prop :=
| EC_here L nL rk hd ex ch pd ok : find h L = Some nL ->
    n_kind nL = KRegion rk hd ex ch pd ok -> ExitChain h L ex
| EC_down L nL rk hd ex ch pd ok x : find h L = Some nL ->
    n_kind nL = KRegion rk hd ex ch pd ok -> ExitChain h ex x -> ExitChain h L x.

Definition BackEdgeOk (h : hier) (n : node) : Prop :=
  n_be n = [] \/
  (is_region n = false /\
   exists t, n_be n = [t] /\ In t (n_jt n) /\
   exists L nL hd ex ch pd ok, find h L = Some nL /\
     n_kind nL = KRegion 2 hd ex ch pd ok /\ hd = t /\ ExitChain h L (n_name n)).

(* ---------- S4: branches ---------- *)
Definition rkind (n : node) : Z :=
  match n_kind n with KRegion rk _ _ _ _ _ => rk | _ => 0 end.

Definition BranchOk (h : hier) (n : node) : Prop :=
  (* a block with several successors is the exiting block of a head region;
     a region with several successors is a head region *)
  ((2 <= length (jump_targets n))%nat ->
     if is_region n then rkind n = 3
     else exists p hd ch pd ok, find h (n_parent n) = Some p /\
            n_kind p = KRegion 3 hd (n_name n) ch pd ok) /\
  (* a head region continues to pairwise distinct branch regions of its level,
     each with exactly one continuation, the same tail region for all *)
  (rkind n = 3 -> n_jt n <> [] ->
     NoDup (n_jt n) /\
     exists c, (forall t, In t (n_jt n) ->
                  exists m, find h t = Some m /\ n_parent m = n_parent n /\
                            rkind m = 4 /\ n_jt m = [c]) /\
               exists mt, find h c = Some mt /\ n_parent mt = n_parent n /\ rkind mt = 5).

Definition LoopStructured (h : hier) : Prop :=
  Acyclic (LevelEdge h) /\ Acyclic (FlatEdge h) /\ forall n, In n h -> BackEdgeOk h n.

Definition Structured (h : hier) : Prop :=
  LoopStructured h /\ forall n, In n h -> n_parent n <> 0 -> BranchOk h n.

(* ---------------- checker ---------------- *)
Definition rank_of (rk : list (name * Z)) (x : name) : Z :=
  match zassoc x rk with Some r => r | None => 0 end.

Definition level_edges_ok (h : hier) (rk : list (name * Z)) : bool :=
  forallb (fun n =>
    forallb (fun y => match find h y with
                      | Some m => if Z.eqb (n_parent m) (n_parent n)
                                  then Z.ltb (rank_of rk (n_name n)) (rank_of rk y) else true
                      | None => true end) (jump_targets n)) h.

Lemma level_edges_ok_sound h rk : level_edges_ok h rk = true -> Acyclic (LevelEdge h).
Proof.
  intros H. apply (ranked_acyclic _ (rank_of rk)).
  intros x y [n [m [Hx [Hy [Hm Hp]]]]].
  unfold level_edges_ok in H. rewrite forallb_forall in H.
  destruct (find_In _ _ _ Hx) as [Hin Hn]. specialize (H _ Hin).
  rewrite forallb_forall in H. specialize (H _ Hy). rewrite Hm in H.
  rewrite Hp, Z.eqb_refl in H. apply Z.ltb_lt in H. subst x. exact H.
Qed.

Definition flat_edges_ok (h : hier) (rk : list (name * Z)) : bool :=
  forallb (fun n =>
    is_region n ||
    forallb (fun t => match enter_flat h (S (length h)) t with
                      | Some y => Z.ltb (rank_of rk (n_name n)) (rank_of rk y)
                      | None => true end) (jump_targets n)) h.

Lemma flat_edges_ok_sound h rk : flat_edges_ok h rk = true -> Acyclic (FlatEdge h).
Proof.
  intros H. apply (ranked_acyclic _ (rank_of rk)).
  intros x y [n [t [Hx [Hr [Ht He]]]]].
  unfold flat_edges_ok in H. rewrite forallb_forall in H.
  destruct (find_In _ _ _ Hx) as [Hin Hn]. specialize (H _ Hin).
  rewrite Hr in H. cbn [orb] in H.
  rewrite forallb_forall in H. specialize (H _ Ht). rewrite He in H.
  apply Z.ltb_lt in H. subst x. exact H.
Qed.

Fixpoint exit_chainb (h : hier) (fuel : nat) (L x : name) : bool :=
  match fuel with
  | O => false
  | S f =>
    match find h L with
    | Some nL => match n_kind nL with
                 | KRegion _ _ ex _ _ _ => Z.eqb ex x || exit_chainb h f ex x
                 | _ => false
                 end
    | None => false
    end
  end.

Lemma exit_chainb_sound h fuel : forall L x, exit_chainb h fuel L x = true -> ExitChain h L x.
Proof.
  induction fuel as [|f IH]; intros L x; cbn [exit_chainb]; [discriminate|].
  destruct (find h L) as [nL|] eqn:HL; [|discriminate].
  destruct (n_kind nL) as [| | | |rk hd ex ch pd ok] eqn:Hk; try discriminate.
  intros H. apply orb_true_iff in H as [H|H].
  - apply Z.eqb_eq in H. subst. eapply EC_here; eauto.
  - eapply EC_down; eauto.
Qed.

Definition backedge_ok (h : hier) (n : node) : bool :=
  match n_be n with
  | [] => true
  | [t] =>
    negb (is_region n) && zmem t (n_jt n) &&
    existsb (fun nL => match n_kind nL with
                       | KRegion rk hd _ _ _ _ =>
                         Z.eqb rk 2 && Z.eqb hd t &&
                         exit_chainb h (S (length h)) (n_name nL) (n_name n)
                       | _ => false end) h
  | _ => false
  end.

Lemma find_of_In_nodup h n : NoDup (names h) -> In n h -> find h (n_name n) = Some n.
Proof.
  induction h as [|m r IH]; intros Hnd Hin; [destruct Hin|].
  cbn [names map] in Hnd. inversion Hnd as [|? ? Hnot Hnd']; subst.
  cbn [find]. destruct Hin as [->|Hin]; [rewrite Z.eqb_refl; reflexivity|].
  destruct (Z.eqb (n_name m) (n_name n)) eqn:E.
  - apply Z.eqb_eq in E. exfalso. apply Hnot. rewrite E. apply in_map. exact Hin.
  - apply IH; assumption.
Qed.

Lemma backedge_ok_sound h n : NoDup (names h) -> backedge_ok h n = true -> BackEdgeOk h n.
Proof.
  intros Hnd. unfold backedge_ok, BackEdgeOk.
  destruct (n_be n) as [|t [|? ?]]; [left; reflexivity| |discriminate].
  intros H. right. apply andb_true_iff in H as [H H3]. apply andb_true_iff in H as [H1 H2].
  split; [apply negb_true_iff; exact H1|].
  exists t. split; [reflexivity|]. split; [apply zmem_In; exact H2|].
  apply existsb_exists in H3 as [nL [HinL HL]].
  destruct (n_kind nL) as [| | | |rk hd ex ch pd ok] eqn:Hk; try discriminate.
  apply andb_true_iff in HL as [HL Hc]. apply andb_true_iff in HL as [Hrk Hhd].
  apply Z.eqb_eq in Hrk. apply Z.eqb_eq in Hhd. subst.
  exists (n_name nL), nL, t, ex, ch, pd, ok.
  split; [apply find_of_In_nodup; assumption|].
  split; [exact Hk|]. split; [reflexivity|].
  eapply exit_chainb_sound. exact Hc.
Qed.

Definition branch_ok (h : hier) (n : node) : bool :=
  (Nat.ltb (length (jump_targets n)) 2 ||
   if is_region n then Z.eqb (rkind n) 3
   else match find h (n_parent n) with
        | Some p => match n_kind p with
                    | KRegion rk _ ex _ _ _ => Z.eqb rk 3 && Z.eqb ex (n_name n)
                    | _ => false end
        | None => false end) &&
  (negb (Z.eqb (rkind n) 3) ||
   match n_jt n with
   | [] => true
   | t0 :: _ =>
     nodupb (n_jt n) &&
     match find h t0 with
     | Some m0 =>
       match n_jt m0 with
       | [c] =>
         forallb (fun t => match find h t with
                           | Some m => Z.eqb (n_parent m) (n_parent n) && Z.eqb (rkind m) 4 &&
                                       match n_jt m with [c'] => Z.eqb c' c | _ => false end
                           | None => false end) (n_jt n) &&
         match find h c with
         | Some mt => Z.eqb (n_parent mt) (n_parent n) && Z.eqb (rkind mt) 5
         | None => false end
       | _ => false
       end
     | None => false
     end
   end).

Lemma branch_ok_sound h n : branch_ok h n = true -> BranchOk h n.
Proof.
  unfold branch_ok, BranchOk. intros H. apply andb_true_iff in H as [H1 H2]. split.
  - intros Hlen. apply orb_true_iff in H1 as [H1|H1]; [apply Nat.ltb_lt in H1; lia|].
    destruct (is_region n); [apply Z.eqb_eq; exact H1|].
    destruct (find h (n_parent n)) as [p|]; [|discriminate].
    destruct (n_kind p) as [| | | |rk hd ex ch pd ok] eqn:Hk; try discriminate.
    apply andb_true_iff in H1 as [Ha Hb]. apply Z.eqb_eq in Ha. apply Z.eqb_eq in Hb. subst.
    exists p, hd, ch, pd, ok. split; [reflexivity|exact Hk].
  - intros Hrk Hne. apply orb_true_iff in H2 as [H2|H2].
    { apply negb_true_iff in H2. apply Z.eqb_neq in H2. contradiction. }
    destruct (n_jt n) as [|t0 r] eqn:Hjt; [contradiction|].
    apply andb_true_iff in H2 as [Hnd H2]. split; [apply nodupb_NoDup; exact Hnd|].
    destruct (find h t0) as [m0|]; [|discriminate].
    destruct (n_jt m0) as [|c [|? ?]]; try discriminate.
    apply andb_true_iff in H2 as [Hall Htail]. exists c. split.
    + intros t Ht. rewrite forallb_forall in Hall. specialize (Hall _ Ht).
      destruct (find h t) as [m|]; [|discriminate].
      apply andb_true_iff in Hall as [Hall Hc]. apply andb_true_iff in Hall as [Hp Hk].
      apply Z.eqb_eq in Hp. apply Z.eqb_eq in Hk.
      destruct (n_jt m) as [|c' [|? ?]] eqn:Hjm; try discriminate. apply Z.eqb_eq in Hc. subst c'.
      exists m. repeat split; auto.
    + destruct (find h c) as [mt|]; [|discriminate].
      apply andb_true_iff in Htail as [Hp Hk]. apply Z.eqb_eq in Hp. apply Z.eqb_eq in Hk.
      exists mt. repeat split; auto.
Qed.

Definition struct_check (full : bool) (h : hier) (rkl rkf : list (name * Z)) : bool :=
  nodupb (names h) && level_edges_ok h rkl && flat_edges_ok h rkf &&
  forallb (backedge_ok h) h &&
  (negb full || forallb (fun n => Z.eqb (n_parent n) 0 || branch_ok h n) h).

Theorem struct_check_loop_sound full h rkl rkf :
  struct_check full h rkl rkf = true -> LoopStructured h.
Proof.
  unfold struct_check. intros H. apply andb_true_iff in H as [H _].
  apply andb_true_iff in H as [H H4]. apply andb_true_iff in H as [H H3].
  apply andb_true_iff in H as [H1 H2].
  split; [eapply level_edges_ok_sound; eauto|]. split; [eapply flat_edges_ok_sound; eauto|].
  intros n Hin. rewrite forallb_forall in H4. apply backedge_ok_sound; [apply nodupb_NoDup; exact H1|auto].
Qed.

Theorem struct_check_sound h rkl rkf :
  struct_check true h rkl rkf = true -> Structured h.
Proof.
  intros H. split; [eapply struct_check_loop_sound; eauto|].
  unfold struct_check in H. apply andb_true_iff in H as [_ H]. cbn in H.
  rewrite forallb_forall in H. intros n Hin Hnz. specialize (H _ Hin).
  apply orb_true_iff in H as [H|H]; [apply Z.eqb_eq in H; contradiction|].
  apply branch_ok_sound. exact H.
Qed.

(* ---------------- untrusted rank computation (longest-path relaxation) ---------------- *)
Definition relax (edges : list (name * name)) (rk : list (name * Z)) : list (name * Z) :=
  map (fun p =>
         let y := fst p in
         let best := fold_left (fun acc e => if Z.eqb (snd e) y
                                             then Z.max acc (rank_of rk (fst e) + 1) else acc)
                               edges (snd p) in
         (y, best)) rk.

Fixpoint relax_iter (rounds : nat) (edges : list (name * name)) (rk : list (name * Z)) :=
  match rounds with
  | O => rk
  | S r =>
    let rk' := relax edges rk in
    if forallb (fun p => Z.eqb (snd (fst p)) (snd (snd p))) (combine rk rk') then rk
    else relax_iter r edges rk'
  end.

Definition level_edges (h : hier) : list (name * name) :=
  flat_map (fun n =>
    flat_map (fun y => match find h y with
                       | Some m => if Z.eqb (n_parent m) (n_parent n) then [(n_name n, y)] else []
                       | None => [] end) (jump_targets n)) h.

Definition flat_edges (h : hier) : list (name * name) :=
  flat_map (fun n =>
    if is_region n then [] else
    flat_map (fun t => match enter_flat h (S (length h)) t with
                       | Some y => [(n_name n, y)]
                       | None => [] end) (jump_targets n)) h.

Definition ranks (h : hier) (edges : list (name * name)) : list (name * Z) :=
  relax_iter (S (length h)) edges (map (fun n => (n_name n, 0)) h).

Definition c03_check (full : bool) (h : hier) : bool :=
  struct_check full h (ranks h (level_edges h)) (ranks h (flat_edges h)).

(* Dispatch.v — single entry point of the extracted binary: the first row of an
   instance names the function to run. *)
From Coq Require Import List ZArith.
Import ListNotations.
From V Require Import Valid.Run Model.RunC13 Model.Edits2 Model.IterHier Model.BytecodeRun Model.Serial Model.Serial2 Model.Serial2Run Model.LoopEdit Model.Extract Model.CbHier Model.TotalRun Model.DomWlRun Model.LoopHier Model.LoopHierRun Model.UniHierRun Model.HierCols Model.LevelWfRun Model.InsHier Model.InsHierRun Model.ImmDomRun Model.Render Model.RunSrc Model.PipeRun Model.SrcRun Model.BackRun Model.SrcERun.
Local Open Scope Z_scope.

Definition run_any (rows : list (list Z)) : list Z :=
  match rows with
  | [113] :: rest => run_c13 rest
  | [114] :: rest => run_c14 rest
  | [116] :: rest => run_c16 rest
  | [109] :: rest => run_c09 rest
  | [115] :: rest => run_c15b rest
  | [117] :: rest => run_c17 rest
  | [118] :: rest => run_fromdict rest
  | [119] :: rest => run_loop rest
  | [120] :: rest => run_extract3 rest
  | [121] :: rest => run_cbh3 rest
  | [122] :: rest => run_dom rest
  | [123] :: rest => run_looph5 rest
  | [124] :: rest => run_ibh4 rest
  | [125] :: rest => run_imm rest
  | [108] :: rest => run_c08 rest
  | [110] :: rest => run_c10 rest
  | [130] :: rest => run_pipe rest
  | [140] :: rest => run_src rest
  | [160] :: rest => run_back rest
  | [170] :: rest => run_srce rest
  | [100] :: rest => run_instance rest
  | _ => run_instance rows
  end.

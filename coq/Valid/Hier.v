(* Hier.v — the data the validators work on: the implementation's real output,
   exported by harness/export.py as rows of integers and decoded here.

   Names, control variables, payload identities and class codes are integers
   allotted by the exporter (order-preserving interning: the integer order of
   two names is the order Python's sorted() gives their strings).  0 is never a
   name: it stands for None. *)
From Coq Require Import List ZArith Bool Lia.
Import ListNotations.
Local Open Scope Z_scope.

Definition name := Z.

Definition zmem (x : Z) (l : list Z) : bool := existsb (Z.eqb x) l.

Lemma zmem_In x l : zmem x l = true <-> In x l.
Proof.
  unfold zmem. rewrite existsb_exists. split.
  - intros [y [Hin He]]. apply Z.eqb_eq in He. subst. exact Hin.
  - intros H. exists x. split; [exact H|apply Z.eqb_refl].
Qed.

Lemma zmem_false x l : zmem x l = false <-> ~ In x l.
Proof.
  rewrite <- zmem_In. destruct (zmem x l); split; intros; congruence.
Qed.

Definition list_eqb (a b : list Z) : bool :=
  Nat.eqb (length a) (length b) && forallb (fun p => Z.eqb (fst p) (snd p)) (combine a b).

Lemma list_eqb_eq a b : list_eqb a b = true -> a = b.
Proof.
  unfold list_eqb. revert b. induction a as [|x a IH]; intros [|y b]; simpl; try discriminate; auto.
  intros H. apply andb_true_iff in H as [Hl H]. apply andb_true_iff in H as [Hx H].
  apply Z.eqb_eq in Hx. subst. f_equal. apply IH. rewrite Hl. exact H.
Qed.

Lemma list_eqb_refl a : list_eqb a a = true.
Proof.
  unfold list_eqb. rewrite Nat.eqb_refl. simpl. induction a as [|x a IH]; simpl; [reflexivity|].
  rewrite Z.eqb_refl. exact IH.
Qed.

Fixpoint zassoc {A} (k : Z) (l : list (Z * A)) : option A :=
  match l with
  | [] => None
  | (k', v) :: r => if Z.eqb k k' then Some v else zassoc k r
  end.

Lemma zassoc_In {A} k (l : list (Z * A)) v : zassoc k l = Some v -> In (k, v) l.
Proof.
  induction l as [|[k' v'] r IH]; simpl; [discriminate|].
  destruct (Z.eqb k k') eqn:E.
  - apply Z.eqb_eq in E. subst. intros [= ->]. left; reflexivity.
  - intros H. right. exact (IH H).
Qed.

(* ------------------------------------------------------------------ *)
(* Nodes of the exported hierarchy *)

Inductive nkind :=
| KOrig   (payload : Z)                      (* BasicBlock / PythonBytecodeBlock / PythonASTBlock *)
| KPlain  (cls : Z)                          (* SyntheticBlock, Exit, Return, Tail, Fill *)
| KAssign (a : list (Z * Z))                 (* variable ↦ value, dict order *)
| KBranch (cls : Z) (v : Z) (tbl : list (Z * name))   (* value ↦ target, dict order *)
| KRegion (rk : Z) (header exiting : name) (children : list name)
          (pdecl : name) (idok : bool).
(* rk: 1 meta 2 loop 3 head 4 branch 5 tail, other = unknown kind.
   pdecl: name of the recorded parent_region (0 = None).
   idok: identity facts observed by the exporter on the live objects:
         subregion.region.name = name, and parent_region.subregion is the
         graph object that contains this region. *)

Record node := mkNode {
  n_name : name;
  n_parent : name;           (* name of the region whose graph holds it; 0 for the top (meta) region *)
  n_jt : list name;          (* _jump_targets, back edges included *)
  n_be : list name;          (* backedges *)
  n_kind : nkind }.

Definition hier := list node.   (* every block and region at every depth; the top meta region included *)

Fixpoint find (h : hier) (x : name) : option node :=
  match h with
  | [] => None
  | n :: r => if Z.eqb (n_name n) x then Some n else find r x
  end.

Lemma find_In h x n : find h x = Some n -> In n h /\ n_name n = x.
Proof.
  induction h as [|m r IH]; simpl; [discriminate|].
  destruct (Z.eqb (n_name m) x) eqn:E.
  - intros [= ->]. apply Z.eqb_eq in E. split; [left; reflexivity|exact E].
  - intros H. destruct (IH H) as [H1 H2]. split; [right; exact H1|exact H2].
Qed.

Definition is_region (n : node) : bool :=
  match n_kind n with KRegion _ _ _ _ _ _ => true | _ => false end.

Definition names (h : hier) : list name := map n_name h.

(* jump targets without declared back edges: BasicBlock.jump_targets *)
Definition jump_targets (n : node) : list name :=
  filter (fun t => negb (zmem t (n_be n))) (n_jt n).

(* ------------------------------------------------------------------ *)
(* The original (input) graph *)

Record oblock := mkO { o_name : name; o_payload : Z; o_succ : list name }.
Definition ograph := list oblock.

Fixpoint ofind (g : ograph) (x : name) : option oblock :=
  match g with
  | [] => None
  | b :: r => if Z.eqb (o_name b) x then Some b else ofind r x
  end.

Lemma ofind_In g x b : ofind g x = Some b -> In b g /\ o_name b = x.
Proof.
  induction g as [|m r IH]; simpl; [discriminate|].
  destruct (Z.eqb (o_name m) x) eqn:E.
  - intros [= ->]. apply Z.eqb_eq in E. split; [left; reflexivity|exact E].
  - intros H. destruct (IH H) as [H1 H2]. split; [right; exact H1|exact H2].
Qed.

Definition onames (g : ograph) : list name := map o_name g.

(* the unique block no block names as a successor *)
Definition oentry (g : ograph) : option name :=
  match filter (fun b => negb (existsb (fun c => zmem (o_name b) (o_succ c)) g)) g with
  | [b] => Some (o_name b)
  | _ => None
  end.

(* ------------------------------------------------------------------ *)
(* Decoding the exporter's rows.  Every row is a list of integers whose first
   element is a tag.  Lists inside a row are length-prefixed.
     1 name payload k s1..sk                                   original block
     2 name parent payload  J jt.. B be..                      KOrig leaf
     3 name parent cls      J jt.. B be..                      KPlain leaf
     4 name parent          J jt.. B be..  A (v z)..           KAssign leaf
     5 name parent cls var  J jt.. B be..  T (z t)..           KBranch leaf
     6 name parent rk header exiting pdecl idok J jt.. B be.. C ch..   region
   A malformed row makes the whole instance undecodable (None). *)

Fixpoint take_n {A} (n : nat) (l : list A) : option (list A * list A) :=
  match n with
  | O => Some ([], l)
  | S n' => match l with
            | [] => None
            | x :: r => match take_n n' r with
                        | Some (a, b) => Some (x :: a, b)
                        | None => None
                        end
            end
  end.

Definition take_list (l : list Z) : option (list Z * list Z) :=
  match l with
  | k :: r => if Z.ltb k 0 then None else take_n (Z.to_nat k) r
  | [] => None
  end.

Fixpoint pairs (l : list Z) : option (list (Z * Z)) :=
  match l with
  | [] => Some []
  | a :: b :: r => match pairs r with Some p => Some ((a, b) :: p) | None => None end
  | _ => None
  end.

Definition take_pairs (l : list Z) : option (list (Z * Z) * list Z) :=
  match l with
  | k :: r => if Z.ltb k 0 then None else
      match take_n (2 * Z.to_nat k) r with
      | Some (a, b) => match pairs a with Some p => Some (p, b) | None => None end
      | None => None
      end
  | [] => None
  end.

Definition decode_node (row : list Z) : option node :=
  match row with
  | 2 :: nm :: par :: pl :: r =>
    match take_list r with Some (jt, r1) =>
    match take_list r1 with Some (be, []) => Some (mkNode nm par jt be (KOrig pl))
    | _ => None end | None => None end
  | 3 :: nm :: par :: cls :: r =>
    match take_list r with Some (jt, r1) =>
    match take_list r1 with Some (be, []) => Some (mkNode nm par jt be (KPlain cls))
    | _ => None end | None => None end
  | 4 :: nm :: par :: r =>
    match take_list r with Some (jt, r1) =>
    match take_list r1 with Some (be, r2) =>
    match take_pairs r2 with Some (a, []) => Some (mkNode nm par jt be (KAssign a))
    | _ => None end | None => None end | None => None end
  | 5 :: nm :: par :: cls :: v :: r =>
    match take_list r with Some (jt, r1) =>
    match take_list r1 with Some (be, r2) =>
    match take_pairs r2 with Some (t, []) => Some (mkNode nm par jt be (KBranch cls v t))
    | _ => None end | None => None end | None => None end
  | 6 :: nm :: par :: rk :: hd :: ex :: pd :: idok :: r =>
    match take_list r with Some (jt, r1) =>
    match take_list r1 with Some (be, r2) =>
    match take_list r2 with Some (ch, []) =>
      Some (mkNode nm par jt be (KRegion rk hd ex ch pd (Z.eqb idok 1)))
    | _ => None end | None => None end | None => None end
  | _ => None
  end.

Definition decode_oblock (row : list Z) : option oblock :=
  match row with
  | 1 :: nm :: pl :: r =>
    match take_list r with Some (s, []) => Some (mkO nm pl s) | _ => None end
  | _ => None
  end.

Fixpoint decode (rows : list (list Z)) : option (ograph * hier) :=
  match rows with
  | [] => Some ([], [])
  | row :: rest =>
    match decode rest with
    | None => None
    | Some (g, h) =>
      match row with
      | 1 :: _ => match decode_oblock row with Some b => Some (b :: g, h) | None => None end
      | _ => match decode_node row with Some n => Some (g, n :: h) | None => None end
      end
    end
  end.

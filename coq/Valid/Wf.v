(* Wf.v — property C04: the region hierarchy is self-consistent.
   [WfHier] is the declarative statement, [wf_check] the executable checker,
   [wf_check_sound] ties them. *)
From Coq Require Import List ZArith Bool Lia.
Import ListNotations.
From V Require Import Valid.Hier Valid.FlatRegion.
Local Open Scope Z_scope.

(* [Visible h x t]: the name t can be jumped to from block/region x — it is a
   sibling of x, or x is the exiting block of its region and t is visible from
   that region *)
Inductive Visible (h : hier) : name -> name -> Prop :=
| Vis_sib x t nx p rk hd ex ch pd ok :
    find h x = Some nx -> find h (n_parent nx) = Some p ->
    n_kind p = KRegion rk hd ex ch pd ok -> In t ch -> Visible h x t
| Vis_up x t nx p rk hd ex ch pd ok :
    find h x = Some nx -> find h (n_parent nx) = Some p ->
    n_kind p = KRegion rk hd ex ch pd ok -> x = ex ->
    Visible h (n_name p) t -> Visible h x t.

Record WfHier (h : hier) : Prop := {
  wf_nodup : NoDup (names h);
  wf_top : exists top, top_region h = Some top /\ is_region top = true;
  (* every block or region lies in the graph of the region recorded as holding it *)
  wf_up : forall n, In n h -> n_parent n <> 0 ->
      exists p rk hd ex ch pd ok, find h (n_parent n) = Some p /\
        n_kind p = KRegion rk hd ex ch pd ok /\ In (n_name n) ch;
  wf_down : forall p rk hd ex ch pd ok, In p h -> n_kind p = KRegion rk hd ex ch pd ok ->
      NoDup ch /\ forall c, In c ch -> exists n, find h c = Some n /\ n_parent n = n_name p;
  (* header and exiting block lie inside the region *)
  wf_hdr : forall p rk hd ex ch pd ok, In p h -> n_kind p = KRegion rk hd ex ch pd ok ->
      n_parent p <> 0 -> In hd ch /\ In ex ch;
  (* every jump target and back edge names something in the same region or,
     through exiting blocks only, an enclosing one *)
  wf_scope : forall n t, In n h -> n_parent n <> 0 -> In t (n_jt n ++ n_be n) ->
      Visible h (n_name n) t;
  (* a region's targets are the targets of its exiting block *)
  wf_rjt : forall p rk hd ex ch pd ok, In p h -> n_kind p = KRegion rk hd ex ch pd ok ->
      n_parent p <> 0 -> exists nex, find h ex = Some nex /\ n_jt p = jump_targets nex;
  (* the recorded parent is the region that contains it *)
  wf_parent : forall p rk hd ex ch pd ok, In p h -> n_kind p = KRegion rk hd ex ch pd ok ->
      n_parent p <> 0 -> pd = n_parent p /\ ok = true
}.

(* ---------------- checker ---------------- *)
Fixpoint visibleb (h : hier) (fuel : nat) (x t : name) : bool :=
  match fuel with
  | O => false
  | S f =>
    match find h x with
    | None => false
    | Some nx =>
      match find h (n_parent nx) with
      | None => false
      | Some p =>
        match n_kind p with
        | KRegion _ _ ex ch _ _ =>
          zmem t ch || (Z.eqb x ex && visibleb h f (n_name p) t)
        | _ => false
        end
      end
    end
  end.

Lemma visibleb_sound h fuel : forall x t, visibleb h fuel x t = true -> Visible h x t.
Proof.
  induction fuel as [|f IH]; intros x t; cbn [visibleb]; [discriminate|].
  destruct (find h x) as [nx|] eqn:Hx; [|discriminate].
  destruct (find h (n_parent nx)) as [p|] eqn:Hp; [|discriminate].
  destruct (n_kind p) as [| | | |rk hd ex ch pd ok] eqn:Hk; try discriminate.
  intros H. apply orb_true_iff in H as [H|H].
  - apply zmem_In in H. eapply Vis_sib; eauto.
  - apply andb_true_iff in H as [H1 H2]. apply Z.eqb_eq in H1.
    eapply Vis_up; eauto.
Qed.

Definition up_ok (h : hier) (n : node) : bool :=
  Z.eqb (n_parent n) 0 ||
  match find h (n_parent n) with
  | Some p => match n_kind p with
              | KRegion _ _ _ ch _ _ => zmem (n_name n) ch
              | _ => false
              end
  | None => false
  end.

Definition region_ok (h : hier) (p : node) : bool :=
  match n_kind p with
  | KRegion _ hd ex ch pd ok =>
    nodupb ch &&
    forallb (fun c => match find h c with
                      | Some n => Z.eqb (n_parent n) (n_name p)
                      | None => false end) ch &&
    (Z.eqb (n_parent p) 0 ||
     (zmem hd ch && zmem ex ch &&
      match find h ex with
      | Some nex => list_eqb (n_jt p) (jump_targets nex)
      | None => false
      end &&
      Z.eqb pd (n_parent p) && ok))
  | _ => true
  end.

Definition scope_ok (h : hier) (n : node) : bool :=
  Z.eqb (n_parent n) 0 ||
  forallb (fun t => visibleb h (S (length h)) (n_name n) t) (n_jt n ++ n_be n).

Definition wf_check (h : hier) : bool :=
  nodupb (names h) &&
  match top_region h with Some top => is_region top | None => false end &&
  forallb (up_ok h) h && forallb (region_ok h) h && forallb (scope_ok h) h.

Theorem wf_check_sound h : wf_check h = true -> WfHier h.
Proof.
  unfold wf_check. intros H.
  apply andb_true_iff in H as [H Hscope]. apply andb_true_iff in H as [H Hreg].
  apply andb_true_iff in H as [H Hup]. apply andb_true_iff in H as [Hnd Htop].
  rewrite forallb_forall in Hscope, Hreg, Hup.
  assert (Hregion : forall p rk hd ex ch pd ok, In p h -> n_kind p = KRegion rk hd ex ch pd ok ->
     (NoDup ch /\ forall c, In c ch -> exists n, find h c = Some n /\ n_parent n = n_name p) /\
     (n_parent p <> 0 -> In hd ch /\ In ex ch /\
        (exists nex, find h ex = Some nex /\ n_jt p = jump_targets nex) /\
        pd = n_parent p /\ ok = true)).
  { intros p rk hd ex ch pd ok Hin Hk. specialize (Hreg _ Hin). unfold region_ok in Hreg.
    rewrite Hk in Hreg. apply andb_true_iff in Hreg as [Hr H3]. apply andb_true_iff in Hr as [H1 H2].
    split.
    - split; [apply nodupb_NoDup; exact H1|]. intros c Hc. rewrite forallb_forall in H2.
      specialize (H2 _ Hc). destruct (find h c) as [n|]; [|discriminate].
      apply Z.eqb_eq in H2. eauto.
    - intros Hnz. apply orb_true_iff in H3 as [H3|H3]; [apply Z.eqb_eq in H3; contradiction|].
      apply andb_true_iff in H3 as [H3 Hok]. apply andb_true_iff in H3 as [H3 Hpd].
      apply andb_true_iff in H3 as [H3 Hjt]. apply andb_true_iff in H3 as [Hhd Hex].
      apply zmem_In in Hhd. apply zmem_In in Hex. apply Z.eqb_eq in Hpd.
      destruct (find h ex) as [nex|] eqn:Hf; [|discriminate]. apply list_eqb_eq in Hjt.
      repeat split; eauto. }
  constructor.
  - apply nodupb_NoDup. exact Hnd.
  - destruct (top_region h) as [top|]; [|discriminate]. exists top. split; [reflexivity|exact Htop].
  - intros n Hin Hnz. specialize (Hup _ Hin). unfold up_ok in Hup.
    apply orb_true_iff in Hup as [Hup|Hup]; [apply Z.eqb_eq in Hup; contradiction|].
    destruct (find h (n_parent n)) as [p|] eqn:Hp; [|discriminate].
    destruct (n_kind p) as [| | | |rk hd ex ch pd ok] eqn:Hk; try discriminate.
    apply zmem_In in Hup. exists p, rk, hd, ex, ch, pd, ok. auto.
  - intros p rk hd ex ch pd ok Hin Hk. exact (proj1 (Hregion _ _ _ _ _ _ _ Hin Hk)).
  - intros p rk hd ex ch pd ok Hin Hk Hnz.
    destruct (proj2 (Hregion _ _ _ _ _ _ _ Hin Hk) Hnz) as [A [B _]]. auto.
  - intros n t Hin Hnz Ht. specialize (Hscope _ Hin). unfold scope_ok in Hscope.
    apply orb_true_iff in Hscope as [Hs|Hs]; [apply Z.eqb_eq in Hs; contradiction|].
    rewrite forallb_forall in Hs. eapply visibleb_sound. apply Hs. exact Ht.
  - intros p rk hd ex ch pd ok Hin Hk Hnz.
    destruct (proj2 (Hregion _ _ _ _ _ _ _ Hin Hk) Hnz) as [_ [_ [C _]]]. exact C.
  - intros p rk hd ex ch pd ok Hin Hk Hnz.
    destruct (proj2 (Hregion _ _ _ _ _ _ _ Hin Hk) Hnz) as [_ [_ [_ D]]]. exact D.
Qed.

(* Cons.v — property C05: input blocks are conserved. *)
From Coq Require Import List ZArith Bool Lia.
Import ListNotations.
From V Require Import Valid.Hier Valid.FlatRegion.
Local Open Scope Z_scope.

(* region r encloses s: s lies in r's graph or, recursively, in the graph of a region that does *)
Inductive Encloses (h : hier) (r : name) : name -> Prop :=
| Enc_child s ns : find h s = Some ns -> n_parent ns = r -> Encloses h r s
| Enc_up s ns : find h s = Some ns -> Encloses h r (n_parent ns) -> Encloses h r s.

Fixpoint enclosesb (h : hier) (fuel : nat) (r s : name) : bool :=
  match fuel with
  | O => false
  | S f =>
    match find h s with
    | Some ns => Z.eqb (n_parent ns) r || enclosesb h f r (n_parent ns)
    | None => false
    end
  end.

Lemma enclosesb_sound h r : forall fuel s, enclosesb h fuel r s = true -> Encloses h r s.
Proof.
  induction fuel as [|f IH]; intros s H; [discriminate|]. cbn [enclosesb] in H.
  destruct (find h s) as [ns|] eqn:Hs; [|discriminate].
  apply orb_true_iff in H as [H|H].
  - apply Z.eqb_eq in H. eapply Enc_child; eauto.
  - eapply Enc_up; eauto.
Qed.

(* what an arc to s may be renamed to: an inserted block, or a region that encloses s, or a region
   entered at an inserted block (an inserted block that was wrapped afterwards) *)
Definition EntersInserted (h : hier) (t : name) : Prop :=
  exists c nc, enter_flat h (S (length h)) t = Some c /\ find h c = Some nc /\
               forall p, n_kind nc <> KOrig p.

Definition RenameOk (h : hier) (s t : name) : Prop :=
  exists nt, find h t = Some nt /\ (is_region nt = true -> Encloses h t s \/ EntersInserted h t).

Definition enters_insertedb (h : hier) (t : name) : bool :=
  match enter_flat h (S (length h)) t with
  | Some c => match find h c with
              | Some nc => match n_kind nc with KOrig _ => false | _ => true end
              | None => false
              end
  | None => false
  end.

Definition rename_okb (h : hier) (s t : name) : bool :=
  match find h t with
  | Some nt => if is_region nt then enclosesb h (S (length h)) t s || enters_insertedb h t else true
  | None => false
  end.

Lemma rename_okb_sound h s t : rename_okb h s t = true -> RenameOk h s t.
Proof.
  unfold rename_okb, RenameOk. destruct (find h t) as [nt|]; [|discriminate]. intros H.
  exists nt. split; [reflexivity|]. intros Hr. rewrite Hr in H. apply orb_true_iff in H as [H|H].
  - left. eapply enclosesb_sound; eauto.
  - right. unfold enters_insertedb in H. destruct (enter_flat h (S (length h)) t) as [c|] eqn:Ec; [|discriminate].
    destruct (find h c) as [nc|] eqn:Hc; [|discriminate]. exists c, nc. split; [exact Ec|]. split; [exact Hc|].
    intros p E. rewrite E in H. discriminate.
Qed.

(* successor tuple l' of the result against the input tuple l *)
Definition SuccOk (g : ograph) (h : hier) (l l' : list name) : Prop :=
  (length l' = length l \/
   (l = [] /\ exists t, l' = [t])) /\
  (forall i t, nth_error l' i = Some t ->
     In t (names h) /\
     (nth_error l i = Some t \/
      (~ In t (onames g) /\ forall s, nth_error l i = Some s -> RenameOk h s t))).

Record Conserved (g : ograph) (h : hier) : Prop := {
  cs_nodup_h : NoDup (names h);
  cs_nodup_g : NoDup (onames g);
  (* every input block is there (once, names being unique), same payload,
     same arity, position-wise same or renamed to something new: an inserted block,
     a region that encloses the old successor, or a region entered at an inserted block *)
  cs_kept : forall ob, In ob g ->
      exists n, find h (o_name ob) = Some n /\ n_kind n = KOrig (o_payload ob) /\
                SuccOk g h (o_succ ob) (n_jt n);
  (* nothing else claims to be an input block *)
  cs_only : forall n p, In n h -> n_kind n = KOrig p -> In (n_name n) (onames g)
}.

Fixpoint succ_okb (g : ograph) (h : hier) (l l' : list name) : bool :=
  match l', l with
  | [], [] => true
  | t :: r', s :: r =>
    zmem t (names h) && (Z.eqb t s || (negb (zmem t (onames g)) && rename_okb h s t)) && succ_okb g h r r'
  | _, _ => false
  end.

Lemma succ_okb_sound g h l : forall l', succ_okb g h l l' = true ->
  length l' = length l /\
  forall i t, nth_error l' i = Some t ->
     In t (names h) /\ (nth_error l i = Some t \/
                         (~ In t (onames g) /\ forall s0, nth_error l i = Some s0 -> RenameOk h s0 t)).
Proof.
  induction l as [|s r IH]; intros [|t r']; simpl; try discriminate.
  - intros _. split; [reflexivity|]. intros [|i] t; discriminate.
  - intros H. apply andb_true_iff in H as [H H3]. apply andb_true_iff in H as [H1 H2].
    destruct (IH _ H3) as [Hl Hp]. split; [lia|].
    intros [|i] t'; simpl.
    + intros [= <-]. split; [apply zmem_In; exact H1|].
      apply orb_true_iff in H2 as [H2|H2].
      * apply Z.eqb_eq in H2. subst. left; reflexivity.
      * right. apply andb_true_iff in H2 as [H2 H2r]. split; [apply negb_true_iff in H2; apply zmem_false; exact H2|].
        intros s0 [= <-]. apply rename_okb_sound. exact H2r.
    + apply Hp.
Qed.

Definition kept_ok (g : ograph) (h : hier) (ob : oblock) : bool :=
  match find h (o_name ob) with
  | Some n =>
    match n_kind n with
    | KOrig p =>
      Z.eqb p (o_payload ob) &&
      (succ_okb g h (o_succ ob) (n_jt n) ||
       match o_succ ob, n_jt n with
       | [], [t] => zmem t (names h) && negb (zmem t (onames g))
       | _, _ => false
       end)
    | _ => false
    end
  | None => false
  end.

Definition only_ok (g : ograph) (n : node) : bool :=
  match n_kind n with
  | KOrig _ => zmem (n_name n) (onames g)
  | _ => true
  end.

Definition cons_check (g : ograph) (h : hier) : bool :=
  nodupb (names h) && nodupb (onames g) &&
  forallb (kept_ok g h) g && forallb (only_ok g) h.

Theorem cons_check_sound g h : cons_check g h = true -> Conserved g h.
Proof.
  unfold cons_check. intros H.
  apply andb_true_iff in H as [H H4]. apply andb_true_iff in H as [H H3].
  apply andb_true_iff in H as [H1 H2].
  rewrite forallb_forall in H3, H4.
  constructor.
  - apply nodupb_NoDup; exact H1.
  - apply nodupb_NoDup; exact H2.
  - intros ob Hin. specialize (H3 _ Hin). unfold kept_ok in H3.
    destruct (find h (o_name ob)) as [n|]; [|discriminate].
    destruct (n_kind n) as [p| | | |] eqn:Hk; try discriminate.
    apply andb_true_iff in H3 as [Hp Hs]. apply Z.eqb_eq in Hp. subst p.
    exists n. split; [reflexivity|]. split; [exact Hk|].
    apply orb_true_iff in Hs as [Hs|Hs].
    + destruct (succ_okb_sound _ _ _ _ Hs) as [Hl Hpos]. split; [left; exact Hl|exact Hpos].
    + destruct (o_succ ob) as [|? ?]; [|discriminate].
      destruct (n_jt n) as [|t [|? ?]]; try discriminate.
      apply andb_true_iff in Hs as [Ha Hb].
      split; [right; split; [reflexivity|eauto]|].
      intros [|i] t'; simpl; [|destruct i; discriminate].
      intros [= <-]. split; [apply zmem_In; exact Ha|].
      right. split; [apply negb_true_iff in Hb; apply zmem_false; exact Hb|]. intros s0 Hs0. discriminate Hs0.
  - intros n p Hin Hk. specialize (H4 _ Hin). unfold only_ok in H4. rewrite Hk in H4.
    apply zmem_In. exact H4.
Qed.

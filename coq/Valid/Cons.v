(* Cons.v — property C05: input blocks are conserved. *)
From Coq Require Import List ZArith Bool Lia.
Import ListNotations.
From V Require Import Valid.Hier Valid.FlatRegion.
Local Open Scope Z_scope.

(* successor tuple l' of the result against the input tuple l *)
Definition SuccOk (g : ograph) (h : hier) (l l' : list name) : Prop :=
  (length l' = length l \/
   (l = [] /\ exists t, l' = [t])) /\
  (forall i t, nth_error l' i = Some t ->
     In t (names h) /\
     (nth_error l i = Some t \/ ~ In t (onames g))).

Record Conserved (g : ograph) (h : hier) : Prop := {
  cs_nodup_h : NoDup (names h);
  cs_nodup_g : NoDup (onames g);
  (* every input block is there (once, names being unique), same payload,
     same arity, position-wise same or renamed to something new *)
  cs_kept : forall ob, In ob g ->
      exists n, find h (o_name ob) = Some n /\ n_kind n = KOrig (o_payload ob) /\
                SuccOk g h (o_succ ob) (n_jt n);
  (* nothing else claims to be an input block *)
  cs_only : forall n p, In n h -> n_kind n = KOrig p -> In (n_name n) (onames g)
}.

Fixpoint succ_okb (g : ograph) (h : hier) (l l' : list name) : bool :=
  match l', l with
  | [], [] => true
  | t :: r', s :: r =>
    zmem t (names h) && (Z.eqb t s || negb (zmem t (onames g))) && succ_okb g h r r'
  | _, _ => false
  end.

Lemma succ_okb_sound g h l : forall l', succ_okb g h l l' = true ->
  length l' = length l /\
  forall i t, nth_error l' i = Some t ->
     In t (names h) /\ (nth_error l i = Some t \/ ~ In t (onames g)).
Proof.
  induction l as [|s r IH]; intros [|t r']; simpl; try discriminate.
  - intros _. split; [reflexivity|]. intros [|i] t; discriminate.
  - intros H. apply andb_true_iff in H as [H H3]. apply andb_true_iff in H as [H1 H2].
    destruct (IH _ H3) as [Hl Hp]. split; [lia|].
    intros [|i] t'; simpl.
    + intros [= <-]. split; [apply zmem_In; exact H1|].
      apply orb_true_iff in H2 as [H2|H2].
      * apply Z.eqb_eq in H2. subst. left; reflexivity.
      * right. apply negb_true_iff in H2. apply zmem_false. exact H2.
    + apply Hp.
Qed.

Definition kept_ok (g : ograph) (h : hier) (ob : oblock) : bool :=
  match find h (o_name ob) with
  | Some n =>
    match n_kind n with
    | KOrig p =>
      Z.eqb p (o_payload ob) &&
      (succ_okb g h (o_succ ob) (n_jt n) ||
       match o_succ ob, n_jt n with
       | [], [t] => zmem t (names h) && negb (zmem t (onames g))
       | _, _ => false
       end)
    | _ => false
    end
  | None => false
  end.

Definition only_ok (g : ograph) (n : node) : bool :=
  match n_kind n with
  | KOrig _ => zmem (n_name n) (onames g)
  | _ => true
  end.

Definition cons_check (g : ograph) (h : hier) : bool :=
  nodupb (names h) && nodupb (onames g) &&
  forallb (kept_ok g h) g && forallb (only_ok g) h.

Theorem cons_check_sound g h : cons_check g h = true -> Conserved g h.
Proof.
  unfold cons_check. intros H.
  apply andb_true_iff in H as [H H4]. apply andb_true_iff in H as [H H3].
  apply andb_true_iff in H as [H1 H2].
  rewrite forallb_forall in H3, H4.
  constructor.
  - apply nodupb_NoDup; exact H1.
  - apply nodupb_NoDup; exact H2.
  - intros ob Hin. specialize (H3 _ Hin). unfold kept_ok in H3.
    destruct (find h (o_name ob)) as [n|]; [|discriminate].
    destruct (n_kind n) as [p| | | |] eqn:Hk; try discriminate.
    apply andb_true_iff in H3 as [Hp Hs]. apply Z.eqb_eq in Hp. subst p.
    exists n. split; [reflexivity|]. split; [exact Hk|].
    apply orb_true_iff in Hs as [Hs|Hs].
    + destruct (succ_okb_sound _ _ _ _ Hs) as [Hl Hpos]. split; [left; exact Hl|exact Hpos].
    + destruct (o_succ ob) as [|? ?]; [|discriminate].
      destruct (n_jt n) as [|t [|? ?]]; try discriminate.
      apply andb_true_iff in Hs as [Ha Hb].
      split; [right; split; [reflexivity|eauto]|].
      intros [|i] t'; simpl; [|destruct i; discriminate].
      intros [= <-]. split; [apply zmem_In; exact Ha|].
      right. apply negb_true_iff in Hb. apply zmem_false. exact Hb.
  - intros n p Hin Hk. specialize (H4 _ Hin). unfold only_ok in H4. rewrite Hk in H4.
    apply zmem_In. exact H4.
Qed.

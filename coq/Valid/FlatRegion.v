(* FlatRegion.v — the two walk disciplines of property C01 and the instance
   checkers for C01 and C06.

   Flat walk: a target name is looked up globally; a region name stands for its
   declared header, recursively.
   Region walk: a target is first looked up among the siblings of the current
   block (the graph of the region that holds it).  If it is not there the block
   must be the declared exiting block of its region and the target one of the
   region's own targets — or a declared back edge of the jumping block, which a
   region's targets do not list — and the search continues one level up.
   Entering a region continues at its declared header, which must be a block
   of that region. *)
From Coq Require Import List ZArith Bool Lia.
Import ListNotations.
From V Require Import Valid.Hier Valid.Walk.
Local Open Scope Z_scope.

Fixpoint enter_flat (h : hier) (fuel : nat) (t : name) : option name :=
  match fuel with
  | O => None
  | S f =>
    match find h t with
    | None => None
    | Some n =>
      match n_kind n with
      | KRegion _ hd _ _ _ _ => enter_flat h f hd
      | _ => Some t
      end
    end
  end.

Definition resolve_flat (h : hier) (cur t : name) : option name :=
  enter_flat h (S (length h)) t.

Fixpoint enter_region (h : hier) (fuel : nat) (t : name) : option name :=
  match fuel with
  | O => None
  | S f =>
    match find h t with
    | None => None
    | Some n =>
      match n_kind n with
      | KRegion _ hd _ ch _ _ => if zmem hd ch then enter_region h f hd else None
      | _ => Some t
      end
    end
  end.

(* the name [t] as seen from block/region [x]: Some t when it is a sibling at
   the level of x or, leaving through exiting blocks only, at an enclosing level *)
Fixpoint leave (h : hier) (fuel : nat) (isbe : bool) (x t : name) : option name :=
  match fuel with
  | O => None
  | S f =>
    match find h x with
    | None => None
    | Some nx =>
      match find h (n_parent nx) with
      | None => None
      | Some p =>
        match n_kind p with
        | KRegion _ _ ex ch _ _ =>
          if zmem t ch then Some t
          else if Z.eqb x ex && (isbe || zmem t (n_jt p)) then leave h f isbe (n_name p) t
          else None
        | _ => None
        end
      end
    end
  end.

Definition resolve_region (h : hier) (cur t : name) : option name :=
  let isbe := match find h cur with Some n => zmem t (n_be n) | None => false end in
  match leave h (S (length h)) isbe cur t with
  | Some t' => enter_region h (S (length h)) t'
  | None => None
  end.

Definition resolve_of (region_walk : bool) (h : hier) : name -> name -> option name :=
  if region_walk then resolve_region h else resolve_flat h.

(* the top (meta) region: the node without parent *)
Definition top_region (h : hier) : option node :=
  match filter (fun n => Z.eqb (n_parent n) 0) h with
  | [n] => Some n
  | _ => None
  end.

(* SCFG.find_head on the graph of a region: the unique child no child names *)
Definition graph_head (h : hier) (children : list name) : option name :=
  let targeted x :=
      existsb (fun c => match find h c with
                        | Some n => zmem x (jump_targets n)
                        | None => false end) children in
  match filter (fun x => negb (targeted x)) children with
  | [x] => Some x
  | _ => None
  end.

Lemma graph_head_in h ch hd : graph_head h ch = Some hd -> In hd ch.
Proof.
  unfold graph_head.
  set (f := fun x => negb (existsb (fun c => match find h c with
                                             | Some n => zmem x (jump_targets n)
                                             | None => false end) ch)).
  destruct (filter f ch) as [|a [|? ?]] eqn:E; try discriminate.
  intros [= <-]. assert (H : In a (filter f ch)) by (rewrite E; left; reflexivity).
  apply filter_In in H as [H _]. exact H.
Qed.

Definition start_of (region_walk : bool) (h : hier) : option name :=
  match top_region h with
  | Some top =>
    match n_kind top with
    | KRegion _ _ _ ch _ _ =>
      match graph_head h ch with
      | Some hd => if region_walk then enter_region h (S (length h)) hd
                   else enter_flat h (S (length h)) hd
      | None => None
      end
    | _ => None
    end
  | None => None
  end.

Fixpoint nodupb (l : list Z) : bool :=
  match l with
  | [] => true
  | x :: r => negb (zmem x r) && nodupb r
  end.

Lemma nodupb_NoDup l : nodupb l = true -> NoDup l.
Proof.
  induction l as [|x r IH]; simpl; intros H; [constructor|].
  apply andb_true_iff in H as [H1 H2]. constructor; [|auto].
  apply negb_true_iff in H1. apply zmem_false. exact H1.
Qed.

Definition big : nat := Z.to_nat 400000.

(* ---------------- C01 ---------------- *)
Definition c01_check (region_walk : bool) (g : ograph) (h : hier) : bool :=
  nodupb (names h) &&
  match oentry g, start_of region_walk h with
  | Some en, Some st =>
    Z.eqb en st &&
    let rs := resolve_of region_walk h in
    let fuel := S (length h) in
    let R := explore h rs false big fuel [(en, [])] [] in
    sim_check h rs false g fuel R en
  | _, _ => false
  end.

Definition PathEq (region_walk : bool) (g : ograph) (h : hier) : Prop :=
  NoDup (names h) /\
  exists en, oentry g = Some en /\ start_of region_walk h = Some en /\
  forall ds, WTrace h (resolve_of region_walk h) false en [] ds
                    (fst (otrace g en ds)) (snd (otrace g en ds)).

Theorem c01_check_sound rw g h : c01_check rw g h = true -> PathEq rw g h.
Proof.
  unfold c01_check, PathEq. intros H.
  apply andb_true_iff in H as [Hnd H]. split; [apply nodupb_NoDup; exact Hnd|].
  destruct (oentry g) as [en|]; [|discriminate].
  destruct (start_of rw h) as [st|]; [|discriminate].
  apply andb_true_iff in H as [He H]. apply Z.eqb_eq in He. subst st.
  exists en. split; [reflexivity|]. split; [reflexivity|].
  eapply sim_check_sound. exact H.
Qed.

(* ---------------- C06 ---------------- *)
Definition table_ok (n : node) : bool :=
  match n_kind n with
  | KBranch _ _ tbl =>
    forallb (fun p => zmem (snd p) (n_jt n)) tbl &&
    forallb (fun t => zmem t (map snd tbl)) (n_jt n)
  | _ => true
  end.

Definition TablesOk (h : hier) : Prop :=
  forall n c v tbl, In n h -> n_kind n = KBranch c v tbl ->
    (forall z t, In (z, t) tbl -> In t (n_jt n)) /\
    (forall t, In t (n_jt n) -> exists z, In (z, t) tbl).

Lemma tables_ok_sound h : forallb table_ok h = true -> TablesOk h.
Proof.
  intros H n c v tbl Hin Hk. rewrite forallb_forall in H. specialize (H _ Hin).
  unfold table_ok in H. rewrite Hk in H. apply andb_true_iff in H as [H1 H2].
  rewrite forallb_forall in H1, H2. split.
  - intros z t Hzt. specialize (H1 _ Hzt). apply zmem_In in H1. exact H1.
  - intros t Ht. specialize (H2 _ Ht). apply zmem_In in H2. apply in_map_iff in H2.
    destruct H2 as [[z t'] [E Hin']]. cbn in E. subst. exists z. exact Hin'.
Qed.

Definition is_orig (h : hier) (x : name) : bool :=
  match find h x with
  | Some n => match n_kind n with KOrig _ => true | _ => false end
  | None => false
  end.

Definition c06_check (h : hier) : bool :=
  nodupb (names h) && forallb table_ok h &&
  match start_of false h with
  | Some st =>
    is_orig h st &&
    let rs := resolve_flat h in
    let fuel := S (length h) in
    let R := explore h rs true big fuel [(st, [])] [] in
    ctrl_check h rs true fuel R st
  | None => false
  end.

Definition CtrlSafe (h : hier) : Prop :=
  NoDup (names h) /\ TablesOk h /\
  exists st, start_of false h = Some st /\
  forall ds, CTrace h (resolve_flat h) true st [] ds.

Theorem c06_check_sound h : c06_check h = true -> CtrlSafe h.
Proof.
  unfold c06_check, CtrlSafe. intros H.
  apply andb_true_iff in H as [H H3]. apply andb_true_iff in H as [H1 H2].
  split; [apply nodupb_NoDup; exact H1|]. split; [apply tables_ok_sound; exact H2|].
  destruct (start_of false h) as [st|]; [|discriminate].
  apply andb_true_iff in H3 as [_ H3].
  exists st. split; [reflexivity|]. eapply ctrl_check_sound. exact H3.
Qed.

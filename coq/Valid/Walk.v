(* Walk.v — the path semantics of a restructured hierarchy and the closed-set
   simulation checker, proved sound once for every walk discipline.

   A walk discipline is a function [resolve cur t] : the leaf block at which
   control arrives when leaf [cur] jumps to the name [t] (None = stuck).
   FlatRegion.v instantiates it twice: by global name lookup (flat walk) and
   region by region (region walk).  [strict] switches on the C06 reading:
   a branching block must not read a control variable it has already read
   since the variable was last assigned. *)
From Coq Require Import List ZArith Bool Lia.
Import ListNotations.
From V Require Import Valid.Hier.
Local Open Scope Z_scope.

(* control environment: variable ↦ (value, branch blocks that read it since it was assigned) *)
Definition env := list (Z * (Z * list name)).

Definition elook (v : Z) (e : env) : option (Z * list name) := zassoc v e.

Definition eupd (a : list (Z * Z)) (e : env) : env :=
  map (fun p => (fst p, (snd p, @nil name))) a
  ++ filter (fun p => negb (zmem (fst p) (map fst a))) e.

Definition eread (v z : Z) (rs : list name) (cur : name) (e : env) : env :=
  (v, (z, cur :: rs)) :: filter (fun p => negb (Z.eqb (fst p) v)) e.

Inductive outcome := Reached (n : name) (e : env) | Stopped | Stuck.
Inductive status := Halted | More | Bad.

(* original graph: decision d at block n goes to the d-th successor *)
Fixpoint otrace (g : ograph) (n : name) (ds : list nat) : list name * status :=
  match ofind g n with
  | None => ([n], Bad)
  | Some b =>
    match o_succ b with
    | [] => ([n], Halted)
    | l =>
      match ds with
      | [] => ([n], More)
      | d :: ds' =>
        match nth_error l d with
        | None => ([n], Bad)
        | Some t => let r := otrace g t ds' in (n :: fst r, snd r)
        end
      end
    end
  end.

Section Walk.
Variable h : hier.
Variable resolve : name -> name -> option name.
Variable strict : bool.

Definition jt_of (n : name) : option (list name) :=
  match find h n with Some b => Some (n_jt b) | None => None end.

(* run through synthetic blocks until an original block is reached or the walk stops *)
Fixpoint srun (fuel : nat) (cur : name) (e : env) : outcome :=
  match fuel with
  | O => Stuck
  | S f =>
    match find h cur with
    | None => Stuck
    | Some b =>
      let next t e' := match resolve cur t with Some c => srun f c e' | None => Stuck end in
      match n_kind b with
      | KOrig _ => Reached cur e
      | KPlain _ => match n_jt b with
                    | [] => Stopped
                    | [t] => next t e
                    | _ => Stuck
                    end
      | KAssign a => match n_jt b with
                     | [t] => next t (eupd a e)
                     | _ => Stuck
                     end
      | KBranch _ v tbl =>
        match elook v e with
        | None => Stuck
        | Some (z, rs) =>
          match zassoc z tbl with
          | None => Stuck
          | Some t =>
            if zmem t (n_jt b) then
              if strict then
                if zmem cur rs then Stuck else next t (eread v z rs cur e)
              else next t e
            else Stuck
          end
        end
      | KRegion _ _ _ _ _ _ => Stuck
      end
    end
  end.

(* the same, without fuel: this is the meaning *)
Inductive SRun : name -> env -> outcome -> Prop :=
| SR_orig cur e b p : find h cur = Some b -> n_kind b = KOrig p -> SRun cur e (Reached cur e)
| SR_stop cur e b c : find h cur = Some b -> n_kind b = KPlain c -> n_jt b = [] -> SRun cur e Stopped
| SR_plain cur e b c t nx o : find h cur = Some b -> n_kind b = KPlain c -> n_jt b = [t] ->
    resolve cur t = Some nx -> SRun nx e o -> SRun cur e o
| SR_assign cur e b a t nx o : find h cur = Some b -> n_kind b = KAssign a -> n_jt b = [t] ->
    resolve cur t = Some nx -> SRun nx (eupd a e) o -> SRun cur e o
| SR_branch cur e b c v tbl z rs t nx o : find h cur = Some b -> n_kind b = KBranch c v tbl ->
    elook v e = Some (z, rs) -> zassoc z tbl = Some t -> zmem t (n_jt b) = true ->
    strict = false ->
    resolve cur t = Some nx -> SRun nx e o -> SRun cur e o
| SR_branch_strict cur e b c v tbl z rs t nx o : find h cur = Some b -> n_kind b = KBranch c v tbl ->
    elook v e = Some (z, rs) -> zassoc z tbl = Some t -> zmem t (n_jt b) = true ->
    strict = true -> zmem cur rs = false ->
    resolve cur t = Some nx -> SRun nx (eread v z rs cur e) o -> SRun cur e o.

(* a walk from original block n under the decision list ds: the original
   blocks visited, and how it ended *)
Inductive WTrace : name -> env -> list nat -> list name -> status -> Prop :=
| WT_halt0 n e ds : jt_of n = Some [] -> WTrace n e ds [n] Halted
| WT_halt1 n e ds t c : jt_of n = Some [t] -> resolve n t = Some c -> SRun c e Stopped ->
    WTrace n e ds [n] Halted
| WT_more n e l : jt_of n = Some l -> l <> [] ->
    (forall t c, l = [t] -> resolve n t = Some c -> ~ SRun c e Stopped) ->
    WTrace n e [] [n] More
| WT_bad n e d ds l : jt_of n = Some l -> l <> [] ->
    (forall t c, l = [t] -> resolve n t = Some c -> ~ SRun c e Stopped) ->
    nth_error l d = None -> WTrace n e (d :: ds) [n] Bad
| WT_step n e d ds l t c m e' tr st : jt_of n = Some l ->
    nth_error l d = Some t -> resolve n t = Some c -> SRun c e (Reached m e') ->
    WTrace m e' ds tr st -> WTrace n e (d :: ds) (n :: tr) st.

(* every decision list can be walked to its end without getting stuck
   (decisions beyond a block's arity end the walk) *)
Inductive CTrace : name -> env -> list nat -> Prop :=
| CT_nil n e : CTrace n e []
| CT_bad n e d ds l : jt_of n = Some l -> nth_error l d = None -> CTrace n e (d :: ds)
| CT_stop n e d ds l t c : jt_of n = Some l -> nth_error l d = Some t ->
    resolve n t = Some c -> SRun c e Stopped -> CTrace n e (d :: ds)
| CT_step n e d ds l t c m e' : jt_of n = Some l -> nth_error l d = Some t ->
    resolve n t = Some c -> SRun c e (Reached m e') -> CTrace m e' ds ->
    CTrace n e (d :: ds).

(* ---------------- abstract environments ---------------- *)
Definition le_env (a e : env) : Prop :=
  forall v x, elook v a = Some x -> elook v e = Some x.

Definition rs_eqb (a b : list name) : bool :=
  Nat.eqb (length a) (length b) && forallb (fun p => Z.eqb (fst p) (snd p)) (combine a b).

Lemma rs_eqb_eq a b : rs_eqb a b = true -> a = b.
Proof.
  unfold rs_eqb. revert b. induction a as [|x a IH]; intros [|y b]; simpl; try discriminate; auto.
  intros H. apply andb_true_iff in H as [Hl H]. apply andb_true_iff in H as [Hx H].
  apply Z.eqb_eq in Hx. subst. f_equal. apply IH. rewrite Hl. exact H.
Qed.

Definition sub (a e : env) : bool :=
  forallb (fun p => match elook (fst p) a, elook (fst p) e with
                    | Some (z1, r1), Some (z2, r2) => Z.eqb z1 z2 && rs_eqb r1 r2
                    | None, _ => true
                    | _, _ => false end) a.

Lemma zassoc_in_fst {A} k (l : list (Z * A)) v : zassoc k l = Some v -> exists v', In (k, v') l.
Proof. intros H. exists v. apply zassoc_In. exact H. Qed.

Lemma sub_le a e : sub a e = true -> le_env a e.
Proof.
  unfold sub, le_env. intros H v x Hv.
  rewrite forallb_forall in H.
  destruct (zassoc_in_fst _ _ _ Hv) as [x' Hin].
  specialize (H _ Hin). cbn [fst] in H. rewrite Hv in H. destruct x as [z1 r1].
  destruct (elook v e) as [[z2 r2]|]; [|discriminate].
  apply andb_true_iff in H as [H1 H2]. apply Z.eqb_eq in H1. apply rs_eqb_eq in H2. congruence.
Qed.

Lemma zassoc_app {A} k (l1 l2 : list (Z * A)) :
  zassoc k (l1 ++ l2) = match zassoc k l1 with Some v => Some v | None => zassoc k l2 end.
Proof.
  induction l1 as [|[k' v'] r IH]; simpl; [reflexivity|].
  destruct (Z.eqb k k'); [reflexivity|exact IH].
Qed.

Lemma zassoc_filter {A} k (p : Z -> bool) (l : list (Z * A)) :
  p k = true -> zassoc k (filter (fun q => p (fst q)) l) = zassoc k l.
Proof.
  intros Hp. induction l as [|[k' v'] r IH]; simpl; [reflexivity|].
  destruct (p k') eqn:E; simpl.
  - destruct (Z.eqb k k'); [reflexivity|exact IH].
  - destruct (Z.eqb k k') eqn:Ek; [|exact IH].
    apply Z.eqb_eq in Ek. subst. congruence.
Qed.

Lemma zassoc_map_none (a : list (Z * Z)) v :
  zassoc v (map (fun p => (fst p, (snd p, @nil name))) a) = None -> zmem v (map fst a) = false.
Proof.
  induction a as [|[k z] r IH]; simpl; [reflexivity|].
  destruct (Z.eqb v k); [discriminate|]. simpl. exact IH.
Qed.

Lemma elook_eupd a e v :
  elook v (eupd a e) =
  match zassoc v (map (fun p => (fst p, (snd p, @nil name))) a) with
  | Some x => Some x
  | None => elook v e
  end.
Proof.
  unfold elook, eupd. rewrite zassoc_app.
  destruct (zassoc v (map _ a)) eqn:E; [reflexivity|].
  apply zassoc_map_none in E.
  apply (zassoc_filter v (fun k => negb (zmem k (map fst a)))). rewrite E. reflexivity.
Qed.

Lemma le_env_upd asg a e : le_env a e -> le_env (eupd asg a) (eupd asg e).
Proof.
  unfold le_env. intros H v x. rewrite !elook_eupd.
  destruct (zassoc v (map _ asg)); [auto|apply H].
Qed.

Lemma elook_eread v z rs cur e w :
  elook w (eread v z rs cur e) = if Z.eqb w v then Some (z, cur :: rs) else elook w e.
Proof.
  unfold elook, eread. simpl. destruct (Z.eqb w v) eqn:E; [reflexivity|].
  apply (zassoc_filter w (fun k => negb (Z.eqb k v))). rewrite E. reflexivity.
Qed.

Lemma le_env_read v z rs cur a e : le_env a e -> le_env (eread v z rs cur a) (eread v z rs cur e).
Proof.
  unfold le_env. intros H w x. rewrite !elook_eread. destruct (Z.eqb w v); [auto|apply H].
Qed.

(* the fuelled run on an abstract environment is mirrored by the fuel-free run
   on every concrete environment above it *)
Lemma srun_sound fuel : forall cur a e,
  le_env a e ->
  match srun fuel cur a with
  | Reached m a' => exists e', SRun cur e (Reached m e') /\ le_env a' e'
  | Stopped => SRun cur e Stopped
  | Stuck => True
  end.
Proof.
  induction fuel as [|f IH]; intros cur a e Hle; cbn [srun]; [exact I|].
  destruct (find h cur) as [b|] eqn:Hb; [|exact I].
  destruct (n_kind b) as [p|c|asg|c v tbl|? ? ? ? ? ?] eqn:Hk.
  - exists e. split; [eapply SR_orig; eauto|exact Hle].
  - destruct (n_jt b) as [|t [|t2 r]] eqn:Hj; [eapply SR_stop; eauto| |exact I].
    destruct (resolve cur t) as [nx|] eqn:Hr; [|exact I].
    specialize (IH nx a e Hle). destruct (srun f nx a) as [m a'| |].
    + destruct IH as [e' [H1 H2]]. exists e'. split; [eapply SR_plain; eauto|exact H2].
    + eapply SR_plain; eauto.
    + exact I.
  - destruct (n_jt b) as [|t [|t2 r]] eqn:Hj; [exact I| |exact I].
    destruct (resolve cur t) as [nx|] eqn:Hr; [|exact I].
    specialize (IH nx (eupd asg a) (eupd asg e) (le_env_upd _ _ _ Hle)).
    destruct (srun f nx (eupd asg a)) as [m a'| |].
    + destruct IH as [e' [H1 H2]]. exists e'. split; [eapply SR_assign; eauto|exact H2].
    + eapply SR_assign; eauto.
    + exact I.
  - destruct (elook v a) as [[z rs]|] eqn:Hv; [|exact I].
    destruct (zassoc z tbl) as [t|] eqn:Hz; [|exact I].
    destruct (zmem t (n_jt b)) eqn:Hm; [|exact I].
    pose proof (Hle _ _ Hv) as Hv'.
    destruct strict eqn:Hs.
    + destruct (zmem cur rs) eqn:Hrd; [exact I|].
      destruct (resolve cur t) as [nx|] eqn:Hr; [|exact I].
      specialize (IH nx _ _ (le_env_read v z rs cur _ _ Hle)).
      destruct (srun f nx (eread v z rs cur a)) as [m a'| |].
      * destruct IH as [e' [H1 H2]]. exists e'. split; [eapply SR_branch_strict; eauto|exact H2].
      * eapply SR_branch_strict; eauto.
      * exact I.
    + destruct (resolve cur t) as [nx|] eqn:Hr; [|exact I].
      specialize (IH nx a e Hle). destruct (srun f nx a) as [m a'| |].
      * destruct IH as [e' [H1 H2]]. exists e'. split; [eapply SR_branch; eauto|exact H2].
      * eapply SR_branch; eauto.
      * exact I.
  - exact I.
Qed.

Lemma SRun_det cur e o1 : SRun cur e o1 -> forall o2, SRun cur e o2 -> o1 = o2.
Proof.
  induction 1 as [cur e b p Hb Hk|cur e b c Hb Hk Hj|cur e b c t nx o Hb Hk Hj Hr _ IH
                 |cur e b a t nx o Hb Hk Hj Hr _ IH
                 |cur e b c v tbl z rs t nx o Hb Hk Hv Hz Hm Hs Hr _ IH
                 |cur e b c v tbl z rs t nx o Hb Hk Hv Hz Hm Hs Hrd Hr _ IH];
    intros o2 Hsecond; inversion Hsecond; subst;
    repeat match goal with
           | H1 : ?l = Some ?x1, H2 : ?l = Some ?x2 |- _ =>
             rewrite H1 in H2; inversion H2; subst; clear H2
           | H1 : n_kind ?bb = _, H2 : n_kind ?bb = _ |- _ =>
             rewrite H1 in H2; first [discriminate H2 | inversion H2; subst; clear H2]
           | H1 : n_jt ?bb = _, H2 : n_jt ?bb = _ |- _ =>
             rewrite H1 in H2; first [discriminate H2 | inversion H2; subst; clear H2]
           end;
    try reflexivity; try congruence; try (apply IH; assumption).
Qed.

(* ---------------- the checkers ---------------- *)
Definition state := (name * env)%type.

Definition in_R (R : list state) (m : name) (a' : env) : bool :=
  existsb (fun s => Z.eqb (fst s) m && sub (snd s) a') R.

Definition Inv (R : list state) (n : name) (e : env) : Prop :=
  exists a, In (n, a) R /\ le_env a e.

Lemma in_R_inv R m a' e' : in_R R m a' = true -> le_env a' e' -> Inv R m e'.
Proof.
  unfold in_R. rewrite existsb_exists. intros [[n2 a2] [Hin H]] Hle. cbn [fst snd] in H.
  apply andb_true_iff in H as [H1 H2]. apply Z.eqb_eq in H1; subst.
  exists a2. split; [exact Hin|]. intros v z Hv. apply Hle. eapply sub_le; eauto.
Qed.

Lemma combine_nth {A B} (l1 : list A) (l2 : list B) d t m :
  nth_error l1 d = Some t -> nth_error l2 d = Some m -> In (t, m) (combine l1 l2).
Proof.
  revert l2 d. induction l1 as [|x r IH]; intros [|y r2] [|d]; simpl; try discriminate.
  - intros [= ->] [= ->]. left; reflexivity.
  - intros H1 H2. right. eapply IH; eauto.
Qed.

(* C01: every state of R simulates the original block it names *)
Definition sim_state (g : ograph) (fuel : nat) (R : list state) (s : state) : bool :=
  let '(n, a) := s in
  match ofind g n, find h n with
  | Some ob, Some b =>
    match o_succ ob with
    | [] => match n_jt b with
            | [] => true
            | [t] => match resolve n t with
                     | Some c => match srun fuel c a with Stopped => true | _ => false end
                     | None => false
                     end
            | _ => false
            end
    | l =>
      Nat.eqb (length (n_jt b)) (length l) &&
      forallb (fun tm =>
                 match resolve n (fst tm) with
                 | Some c =>
                   match srun fuel c a with
                   | Reached m' a' => Z.eqb m' (snd tm) && in_R R (snd tm) a'
                   | _ => false
                   end
                 | None => false
                 end) (combine (n_jt b) l)
    end
  | _, _ => false
  end.

Definition sim_check (g : ograph) (fuel : nat) (R : list state) (entry : name) : bool :=
  in_R R entry [] && forallb (sim_state g fuel R) R.

Lemma sim_states_sound g fuel R :
  forallb (sim_state g fuel R) R = true ->
  forall ds n e, Inv R n e -> WTrace n e ds (fst (otrace g n ds)) (snd (otrace g n ds)).
Proof.
  intros Hall. rewrite forallb_forall in Hall.
  induction ds as [|d ds IH]; intros n e [a [Hin Hle]];
      specialize (Hall _ Hin); cbn [sim_state] in Hall;
      destruct (ofind g n) as [ob|] eqn:Hl; try discriminate;
      destruct (find h n) as [b|] eqn:Hb; try discriminate;
      assert (Hjt : jt_of n = Some (n_jt b)) by (unfold jt_of; rewrite Hb; reflexivity).
    - cbn [otrace]. rewrite Hl.
      destruct (o_succ ob) as [|s0 l0] eqn:Hsucc.
      + destruct (n_jt b) as [|t [|t2 r]] eqn:Hj; try discriminate.
        * cbn [fst snd]. eapply WT_halt0; eauto.
        * destruct (resolve n t) as [c|] eqn:Hr; [|discriminate].
          pose proof (srun_sound fuel c a e Hle) as Hs.
          destruct (srun fuel c a); try discriminate. cbn [fst snd]. eapply WT_halt1; eauto.
      + apply andb_true_iff in Hall as [Hlen Hfa]. apply Nat.eqb_eq in Hlen.
        cbn [fst snd]. eapply WT_more; eauto.
        * intro E; rewrite E in Hlen; discriminate.
        * intros t c Ht Hr Hstop. rewrite Ht in Hlen, Hfa.
          destruct l0; [|discriminate]. cbn in Hfa. rewrite Hr in Hfa.
          pose proof (srun_sound fuel c a e Hle) as Hs.
          destruct (srun fuel c a) as [m a'| |]; try discriminate.
          destruct Hs as [e' [Hs _]]. pose proof (SRun_det _ _ _ Hs _ Hstop). discriminate.
    - cbn [otrace]. rewrite Hl.
      destruct (o_succ ob) as [|s0 l0] eqn:Hsucc.
      + destruct (n_jt b) as [|t [|t2 r]] eqn:Hj; try discriminate.
        * cbn [fst snd]. eapply WT_halt0; eauto.
        * destruct (resolve n t) as [c|] eqn:Hr; [|discriminate].
          pose proof (srun_sound fuel c a e Hle) as Hs.
          destruct (srun fuel c a); try discriminate. cbn [fst snd]. eapply WT_halt1; eauto.
      + apply andb_true_iff in Hall as [Hlen Hfa]. apply Nat.eqb_eq in Hlen.
        rewrite forallb_forall in Hfa.
        destruct (nth_error (s0 :: l0) d) as [m|] eqn:Hnth.
        * assert (exists t, nth_error (n_jt b) d = Some t) as [t Ht].
          { destruct (nth_error (n_jt b) d) eqn:E; [eauto|].
            apply nth_error_None in E.
            assert (d < length (s0 :: l0))%nat by (apply nth_error_Some; congruence). lia. }
          specialize (Hfa _ (combine_nth _ _ _ _ _ Ht Hnth)). cbn [fst snd] in Hfa.
          destruct (resolve n t) as [c|] eqn:Hr; [|discriminate].
          pose proof (srun_sound fuel c a e Hle) as Hs.
          destruct (srun fuel c a) as [m' a'| |]; try discriminate.
          apply andb_true_iff in Hfa as [Hm HinR]. apply Z.eqb_eq in Hm; subst m'.
          destruct Hs as [e' [Hs Hle']].
          cbn [fst snd]. eapply WT_step; eauto.
          apply IH. eapply in_R_inv; eauto.
        * cbn [fst snd]. eapply WT_bad; eauto.
          -- intro E; rewrite E in Hlen; discriminate.
          -- intros t c Ht Hr Hstop. rewrite Ht in Hlen.
             destruct l0; [|discriminate].
             assert (Hin' : In (t, s0) (combine (n_jt b) [s0])) by (rewrite Ht; left; reflexivity).
             specialize (Hfa _ Hin'). cbn [fst snd] in Hfa. rewrite Hr in Hfa.
             pose proof (srun_sound fuel c a e Hle) as Hs.
             destruct (srun fuel c a) as [m a'| |]; try discriminate.
             destruct Hs as [e' [Hs _]]. pose proof (SRun_det _ _ _ Hs _ Hstop). discriminate.
          -- apply nth_error_None. apply nth_error_None in Hnth. lia.
Qed.

Theorem sim_check_sound g fuel R entry :
  sim_check g fuel R entry = true ->
  forall ds, WTrace entry [] ds (fst (otrace g entry ds)) (snd (otrace g entry ds)).
Proof.
  unfold sim_check. intros H. apply andb_true_iff in H as [Hinit Hall].
  intros ds. apply (sim_states_sound g fuel R Hall). eapply in_R_inv; eauto. intros v z Hv. discriminate.
Qed.

(* C06: from every state of R, every successor runs to an original block of R
   or to a stop, never stuck *)
Definition ctrl_state (fuel : nat) (R : list state) (s : state) : bool :=
  let '(n, a) := s in
  match find h n with
  | Some b =>
    forallb (fun t =>
               match resolve n t with
               | Some c =>
                 match srun fuel c a with
                 | Reached m' a' => in_R R m' a'
                 | Stopped => true
                 | Stuck => false
                 end
               | None => false
               end) (n_jt b)
  | None => false
  end.

Definition ctrl_check (fuel : nat) (R : list state) (entry : name) : bool :=
  in_R R entry [] && forallb (ctrl_state fuel R) R.

Theorem ctrl_check_sound fuel R entry :
  ctrl_check fuel R entry = true -> forall ds, CTrace entry [] ds.
Proof.
  unfold ctrl_check. intros H. apply andb_true_iff in H as [Hinit Hall].
  rewrite forallb_forall in Hall.
  assert (Hmain : forall ds n e, Inv R n e -> CTrace n e ds).
  { induction ds as [|d ds IH]; intros n e [a [Hin Hle]]; [apply CT_nil|].
    specialize (Hall _ Hin). cbn [ctrl_state] in Hall.
    destruct (find h n) as [b|] eqn:Hb; [|discriminate].
    assert (Hjt : jt_of n = Some (n_jt b)) by (unfold jt_of; rewrite Hb; reflexivity).
    rewrite forallb_forall in Hall.
    destruct (nth_error (n_jt b) d) as [t|] eqn:Hn; [|eapply CT_bad; eauto].
    specialize (Hall t (nth_error_In _ _ Hn)).
    destruct (resolve n t) as [c|] eqn:Hr; [|discriminate].
    pose proof (srun_sound fuel c a e Hle) as Hs.
    destruct (srun fuel c a) as [m a'| |]; [| |discriminate].
    - destruct Hs as [e' [Hs Hle']]. eapply CT_step; eauto. apply IH. eapply in_R_inv; eauto.
    - eapply CT_stop; eauto. }
  intros ds. apply Hmain. eapply in_R_inv; eauto. intros v z Hv. discriminate.
Qed.

(* ---------------- untrusted exploration: computes a candidate R ----------------
   Nothing below is used by a soundness theorem: the checkers accept any R.
   States are stored with the environment restricted to the control variables
   that are live at the block (may be read before being assigned again);
   a wrong liveness set can only make a checker reject. *)
Definition env_eqb (a b : env) : bool := sub a b && sub b a.

Definition state_mem (s : state) (R : list state) : bool :=
  existsb (fun r => Z.eqb (fst r) (fst s) && env_eqb (snd r) (snd s)) R.

Definition uses (b : node) : list Z :=
  match n_kind b with KBranch _ v _ => [v] | _ => [] end.
Definition defs (b : node) : list Z :=
  match n_kind b with KAssign a => map fst a | _ => [] end.
Definition lmap := list (name * list Z).
Definition live_in (lm : lmap) (x : name) : list Z :=
  match zassoc x lm with Some l => l | None => [] end.
Definition zunion (a b : list Z) : list Z := a ++ filter (fun v => negb (zmem v a)) b.

Definition live_step (lm : lmap) (b : node) : list Z :=
  let out := fold_left (fun acc t =>
                          match resolve (n_name b) t with
                          | Some c => zunion acc (live_in lm c)
                          | None => acc
                          end) (n_jt b) [] in
  zunion (uses b) (filter (fun v => negb (zmem v (defs b))) out).

Definition lm_size (lm : lmap) : nat := fold_left (fun acc p => (acc + length (snd p))%nat) lm O.

Fixpoint live_iter (rounds : nat) (leaves : list node) (lm : lmap) : lmap :=
  match rounds with
  | O => lm
  | S r =>
    let lm' := map (fun b => (n_name b, live_step lm b)) leaves in
    if Nat.eqb (lm_size lm) (lm_size lm') then lm' else live_iter r leaves lm'
  end.

Definition liveness : lmap :=
  let leaves := filter (fun n => negb (is_region n)) h in
  live_iter (S (length h)) leaves (map (fun b => (n_name b, uses b)) leaves).

Definition restrict (lv : list Z) (e : env) : env := filter (fun p => zmem (fst p) lv) e.

Definition succ_states (lm : lmap) (fuel : nat) (s : state) : list state :=
  let '(n, a) := s in
  match find h n with
  | Some b =>
    flat_map (fun t =>
                match resolve n t with
                | Some c => match srun fuel c a with
                            | Reached m a' => [(m, restrict (live_in lm m) a')]
                            | _ => []
                            end
                | None => []
                end) (n_jt b)
  | None => []
  end.

Fixpoint explore_from (lm : lmap) (steps : nat) (fuel : nat) (todo : list state) (R : list state)
  : list state :=
  match steps with
  | O => R
  | S k =>
    match todo with
    | [] => R
    | s :: rest =>
      if state_mem s R then explore_from lm k fuel rest R
      else explore_from lm k fuel (succ_states lm fuel s ++ rest) (s :: R)
    end
  end.

Definition explore (steps fuel : nat) (todo R : list state) : list state :=
  explore_from liveness steps fuel todo R.

End Walk.

(* Run.v — entry point used by the extracted driver and by generated cases_*.v:
   decode one exported instance and run every checker on it. *)
From Coq Require Import List ZArith Bool.
Import ListNotations.
From V Require Import Valid.Hier Valid.Walk Valid.FlatRegion Valid.Wf Valid.Cons.
Local Open Scope Z_scope.

Definition b2z (b : bool) : Z := if b then 1 else 0.

(* result: [decoded; c01 flat; c01 region; c04; c05; c06] *)
Definition run_instance (rows : list (list Z)) : list Z :=
  match decode rows with
  | None => [0]
  | Some (g, h) =>
    [1; b2z (c01_check false g h); b2z (c01_check true g h);
     b2z (wf_check h); b2z (cons_check g h); b2z (c06_check h)]
  end.

(* Run.v — entry point used by the extracted driver and by generated cases_*.v:
   decode one exported instance and run every checker on it. *)
From Coq Require Import List ZArith Bool.
Import ListNotations.
From V Require Import Valid.Hier Valid.Walk Valid.FlatRegion Valid.Wf Valid.Cons Valid.Struct Model.RegionFlat.
Local Open Scope Z_scope.

Definition b2z (b : bool) : Z := if b then 1 else 0.

(* result: [decoded; c01 flat; c01 region; c04; c05; c06; c03 loop part; c03 full;
            the region discipline resolves every arc of every block (RegionFlat.arcs_resolve)] *)
Definition run_instance (rows : list (list Z)) : list Z :=
  match decode rows with
  | None => [0]
  | Some (g, h) =>
    [1; b2z (c01_check false g h); b2z (c01_check true g h);
     b2z (wf_check h); b2z (cons_check g h); b2z (c06_check h);
     b2z (c03_check false h); b2z (c03_check true h); b2z (arcs_resolve h)]
  end.

Definition col (k : nat) (rows : list (list Z)) : Z := nth k (run_instance rows) 0.

Lemma b2z_1 b : b2z b = 1 -> b = true.
Proof. destruct b; [reflexivity|discriminate]. Qed.

(* what a 1 in each column of the driver's output means *)
Theorem run_instance_sound rows g h :
  decode rows = Some (g, h) ->
  (col 1 rows = 1 -> PathEq false g h) /\
  (col 2 rows = 1 -> PathEq true g h) /\
  (col 3 rows = 1 -> WfHier h) /\
  (col 4 rows = 1 -> Conserved g h) /\
  (col 5 rows = 1 -> CtrlSafe h) /\
  (col 6 rows = 1 -> LoopStructured h) /\
  (col 7 rows = 1 -> Structured h).
Proof.
  intros Hd. unfold col, run_instance. rewrite Hd. cbn [nth].
  split; [intros Hc; apply b2z_1 in Hc; apply c01_check_sound; exact Hc|].
  split; [intros Hc; apply b2z_1 in Hc; apply c01_check_sound; exact Hc|].
  split; [intros Hc; apply b2z_1 in Hc; apply wf_check_sound; exact Hc|].
  split; [intros Hc; apply b2z_1 in Hc; apply cons_check_sound; exact Hc|].
  split; [intros Hc; apply b2z_1 in Hc; apply c06_check_sound; exact Hc|].
  split; [intros Hc; apply b2z_1 in Hc; eapply struct_check_loop_sound; exact Hc|].
  intros Hc; apply b2z_1 in Hc; eapply struct_check_sound; exact Hc.
Qed.

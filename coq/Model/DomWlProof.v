(* DomWlProof.v — the dominator work-list (DomWl.wl) for ALL graphs and ALL
   iteration orders of the successor sets:
   - the assertion `len(new_doms) < len(doms[n])` never fires and no key is
     missing (the table only shrinks: invariant J);
   - it terminates: the fuel |todo| + (B+1) * sum of the set sizes suffices;
   - the result is the dominance relation of the reference definition
     (Queries.Dominates), whatever the order in which successors were pushed —
     so the result does not depend on the iteration order of Python sets. *)
From Coq Require Import List ZArith Bool Lia Sorted Permutation.
Import ListNotations.
From V Require Import Valid.Hier Model.Graph Model.Edits Model.Edits3 Model.Queries Model.DomWl.
Local Open Scope Z_scope.

(* ---------- sorted lists as sets ---------- *)
Lemma sorted_filter (f : Z -> bool) l : StronglySorted Z.lt l -> StronglySorted Z.lt (filter f l).
Proof.
  induction 1 as [|x l Hs IH Hall]; cbn; [constructor|]. destruct (f x); [|exact IH].
  constructor; [exact IH|]. rewrite Forall_forall in *. intros y Hy. apply filter_In in Hy as [Hy _]. auto.
Qed.

Lemma sorted_ext l1 : forall l2, StronglySorted Z.lt l1 -> StronglySorted Z.lt l2 ->
  (forall x, In x l1 <-> In x l2) -> l1 = l2.
Proof.
  induction l1 as [|x r IH]; intros [|y s] H1 H2 Hx.
  - reflexivity.
  - exfalso. apply (proj2 (Hx y)). left; reflexivity.
  - exfalso. apply (proj1 (Hx x)). left; reflexivity.
  - inversion H1 as [|? ? Hs1 Ha1]; subst. inversion H2 as [|? ? Hs2 Ha2]; subst.
    rewrite Forall_forall in Ha1, Ha2.
    assert (x = y).
    { destruct (proj1 (Hx x) (or_introl eq_refl)) as [->|Hin]; [reflexivity|].
      destruct (proj2 (Hx y) (or_introl eq_refl)) as [->|Hin2]; [reflexivity|].
      specialize (Ha2 x Hin). specialize (Ha1 y Hin2). lia. }
    subst y. f_equal. apply IH; auto. intros z. split; intros Hz.
    + destruct (proj1 (Hx z) (or_intror Hz)) as [->|H]; [|exact H]. specialize (Ha1 z Hz). lia.
    + destruct (proj2 (Hx z) (or_intror Hz)) as [->|H]; [|exact H]. specialize (Ha2 z Hz). lia.
Qed.

Lemma sorted_strict_subset l1 l2 :
  StronglySorted Z.lt l1 -> StronglySorted Z.lt l2 -> incl l1 l2 -> l1 <> l2 -> (length l1 < length l2)%nat.
Proof.
  intros H1 H2 Hi Hne.
  pose proof (NoDup_incl_length (sorted_nodup _ H1) Hi) as Hle.
  destruct (Nat.eq_dec (length l1) (length l2)) as [E|E]; [|lia].
  exfalso. apply Hne. apply sorted_ext; auto. intros x. split; [apply Hi|].
  apply (NoDup_length_incl (sorted_nodup _ H1)); [lia|exact Hi].
Qed.

Lemma inter_In a b x : In x (inter a b) <-> In x a /\ In x b.
Proof. unfold inter. rewrite filter_In, zmem_In. tauto. Qed.

Lemma fold_inter_In r : forall d x, In x (fold_left inter r d) <-> In x d /\ forall s, In s r -> In x s.
Proof.
  induction r as [|s r IH]; intros d x; cbn.
  - split; [intros H; split; [exact H|intros ? []]|tauto].
  - rewrite IH, inter_In. split.
    + intros [[H1 H2] H3]. split; [exact H1|]. intros s' [<-|Hs]; auto.
    + intros [H1 H2]. split; [split; [exact H1|apply H2; left; reflexivity]|]. intros s' Hs. apply H2. right. exact Hs.
Qed.

Lemma fold_inter_sorted r : forall d, StronglySorted Z.lt d -> StronglySorted Z.lt (fold_left inter r d).
Proof. induction r as [|s r IH]; intros d Hd; cbn; [exact Hd|]. apply IH. apply sorted_filter. exact Hd. Qed.

Definition dget (D : dmap) (n : name) : list name := match zassoc n D with Some s => s | None => [] end.

Section Proof.
Variable nodes : list name.
Variable preds succs : name -> list name.
Variable B : nat.

Hypothesis Hnd : NoDup nodes.
Hypothesis Hp : forall n, In n nodes -> incl (preds n) nodes.
Hypothesis Hs : forall n, In n nodes -> incl (succs n) nodes.
Hypothesis Hps : forall n p, In n nodes -> In p nodes -> (In p (preds n) <-> In n (succs p)).
Hypothesis HB : forall n, (length (succs n) <= B)%nat.

(* the entry points are the nodes without predecessor (as _doms and _post_doms compute them) *)
Variable entries : list name.
Hypothesis Hents : forall n, In n entries <-> In n nodes /\ preds n = [].

Lemma entries_spec n : In n entries <-> In n nodes /\ preds n = [].
Proof. apply Hents. Qed.

Lemma dentries_spec n : In n (dentries nodes preds) <-> In n nodes /\ preds n = [].
Proof.
  unfold dentries. rewrite filter_In. split; intros [H1 H2]; split; auto.
  - destruct (preds n); [reflexivity|discriminate].
  - rewrite H2. reflexivity.
Qed.

Lemma dentries_entries n : In n (dentries nodes preds) <-> In n entries.
Proof. rewrite dentries_spec, entries_spec. tauto. Qed.

Notation Dom := (Dominates nodes succs preds).

(* new_doms[n] as a predicate *)
Definition InF (D : dmap) (n a : name) : Prop :=
  a = n \/ (preds n <> [] /\ forall p, In p (preds n) -> In a (dget D p)).

Lemma gather_spec D : forall ps ds, gather D ps = Some ds ->
  Forall2 (fun p s => zassoc p D = Some s) ps ds.
Proof.
  induction ps as [|p r IH]; intros ds H; cbn in H.
  - injection H as <-. constructor.
  - destruct (zassoc p D) as [s|] eqn:E; [|discriminate]. destruct (gather D r) as [l|]; [|discriminate].
    injection H as <-. constructor; auto.
Qed.

Lemma gather_total D : forall ps, (forall p, In p ps -> zassoc p D <> None) -> exists ds, gather D ps = Some ds.
Proof.
  induction ps as [|p r IH]; intros H; cbn; [eauto|].
  destruct (zassoc p D) as [s|] eqn:E; [|exfalso; apply (H p (or_introl eq_refl)); exact E].
  destruct IH as [l El]; [intros q Hq; apply H; right; exact Hq|]. rewrite El. eauto.
Qed.

Lemma new_doms_spec D n ds : gather D (preds n) = Some ds ->
  forall a, In a (new_doms n ds) <-> InF D n a.
Proof.
  intros Hg a. apply gather_spec in Hg. unfold new_doms, InF.
  remember (preds n) as ps0 eqn:Eps. clear Eps.
  destruct Hg as [|p s ps ds' Hps0 Hrest].
  - cbn. split; [intros [<-|[]]; left; reflexivity|intros [->|[H _]]; [left; reflexivity|exfalso; apply H; reflexivity]].
  - rewrite zinsert_In, fold_inter_In. split.
    + intros [->|[H1 H2]]; [left; reflexivity|right]. split; [discriminate|].
      intros q [<-|Hq].
      * unfold dget. rewrite Hps0. exact H1.
      * clear -Hrest Hq H2. induction Hrest as [|p' s' ps' ds'' E _ IH]; [destruct Hq|].
        destruct Hq as [<-|Hq].
        -- unfold dget. rewrite E. apply H2. left; reflexivity.
        -- apply IH; auto. intros s0 Hs0. apply H2. right. exact Hs0.
    + intros [->|[_ H]]; [left; reflexivity|right]. split.
      * specialize (H p (or_introl eq_refl)). unfold dget in H. rewrite Hps0 in H. exact H.
      * intros s0 Hs0. clear -Hrest Hs0 H. induction Hrest as [|p' s' ps' ds'' E _ IH]; [destruct Hs0|].
        destruct Hs0 as [<-|Hs0].
        -- specialize (H p' (or_intror (or_introl eq_refl))). unfold dget in H. rewrite E in H. exact H.
        -- apply IH; auto. intros q [<-|Hq]; apply H; [left; reflexivity|right; right; exact Hq].
Qed.

Lemma new_doms_sorted D n ds : gather D (preds n) = Some ds ->
  (forall p s, zassoc p D = Some s -> StronglySorted Z.lt s) -> StronglySorted Z.lt (new_doms n ds).
Proof.
  intros Hg Hsort. apply gather_spec in Hg. unfold new_doms.
  destruct Hg as [|p s ps ds' E _]; [repeat constructor|].
  apply zinsert_sorted, fold_inter_sorted. eapply Hsort; eauto.
Qed.

(* ---------- the invariant ---------- *)
Record Inv (D : dmap) (stk : list name) : Prop := {
  iK : forall n, In n nodes -> exists s, zassoc n D = Some s;
  iSorted : forall p s, zassoc p D = Some s -> StronglySorted Z.lt s;
  iStk : incl stk nodes;
  iR : forall m, In m nodes -> incl (dget D m) nodes;
  iJ : forall n, In n nodes -> ~ In n entries -> forall a, InF D n a -> In a (dget D n);
  iW : forall m, In m nodes -> ~ In m entries -> ~ In m stk -> forall a, In a (dget D m) -> InF D m a;
  iE : forall e, In e entries -> dget D e = [e];
  iS : forall a m, In a nodes -> In m nodes -> Dom a m -> In a (dget D m) }.

Lemma dget_dset D n v m : dget (dset D n v) m = if Z.eqb m n then v else dget D m.
Proof. unfold dget. rewrite zassoc_dset. destruct (Z.eqb m n); reflexivity. Qed.

Lemma InF_mono D D' n a : (forall m, incl (dget D' m) (dget D m)) -> InF D' n a -> InF D n a.
Proof. intros H [->|[H1 H2]]; [left; reflexivity|right]. split; [exact H1|]. intros p Hpp. apply H, H2, Hpp. Qed.

Lemma dom_pred a n p : In n nodes -> In p nodes -> Dom a n -> a <> n -> In p (preds n) -> Dom a p.
Proof.
  intros Hn Hpn Hd Hne Hpp. destruct (Z.eq_dec a p) as [->|Hap]; [left; reflexivity|right].
  intros e He Hea Hr. destruct Hd as [->|Hd]; [contradiction|]. apply (Hd e He Hea).
  eapply R_step; [exact Hr|]. unfold sx_avoid. destruct (Z.eqb_spec p a) as [->|_]; [contradiction|].
  apply Hps; auto.
Qed.

Definition wt (D : dmap) : nat := fold_right (fun n acc => (length (dget D n) + acc)%nat) 0%nat nodes.

Lemma wt_update D n v : In n nodes -> (length v < length (dget D n))%nat ->
  (wt (dset D n v) < wt D)%nat.
Proof.
  unfold wt. revert Hnd. generalize nodes as L. induction L as [|x r IH]; intros Hnd0 Hin Hlt; [destruct Hin|].
  cbn [fold_right]. rewrite dget_dset. inversion Hnd0 as [|? ? Hnx Hnr]; subst.
  destruct Hin as [->|Hin].
  - rewrite Z.eqb_refl.
    assert (E : fold_right (fun n0 acc => (length (dget (dset D n v) n0) + acc)%nat) 0%nat r =
                fold_right (fun n0 acc => (length (dget D n0) + acc)%nat) 0%nat r).
    { clear -Hnx. induction r as [|y r IHr]; [reflexivity|]. cbn [fold_right]. rewrite dget_dset.
      destruct (Z.eqb_spec y n) as [->|_]; [exfalso; apply Hnx; left; reflexivity|].
      rewrite IHr; [reflexivity|]. intros Hi. apply Hnx. right. exact Hi. }
    rewrite E. lia.
  - destruct (Z.eqb_spec x n) as [->|_]; [contradiction|]. specialize (IH Hnr Hin Hlt). lia.
Qed.

Definition mu (D : dmap) (stk : list name) : nat := (length stk + (B + 1) * wt D)%nat.

(* ---------- one theorem: termination, no assertion, no key error, and the final invariant ---------- *)
Theorem wl_total : forall fuel D stk lg,
  Inv D stk -> (mu D stk < fuel)%nat ->
  exists D' lg', wl entries preds succs fuel D stk lg = WOk D' lg' /\ Inv D' [].
Proof.
  induction fuel as [|f IH]; intros D stk lg HI Hmu; [lia|]. cbn [wl].
  destruct stk as [|n t].
  - exists D, (rev lg). split; [reflexivity|exact HI].
  - assert (Hn : In n nodes) by (apply (iStk _ _ HI); left; reflexivity).
    assert (Ht : incl t nodes) by (intros x Hx; apply (iStk _ _ HI); right; exact Hx).
    destruct (zmem n entries) eqn:Hent.
    + (* an entry: skipped *)
      apply zmem_In in Hent. apply IH.
      * destruct HI. constructor; auto.
        intros m Hm Hme Hmt. apply iW0; auto. intros [->|Hi]; contradiction.
      * unfold mu in *. cbn [length] in Hmu. lia.
    + apply zmem_false in Hent.
      destruct (gather_total D (preds n)) as [ds Hg].
      { intros p Hpp. destruct (iK _ _ HI p (Hp n Hn p Hpp)) as [s E]. rewrite E. discriminate. }
      rewrite Hg. destruct (iK _ _ HI n Hn) as [old Eold]. rewrite Eold.
      pose proof (new_doms_spec D n ds Hg) as Hnew.
      pose proof (new_doms_sorted D n ds Hg (iSorted _ _ HI)) as Hsorted.
      assert (Hold : dget D n = old) by (unfold dget; rewrite Eold; reflexivity).
      assert (Hincl : incl (new_doms n ds) old).
      { intros a Ha. rewrite <- Hold. apply (iJ _ _ HI n Hn Hent). apply Hnew. exact Ha. }
      destruct (list_eqb (new_doms n ds) old) eqn:Heq.
      * (* unchanged *)
        apply list_eqb_eq in Heq. apply IH.
        -- destruct HI. constructor; auto.
           intros m Hm Hme Hmt a Ha. destruct (Z.eq_dec m n) as [->|Hmn].
           ++ apply Hnew. rewrite Heq, <- Hold. exact Ha.
           ++ apply iW0; auto. intros [E|Hi]; [congruence|contradiction].
        -- unfold mu in *. cbn [length] in Hmu. lia.
      * (* changed: strictly smaller *)
        assert (Hne : new_doms n ds <> old) by (intros E; rewrite E, list_eqb_refl in Heq; discriminate).
        pose proof (sorted_strict_subset _ _ Hsorted (iSorted _ _ HI n old Eold) Hincl Hne) as Hlt.
        match goal with |- context [Nat.ltb ?x ?y] => destruct (Nat.ltb_spec x y) as [_|Hge] end;
          [|exfalso; exact (Nat.lt_irrefl _ (Nat.lt_le_trans _ _ _ Hlt Hge))].
        set (new := new_doms n ds) in *.
        assert (Hmono : forall m, incl (dget (dset D n new) m) (dget D m)).
        { intros m. rewrite dget_dset. destruct (Z.eqb_spec m n) as [->|_]; [rewrite Hold; exact Hincl|apply incl_refl]. }
        apply IH.
        -- constructor.
           ++ intros m Hm. rewrite zassoc_dset. destruct (Z.eqb m n); [eauto|apply (iK _ _ HI m Hm)].
           ++ intros p s. rewrite zassoc_dset. destruct (Z.eqb p n); [intros [= <-]; exact Hsorted|apply (iSorted _ _ HI)].
           ++ intros x Hx. apply in_app_or in Hx as [Hx|Hx]; [apply (Hs n Hn), in_rev, Hx|apply Ht, Hx].
           ++ intros m Hm. eapply incl_tran; [apply Hmono|apply (iR _ _ HI m Hm)].
           ++ intros m Hm Hme a Ha. apply (InF_mono D) in Ha; [|exact Hmono].
              rewrite dget_dset. destruct (Z.eqb_spec m n) as [->|_]; [apply Hnew; exact Ha|apply (iJ _ _ HI m Hm Hme a Ha)].
           ++ intros m Hm Hme Hmt a Ha.
              assert (Hns : ~ In m (succs n)) by (intros Hi; apply Hmt, in_or_app; left; apply in_rev in Hi; exact Hi || (rewrite <- in_rev; exact Hi)).
              assert (Hnp : ~ In n (preds m)) by (intros Hi; apply Hns; apply (Hps m n Hm Hn); exact Hi).
              assert (Hsame : forall p, In p (preds m) -> dget (dset D n new) p = dget D p).
              { intros p Hpp. rewrite dget_dset. destruct (Z.eqb_spec p n) as [->|_]; [contradiction|reflexivity]. }
              assert (HF : InF D m a).
              { rewrite dget_dset in Ha. destruct (Z.eqb_spec m n) as [->|Hmn].
                - apply Hnew. exact Ha.
                - apply (iW _ _ HI m Hm Hme); [|exact Ha]. intros [E|Hi]; [congruence|].
                  apply Hmt, in_or_app. right. exact Hi. }
              destruct HF as [->|[H1 H2]]; [left; reflexivity|right]. split; [exact H1|].
              intros p Hpp. rewrite (Hsame p Hpp). apply H2, Hpp.
           ++ intros e He. rewrite dget_dset. destruct (Z.eqb_spec e n) as [->|_]; [contradiction|apply (iE _ _ HI e He)].
           ++ intros a m Ha Hm Hd. rewrite dget_dset. destruct (Z.eqb_spec m n) as [->|_]; [|apply (iS _ _ HI a m Ha Hm Hd)].
              apply Hnew. destruct (Z.eq_dec a n) as [->|Han]; [left; reflexivity|right]. split.
              ** intros E. apply Hent. apply entries_spec. auto.
              ** intros p Hpp. apply (iS _ _ HI a p Ha (Hp n Hn p Hpp)). eapply dom_pred; eauto. apply (Hp n Hn p Hpp).
        -- pose proof (wt_update D n new Hn) as Hw. rewrite Hold in Hw. specialize (Hw Hlt).
           unfold mu in *. cbn [length] in Hmu. rewrite app_length, rev_length. specialize (HB n). nia.
Qed.

(* ---------- the initial state ---------- *)
Lemma zmem_cons n m r : zmem n (m :: r) = Z.eqb n m || zmem n r.
Proof. reflexivity. Qed.

Lemma init_entries n : forall es (D : dmap),
  zassoc n (fold_left (fun D e => dset D e [e]) es D) = if zmem n es then Some [n] else zassoc n D.
Proof.
  induction es as [|e r IH]; intros D; cbn [fold_left]; [reflexivity|].
  rewrite IH, zmem_cons, zassoc_dset.
  destruct (Z.eqb_spec n e) as [->|_]; destruct (zmem _ r); reflexivity.
Qed.

Lemma init_nodes (ent : list name) (V : list name) n : forall ns (D : dmap),
  zassoc n (fold_left (fun D m => if zmem m ent then D else dset D m V) ns D) =
  if zmem n ns && negb (zmem n ent) then Some V else zassoc n D.
Proof.
  induction ns as [|m r IH]; intros D; cbn [fold_left]; [reflexivity|].
  rewrite IH, zmem_cons. destruct (Z.eqb_spec n m) as [->|Hnm].
  - destruct (zmem m ent) eqn:Em; destruct (zmem m r); cbn; rewrite ?Em; cbn; rewrite ?zassoc_dset, ?Z.eqb_refl; reflexivity.
  - destruct (zmem m ent); destruct (zmem n r); destruct (zmem n ent); cbn; rewrite ?zassoc_dset;
      try (destruct (Z.eqb_spec n m); [contradiction|]); reflexivity.
Qed.

Lemma init_D_spec n : zassoc n (init_D nodes entries) =
  if zmem n entries then Some [n] else if zmem n nodes then Some (zsort nodes) else None.
Proof.
  unfold init_D. rewrite init_nodes, init_entries. cbn [zassoc].
  destruct (zmem n entries); cbn [negb]; [rewrite andb_false_r; reflexivity|]. rewrite andb_true_r.
  destruct (zmem n nodes); reflexivity.
Qed.

Lemma init_inv : Inv (init_D nodes entries) (init_stk nodes entries).
Proof.
  assert (Hget : forall n, dget (init_D nodes entries) n =
                           if zmem n entries then [n] else if zmem n nodes then zsort nodes else []).
  { intros n. unfold dget. rewrite init_D_spec. destruct (zmem n entries); [reflexivity|]. destruct (zmem n nodes); reflexivity. }
  constructor.
  - intros n Hn. rewrite init_D_spec. destruct (zmem n entries); [eauto|]. apply zmem_In in Hn. rewrite Hn. eauto.
  - intros p s. rewrite init_D_spec. destruct (zmem p entries); [intros [= <-]; repeat constructor|].
    destruct (zmem p nodes); [intros [= <-]; apply zsort_sorted|discriminate].
  - intros x Hx. unfold init_stk in Hx. apply in_rev in Hx. apply filter_In in Hx. apply Hx.
  - intros m Hm a Ha. rewrite Hget in Ha. destruct (zmem m entries).
    + destruct Ha as [<-|[]]. exact Hm.
    + destruct (zmem m nodes); [exact (proj1 (zsort_In _ _) Ha)|destruct Ha].
  - intros n Hn Hne a Ha. rewrite Hget. apply zmem_false in Hne. rewrite Hne. apply zmem_In in Hn. rewrite Hn.
    apply zsort_In. apply zmem_In in Hn. destruct Ha as [->|[H1 H2]]; [exact Hn|].
    destruct (preds n) as [|p r] eqn:Epn; [congruence|].
    assert (Hpn : In p nodes) by (apply (Hp n Hn); rewrite Epn; left; reflexivity).
    specialize (H2 p (or_introl eq_refl)). rewrite Hget in H2. destruct (zmem p entries).
    + destruct H2 as [<-|[]]. exact Hpn.
    + destruct (zmem p nodes); [exact (proj1 (zsort_In _ _) H2)|destruct H2].
  - intros m Hm Hme Hms. exfalso. apply Hms. unfold init_stk. apply -> in_rev. apply filter_In. split; [exact Hm|].
    apply negb_true_iff. apply zmem_false. exact Hme.
  - intros e He. rewrite Hget. apply zmem_In in He. rewrite He. reflexivity.
  - intros a m Ha Hm Hd. rewrite Hget. destruct (zmem m entries) eqn:Eme.
    + apply zmem_In in Eme. destruct Hd as [->|Hd]; [left; reflexivity|].
      destruct (Z.eq_dec m a) as [->|Hma]; [left; reflexivity|]. exfalso. apply (Hd m (proj2 (dentries_entries m) Eme) Hma). constructor.
    + apply zmem_In in Hm. rewrite Hm. apply zsort_In. exact Ha.
Qed.

(* ---------- what the final table is ---------- *)
Lemma final_sound D : Inv D [] -> forall m a, In m nodes -> In a (dget D m) -> Dom a m.
Proof.
  intros HI m a Hm Ha. destruct (Z.eq_dec a m) as [->|Ham]; [left; reflexivity|right].
  intros e He Hea Hr.
  assert (Hgen : forall e0 y, Reach (sx_avoid succs a) e0 y -> In e0 entries -> e0 <> a ->
                          In y nodes /\ (y <> a -> ~ In a (dget D y))).
  { intros e0 y Hy. induction Hy as [x|x y z Hxy IHxy Hz]; intros He0 Hea0.
    - split; [apply entries_spec in He0; apply He0|]. intros _. rewrite (iE _ _ HI x He0). intros [E|[]]. congruence.
    - destruct (IHxy He0 Hea0) as [Hyn Hya]. unfold sx_avoid in Hz. destruct (Z.eqb_spec y a) as [->|Hne]; [destruct Hz|].
      assert (Hzn : In z nodes) by (apply (Hs y Hyn z Hz)).
      split; [exact Hzn|]. intros Hza Hin.
      assert (Hpz : In y (preds z)) by (apply (Hps z y Hzn Hyn); exact Hz).
      assert (Hze : ~ In z entries).
      { intros Hi. apply entries_spec in Hi as [_ Hi]. rewrite Hi in Hpz. destruct Hpz. }
      destruct (iW _ _ HI z Hzn Hze (fun H => H) a Hin) as [E|[_ H2]]; [congruence|].
      apply (Hya Hne). apply H2. exact Hpz. }
  destruct (Hgen e m Hr (proj1 (dentries_entries e) He) Hea) as [_ H]. apply H; [congruence|exact Ha].
Qed.

(* the work-list computes the dominance relation: for every order in which the successor sets are
   iterated (succs is ANY enumeration of them), with enough fuel - never an assertion, never a key error *)
Theorem find_dominators_correct : forall fuel,
  entries <> [] ->
  (mu (init_D nodes entries) (init_stk nodes entries) < fuel)%nat ->
  exists D log, find_dominators nodes entries preds succs fuel = WOk D log /\
    forall m, In m nodes -> StronglySorted Z.lt (dget D m) /\
                            forall a, In a (dget D m) <-> (In a nodes /\ Dom a m).
Proof.
  intros fuel Hne Hfuel. unfold find_dominators. destruct entries as [|e0 r0] eqn:Ee; [congruence|]. rewrite <- Ee in *.
  destruct (wl_total fuel _ _ [] init_inv Hfuel) as [D [lg [E HI]]].
  exists D, lg. split; [exact E|]. intros m Hm. split.
  { destruct (iK _ _ HI m Hm) as [s0 Es]. unfold dget. rewrite Es. apply (iSorted _ _ HI m s0 Es). }
  intros a. split.
  - intros Ha. split; [apply (iR _ _ HI m Hm a Ha)|apply (final_sound D HI m a Hm Ha)].
  - intros [Ha Hd]. apply (iS _ _ HI a m Ha Hm Hd).
Qed.
End Proof.

(* ---------- the result does not depend on the iteration order of the successor sets ---------- *)
Lemma Reach_ext (s1 s2 : name -> list name) : (forall x y, In y (s1 x) -> In y (s2 x)) ->
  forall x y, Reach s1 x y -> Reach s2 x y.
Proof. intros H x y R. induction R as [x|x y z _ IH Hz]; [constructor|]. eapply R_step; [exact IH|apply H, Hz]. Qed.

Lemma Dominates_ext nodes preds (s1 s2 : name -> list name) :
  (forall x y, In y (s1 x) <-> In y (s2 x)) ->
  forall a m, Dominates nodes s1 preds a m -> Dominates nodes s2 preds a m.
Proof.
  intros H a m [->|Hd]; [left; reflexivity|right]. intros e He Hea Hr. apply (Hd e He Hea).
  revert Hr. apply Reach_ext. intros x y. unfold sx_avoid. destruct (Z.eqb x a); [tauto|]. apply H.
Qed.

Theorem find_dominators_order_independent nodes preds succs1 succs2 ents1 ents2 B1 B2 fuel1 fuel2 :
  NoDup nodes ->
  (forall n, In n nodes -> incl (preds n) nodes) ->
  (forall n, In n nodes -> incl (succs1 n) nodes) ->
  (forall n p, In n nodes -> In p nodes -> (In p (preds n) <-> In n (succs1 p))) ->
  (forall x y, In y (succs1 x) <-> In y (succs2 x)) ->          (* the same sets, enumerated in any order *)
  (forall n, In n ents1 <-> In n nodes /\ preds n = []) ->     (* the entry points, in any two orders *)
  (forall n, In n ents2 <-> In n nodes /\ preds n = []) ->
  (forall n, (length (succs1 n) <= B1)%nat) -> (forall n, (length (succs2 n) <= B2)%nat) ->
  ents1 <> [] ->
  (mu nodes B1 (init_D nodes ents1) (init_stk nodes ents1) < fuel1)%nat ->
  (mu nodes B2 (init_D nodes ents2) (init_stk nodes ents2) < fuel2)%nat ->
  exists D1 l1 D2 l2,
    find_dominators nodes ents1 preds succs1 fuel1 = WOk D1 l1 /\
    find_dominators nodes ents2 preds succs2 fuel2 = WOk D2 l2 /\
    forall m, In m nodes -> dget D1 m = dget D2 m.
Proof.
  intros Hnd Hp Hs1 Hps1 Hperm He1 He2 HB1 HB2 Hne Hf1 Hf2.
  assert (Hs2 : forall n, In n nodes -> incl (succs2 n) nodes).
  { intros n Hn y Hy. apply (Hs1 n Hn). apply Hperm. exact Hy. }
  assert (Hps2 : forall n p, In n nodes -> In p nodes -> (In p (preds n) <-> In n (succs2 p))).
  { intros n p Hn Hpn. rewrite <- Hperm. apply Hps1; auto. }
  assert (Hne2 : ents2 <> []).
  { destruct ents1 as [|e r]; [congruence|]. intros E. assert (Hi : In e ents2) by (apply He2; apply He1; left; reflexivity).
    rewrite E in Hi. destruct Hi. }
  destruct (find_dominators_correct nodes preds succs1 B1 Hnd Hp Hs1 Hps1 HB1 ents1 He1 fuel1 Hne Hf1) as [D1 [l1 [E1 C1]]].
  destruct (find_dominators_correct nodes preds succs2 B2 Hnd Hp Hs2 Hps2 HB2 ents2 He2 fuel2 Hne2 Hf2) as [D2 [l2 [E2 C2]]].
  exists D1, l1, D2, l2. split; [exact E1|]. split; [exact E2|]. intros m Hm.
  destruct (C1 m Hm) as [S1 M1]. destruct (C2 m Hm) as [S2 M2].
  apply sorted_ext; auto. intros a. rewrite M1, M2. split; intros [Ha Hd]; (split; [exact Ha|]).
  - revert Hd. apply Dominates_ext. exact Hperm.
  - revert Hd. apply Dominates_ext. intros x y. symmetry. apply Hperm.
Qed.

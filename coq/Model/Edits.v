(* Edits.v — property C14: the graph edit primitives of SCFG, modelled line by
   line over an insertion-ordered dictionary (pop + add moves a key to the
   end), with their arc-level specifications. *)
From Coq Require Import List ZArith Bool Lia.
Import ListNotations.
From V Require Import Valid.Hier Model.Graph.
Local Open Scope Z_scope.

Inductive ekind :=
| EPlain (cls : Z)                                   (* anything without a value table *)
| EAssign (a : list (Z * Z))
| EBranch (cls v : Z) (tbl : list (Z * name)).
Record eblk := mkE { e_jt : list name; e_be : list name; e_kind : ekind }.
Definition egraph := list (name * eblk).

Definition ekeys (g : egraph) : list name := map fst g.
Definition efind (g : egraph) (x : name) : option eblk := zassoc x g.
Definition ejts (b : eblk) : list name := filter (fun t => negb (zmem t (e_be b))) (e_jt b).

(* dict[k] = v : an existing key keeps its place, a new key goes last *)
Fixpoint dset {A} (g : list (Z * A)) (k : Z) (v : A) : list (Z * A) :=
  match g with
  | [] => [(k, v)]
  | (k', v') :: r => if Z.eqb k k' then (k', v) :: r else (k', v') :: dset r k v
  end.

Fixpoint dpop {A} (g : list (Z * A)) (k : Z) : option (A * list (Z * A)) :=
  match g with
  | [] => None
  | (k', v') :: r =>
    if Z.eqb k k' then Some (v', r)
    else match dpop r k with Some (v, r') => Some (v, (k', v') :: r') | None => None end
  end.

Lemma zassoc_dset {A} (g : list (Z * A)) k v x :
  zassoc x (dset g k v) = if Z.eqb x k then Some v else zassoc x g.
Proof.
  induction g as [|[k' v'] r IH]; simpl.
  - destruct (Z.eqb x k); reflexivity.
  - destruct (Z.eqb k k') eqn:E; simpl.
    + apply Z.eqb_eq in E. subst. destruct (Z.eqb x k'); reflexivity.
    + destruct (Z.eqb x k') eqn:E2; [|exact IH].
      apply Z.eqb_eq in E2. subst. rewrite Z.eqb_sym, E. reflexivity.
Qed.

Lemma zassoc_dpop {A} (g : list (Z * A)) k v r x :
  dpop g k = Some (v, r) -> x <> k -> zassoc x r = zassoc x g.
Proof.
  revert r. induction g as [|[k' v'] g' IH]; simpl; intros r; [discriminate|].
  destruct (Z.eqb k k') eqn:E.
  - apply Z.eqb_eq in E. subst. intros [= <- <-] Hne.
    destruct (Z.eqb x k') eqn:E2; [apply Z.eqb_eq in E2; contradiction|reflexivity].
  - destruct (dpop g' k) as [[v0 r0]|]; [|discriminate]. intros [= <- <-] Hne. simpl.
    destruct (Z.eqb x k'); [reflexivity|]. apply IH; auto.
Qed.

Lemma dpop_value {A} (g : list (Z * A)) k v r : dpop g k = Some (v, r) -> zassoc k g = Some v.
Proof.
  revert r. induction g as [|[k' v'] g' IH]; simpl; intros r; [discriminate|].
  destruct (Z.eqb k k'); [intros [= <- _]; reflexivity|].
  destruct (dpop g' k) as [[v0 r0]|]; [|discriminate]. intros [= <- _]. eapply IH; eauto.
Qed.

(* ---------- the successor rewrite of insert_block ---------- *)
Fixpoint replace_first (s new : name) (jt : list name) : list name :=
  match jt with
  | [] => []
  | t :: r => if Z.eqb t s then new :: r else t :: replace_first s new r
  end.

Fixpoint remove_first (s : name) (jt : list name) : list name :=
  match jt with
  | [] => []
  | t :: r => if Z.eqb t s then r else t :: remove_first s r
  end.

Definition rt_step (new : name) (jt : list name) (s : name) : list name :=
  if zmem s jt then (if zmem new jt then remove_first s jt else replace_first s new jt) else jt.

Definition retarget (new : name) (S : list name) (jt : list name) : list name :=
  match S with
  | [] => jt ++ [new]
  | _ => fold_left (rt_step new) S jt
  end.

(* the successors that are neither in S nor the new block keep their order *)
Definition keepb (new : name) (S : list name) (t : name) : bool := negb (zmem t (new :: S)).
Arguments keepb : simpl never.
Definition others (new : name) (S : list name) (jt : list name) : list name :=
  filter (keepb new S) jt.

Lemma keepb_S new S s : In s S -> keepb new S s = false.
Proof.
  intros H. unfold keepb. apply negb_false_iff. apply zmem_In. right. exact H.
Qed.
Lemma keepb_new new S : keepb new S new = false.
Proof. unfold keepb. apply negb_false_iff. apply zmem_In. left. reflexivity. Qed.

Lemma others_replace_first new S s jt :
  In s S -> others new S (replace_first s new jt) = others new S jt.
Proof.
  intros Hs. unfold others. induction jt as [|t r IH]; simpl; [reflexivity|].
  destruct (Z.eqb t s) eqn:E.
  - apply Z.eqb_eq in E. subst. simpl. rewrite keepb_new, (keepb_S _ _ _ Hs). reflexivity.
  - simpl. rewrite IH. reflexivity.
Qed.

Lemma others_remove_first new S s jt :
  In s S -> others new S (remove_first s jt) = others new S jt.
Proof.
  intros Hs. unfold others. induction jt as [|t r IH]; simpl; [reflexivity|].
  destruct (Z.eqb t s) eqn:E.
  - apply Z.eqb_eq in E. subst. rewrite (keepb_S _ _ _ Hs). reflexivity.
  - simpl. rewrite IH. reflexivity.
Qed.

Lemma others_fold new S0 : forall S jt, incl S S0 ->
  others new S0 (fold_left (rt_step new) S jt) = others new S0 jt.
Proof.
  induction S as [|s r IH]; intros jt Hincl; simpl; [reflexivity|].
  rewrite IH by (intros x Hx; apply Hincl; right; exact Hx).
  assert (Hs : In s S0) by (apply Hincl; left; reflexivity).
  unfold rt_step. destruct (zmem s jt); [|reflexivity].
  destruct (zmem new jt); [apply others_remove_first|apply others_replace_first]; exact Hs.
Qed.

(* L1: the order of a predecessor's remaining successors is untouched *)
Theorem retarget_others new S jt :
  S <> [] -> others new S (retarget new S jt) = others new S jt.
Proof.
  intros Hne. unfold retarget. destruct S as [|s r]; [contradiction|].
  apply others_fold. apply incl_refl.
Qed.

Lemma In_replace_first s new jt x :
  In x (replace_first s new jt) -> x = new \/ In x jt.
Proof.
  induction jt as [|t r IH]; simpl; [tauto|].
  destruct (Z.eqb t s); simpl; intros [H|H]; auto. destruct (IH H); auto.
Qed.

Lemma In_remove_first s jt x : In x (remove_first s jt) -> In x jt.
Proof.
  induction jt as [|t r IH]; simpl; [tauto|].
  destruct (Z.eqb t s); simpl; [auto|]. intros [H|H]; auto.
Qed.

Lemma nodup_replace_first s new jt :
  NoDup jt -> ~ In new jt -> NoDup (replace_first s new jt) /\ ~ In s (replace_first s new jt) \/ ~ In s jt.
Proof.
  intros Hnd Hnew. destruct (in_dec Z.eq_dec s jt) as [Hin|Hnin]; [left|right; exact Hnin].
  induction jt as [|t r IH]; [destruct Hin|]. simpl.
  inversion Hnd as [|? ? Hnt Hnd']; subst.
  destruct (Z.eqb t s) eqn:E.
  - apply Z.eqb_eq in E. subst. split.
    + constructor; [intros H; apply Hnew; right; exact H|exact Hnd'].
    + intros [H|H]; [apply Hnew; left; auto|contradiction].
  - apply Z.eqb_neq in E. destruct Hin as [Hin|Hin]; [contradiction|].
    destruct (IH Hnd' (fun H => Hnew (or_intror H)) Hin) as [Hnd2 Hns]. split.
    + constructor; [|exact Hnd2]. intros H. apply In_replace_first in H as [H|H].
      * apply Hnew. left. auto.
      * contradiction.
    + intros [H|H]; [contradiction|contradiction].
Qed.

Lemma nodup_remove_first s jt : NoDup jt -> NoDup (remove_first s jt) /\ ~ In s (remove_first s jt).
Proof.
  induction jt as [|t r IH]; simpl; intros Hnd; [split; [constructor|tauto]|].
  inversion Hnd as [|? ? Hnt Hnd']; subst.
  destruct (Z.eqb t s) eqn:E.
  - apply Z.eqb_eq in E. subst. auto.
  - apply Z.eqb_neq in E. destruct (IH Hnd') as [H1 H2]. split.
    + constructor; [|exact H1]. intros H. apply In_remove_first in H. contradiction.
    + intros [H|H]; [contradiction|contradiction].
Qed.

Lemma step_facts new jt s :
  NoDup jt -> s <> new ->
  let jt' := rt_step new jt s in
  NoDup jt' /\ ~ In s jt' /\
  (forall x, In x jt' -> x = new \/ In x jt) /\
  (In new jt -> In new jt') /\ (In s jt -> In new jt').
Proof.
  intros Hnd Hne. unfold rt_step.
  destruct (zmem s jt) eqn:Hs.
  - apply zmem_In in Hs. destruct (zmem new jt) eqn:Hn.
    + apply zmem_In in Hn. destruct (nodup_remove_first s jt Hnd) as [A B].
      assert (Hkeep : In new (remove_first s jt)).
      { clear -Hn Hne. induction jt as [|t r IH]; simpl; [destruct Hn|].
        destruct (Z.eqb t s) eqn:E.
        - apply Z.eqb_eq in E. subst. destruct Hn as [H|H]; [congruence|exact H].
        - destruct Hn as [H|H]; [left; exact H|right; auto]. }
      repeat split; auto. intros x Hx. right. eapply In_remove_first; eauto.
    + apply zmem_false in Hn.
      destruct (nodup_replace_first s new jt Hnd Hn) as [[A B]|C]; [|contradiction].
      assert (Hin : In new (replace_first s new jt)).
      { clear -Hs. induction jt as [|t r IH]; simpl; [destruct Hs|].
        destruct (Z.eqb t s) eqn:E; [left; reflexivity|].
        apply Z.eqb_neq in E. destruct Hs as [H|H]; [contradiction|right; auto]. }
      repeat split; auto. intros x Hx. apply In_replace_first in Hx. exact Hx.
  - apply zmem_false in Hs. repeat split; auto. intros H; contradiction.
Qed.

Lemma fold_facts new : forall S jt,
  NoDup jt -> ~ In new S ->
  let jt' := fold_left (rt_step new) S jt in
  NoDup jt' /\ (forall s, In s S -> ~ In s jt') /\
  (forall x, In x jt' -> x = new \/ In x jt) /\
  (In new jt -> In new jt') /\ (forall s, In s S -> In s jt -> In new jt').
Proof.
  induction S as [|s r IH]; intros jt Hnd Hnew; simpl.
  - repeat split; auto; intros s [].
  - assert (Hne : s <> new) by (intros ->; apply Hnew; left; reflexivity).
    destruct (step_facts new jt s Hnd Hne) as [A [B [C [D E]]]].
    destruct (IH (rt_step new jt s) A (fun H => Hnew (or_intror H))) as [A' [B' [C' [D' E']]]].
    repeat split; auto.
    + intros s' [<-|Hs']; [|auto]. intros H. apply C' in H as [H|H]; [congruence|contradiction].
    + intros x Hx. apply C' in Hx as [Hx|Hx]; [auto|]. apply C in Hx. exact Hx.
    + intros s' [<-|Hs'] Hin; [auto|].
      destruct (Z.eq_dec s' s) as [->|Hd]; [auto|].
      apply (E' s' Hs').
      (* s' is still there after the step for s *)
      unfold rt_step. destruct (zmem s jt); [|exact Hin]. destruct (zmem new jt).
      * clear -Hin Hd. induction jt as [|t q IHq]; simpl; [destruct Hin|].
        destruct (Z.eqb t s) eqn:Et.
        -- apply Z.eqb_eq in Et. subst. destruct Hin as [H|H]; [congruence|exact H].
        -- destruct Hin as [H|H]; [left; exact H|right; auto].
      * clear -Hin Hd. induction jt as [|t q IHq]; simpl; [destruct Hin|].
        destruct (Z.eqb t s) eqn:Et.
        -- apply Z.eqb_eq in Et. subst. destruct Hin as [H|H]; [congruence|right; exact H].
        -- destruct Hin as [H|H]; [left; exact H|right; auto].
Qed.

(* L2–L4: with distinct successors and a fresh name, every former arc into S
   is gone, nothing foreign appears, the new block is a successor exactly
   when some arc into S existed (or it already was), and exactly once *)
Theorem retarget_arcs new S jt :
  S <> [] -> NoDup jt -> ~ In new S ->
  let jt' := retarget new S jt in
  NoDup jt' /\ (forall s, In s S -> ~ In s jt') /\
  (forall x, In x jt' -> x = new \/ In x jt) /\
  (In new jt' <-> In new jt \/ exists s, In s S /\ In s jt).
Proof.
  intros Hne Hnd Hnew. unfold retarget. destruct S as [|s0 r]; [contradiction|].
  destruct (fold_facts new (s0 :: r) jt Hnd Hnew) as [A [B [C [D E]]]].
  repeat split; auto.
  - intros H. destruct (in_dec Z.eq_dec new jt) as [Hi|Hni]; [left; exact Hi|right].
    (* new appeared: some step replaced an s *)
    assert (Hex : forall S' l, ~ In new l -> In new (fold_left (rt_step new) S' l) ->
                               exists s, In s S' /\ In s l).
    { clear. induction S' as [|s q IHq]; intros l Hn Hin; simpl in Hin; [contradiction|].
      unfold rt_step in Hin at 2. destruct (zmem s l) eqn:Hs.
      - apply zmem_In in Hs. exists s. split; [left; reflexivity|exact Hs].
      - destruct (IHq l Hn Hin) as [s' [H1 H2]]. exists s'. split; [right; exact H1|exact H2]. }
    exact (Hex _ _ Hni H).
  - intros [H|[s [Hs Hin]]]; [auto|eauto].
Qed.

(* ---------- SyntheticBranch.replace_jump_targets: the value table ---------- *)
Definition tset (tbl : list (Z * name)) (k : Z) (v : name) : list (Z * name) := dset tbl k v.

Fixpoint dedupe (l : list Z) : list Z :=
  match l with
  | [] => []
  | x :: r => if zmem x r then dedupe r else x :: dedupe r
  end.

(* result: None = AssertionError *)
Fixpoint table_rewrite (old_tbl : list (Z * name)) (old_jt new_jt all_old : list name)
         (idx : nat) (acc : list (Z * name)) : option (list (Z * name)) :=
  match old_jt with
  | [] => Some acc
  | target :: rest =>
    let copy tgt := fold_left (fun a kv => if Z.eqb (snd kv) target then tset a (fst kv) tgt else a)
                              old_tbl acc in
    if zmem target new_jt then table_rewrite old_tbl rest new_jt all_old (S idx) (copy target)
    else
      if Nat.eqb (length new_jt) (length all_old) then
        match nth_error new_jt idx with
        | Some nt => table_rewrite old_tbl rest new_jt all_old (S idx) (copy nt)
        | None => None
        end
      else
        match dedupe (filter (fun t => negb (zmem t all_old)) new_jt) with
        | [nt] => table_rewrite old_tbl rest new_jt all_old (S idx) (copy nt)
        | _ => None
        end
  end.

Definition replace_jt (b : eblk) (new_jt : list name) : option eblk :=
  match e_kind b with
  | EBranch c v tbl =>
    match table_rewrite tbl (e_jt b) new_jt (e_jt b) O [] with
    | Some tbl' => Some (mkE new_jt (e_be b) (EBranch c v tbl'))
    | None => None
    end
  | k => Some (mkE new_jt (e_be b) k)
  end.

(* ---------- insert_block ---------- *)
Inductive res (A : Type) := Ok (a : A) | KeyError | AssertionError.
Arguments Ok {A}. Arguments KeyError {A}. Arguments AssertionError {A}.

Fixpoint insert_preds (g : egraph) (new : name) (S : list name) (preds : list name) : res egraph :=
  match preds with
  | [] => Ok g
  | p :: rest =>
    match dpop g p with
    | None => KeyError
    | Some (b, g1) =>
      match replace_jt b (retarget new S (e_jt b)) with
      | None => AssertionError
      | Some b' => insert_preds (dset g1 p b') new S rest
      end
    end
  end.

Definition insert_block (g : egraph) (new : name) (preds S : list name) (cls : Z) : res egraph :=
  insert_preds (dset g new (mkE S [] (EPlain cls))) new S preds.

Lemma replace_jt_facts b jt b' :
  replace_jt b jt = Some b' -> e_jt b' = jt /\ e_be b' = e_be b.
Proof.
  unfold replace_jt. destruct (e_kind b) as [c|a|c v tbl].
  - intros [= <-]. auto.
  - intros [= <-]. auto.
  - destruct (table_rewrite _ _ _ _ _ _); [|discriminate]. intros [= <-]. auto.
Qed.

(* blocks that are not predecessors (and not the new block) are untouched;
   a predecessor's targets are the retargeted ones, its back edges untouched *)
Lemma insert_preds_spec new S : forall preds g g',
  NoDup preds ->
  insert_preds g new S preds = Ok g' ->
  (forall x, ~ In x preds -> efind g' x = efind g x) /\
  (forall p, In p preds -> exists b b', efind g p = Some b /\ efind g' p = Some b' /\
       e_jt b' = retarget new S (e_jt b) /\ e_be b' = e_be b).
Proof.
  induction preds as [|p rest IH]; intros g g' Hnd; simpl.
  - intros [= <-]. split; [auto|intros p []].
  - inversion Hnd as [|? ? Hnp Hnd']; subst.
    destruct (dpop g p) as [[b g1]|] eqn:Hp; [|discriminate].
    destruct (replace_jt b (retarget new S (e_jt b))) as [b'|] eqn:Hr; [|discriminate].
    intros H. destruct (IH _ _ Hnd' H) as [A B].
    assert (Hfind : forall x, efind (dset g1 p b') x = if Z.eqb x p then Some b' else efind g x).
    { intros x. unfold efind. rewrite zassoc_dset. destruct (Z.eqb x p) eqn:E; [reflexivity|].
      apply Z.eqb_neq in E. eapply zassoc_dpop; eauto. }
    split.
    + intros x Hx. rewrite A by (intros Hi; apply Hx; right; exact Hi).
      rewrite Hfind. destruct (Z.eqb x p) eqn:E; [|reflexivity].
      apply Z.eqb_eq in E. subst. exfalso. apply Hx. left; reflexivity.
    + intros q [<-|Hq].
      * exists b, b'. split; [eapply dpop_value; eauto|].
        rewrite A by exact Hnp. rewrite Hfind, Z.eqb_refl. split; [reflexivity|].
        eapply replace_jt_facts; eauto.
      * destruct (B q Hq) as [b0 [b0' [H1 [H2 [H3 H4]]]]].
        exists b0, b0'. rewrite Hfind in H1.
        destruct (Z.eqb q p) eqn:E; [apply Z.eqb_eq in E; subst; contradiction|]. auto.
Qed.

Theorem insert_block_spec g new preds S cls g' :
  NoDup preds -> ~ In new preds ->
  insert_block g new preds S cls = Ok g' ->
  efind g' new = Some (mkE S [] (EPlain cls)) /\
  (forall x, ~ In x preds -> x <> new -> efind g' x = efind g x) /\
  (forall p, In p preds -> exists b b', efind g p = Some b /\ efind g' p = Some b' /\
       e_jt b' = retarget new S (e_jt b) /\ e_be b' = e_be b).
Proof.
  unfold insert_block. intros Hnd Hnew H.
  destruct (insert_preds_spec new S preds _ _ Hnd H) as [A B].
  assert (Hf : forall x, efind (dset g new (mkE S [] (EPlain cls))) x =
                         if Z.eqb x new then Some (mkE S [] (EPlain cls)) else efind g x)
    by (intros x; unfold efind; apply zassoc_dset).
  split; [rewrite A by exact Hnew; rewrite Hf, Z.eqb_refl; reflexivity|]. split.
  - intros x Hx Hne. rewrite A by exact Hx. rewrite Hf.
    destruct (Z.eqb x new) eqn:E; [apply Z.eqb_eq in E; contradiction|reflexivity].
  - intros p Hp. destruct (B p Hp) as [b [b' [H1 H2]]]. exists b, b'. rewrite Hf in H1.
    destruct (Z.eqb p new) eqn:E; [apply Z.eqb_eq in E; subst; contradiction|]. auto.
Qed.

(* the same, saying which block a predecessor became *)
Lemma insert_preds_spec2 new S : forall preds g g',
  NoDup preds ->
  insert_preds g new S preds = Ok g' ->
  forall p, In p preds -> exists b b', efind g p = Some b /\ efind g' p = Some b' /\
       replace_jt b (retarget new S (e_jt b)) = Some b'.
Proof.
  induction preds as [|p rest IH]; intros g g' Hnd; simpl.
  - intros [= <-] p [].
  - inversion Hnd as [|? ? Hnp Hnd']; subst.
    destruct (dpop g p) as [[b g1]|] eqn:Hp; [|discriminate].
    destruct (replace_jt b (retarget new S (e_jt b))) as [b'|] eqn:Hr; [|discriminate].
    intros H. destruct (insert_preds_spec new S rest _ _ Hnd' H) as [A _].
    assert (Hfind : forall x, efind (dset g1 p b') x = if Z.eqb x p then Some b' else efind g x).
    { intros x. unfold efind. rewrite zassoc_dset. destruct (Z.eqb x p) eqn:E; [reflexivity|].
      apply Z.eqb_neq in E. eapply zassoc_dpop; eauto. }
    intros q [<-|Hq].
    + exists b, b'. split; [eapply dpop_value; eauto|].
      rewrite A by exact Hnp. rewrite Hfind, Z.eqb_refl. split; [reflexivity|exact Hr].
    + destruct (IH _ _ Hnd' H q Hq) as [b0 [b0' [H1 [H2 H3]]]].
      exists b0, b0'. rewrite Hfind in H1.
      destruct (Z.eqb q p) eqn:E; [apply Z.eqb_eq in E; subst; contradiction|]. auto.
Qed.

Theorem insert_block_spec2 g new preds S cls g' :
  NoDup preds -> ~ In new preds ->
  insert_block g new preds S cls = Ok g' ->
  forall p, In p preds -> exists b b', efind g p = Some b /\ efind g' p = Some b' /\
       replace_jt b (retarget new S (e_jt b)) = Some b'.
Proof.
  unfold insert_block. intros Hnd Hnew H p Hp.
  destruct (insert_preds_spec2 new S preds _ _ Hnd H p Hp) as [b [b' [H1 [H2 H3]]]].
  exists b, b'. split; [|auto]. unfold efind in *. rewrite zassoc_dset in H1.
  destruct (Z.eqb p new) eqn:E; [apply Z.eqb_eq in E; subst; contradiction|exact H1].
Qed.

(* ---------- join_returns ---------- *)
Definition exits_of (g : egraph) : list name :=
  map fst (filter (fun p => match ejts (snd p) with [] => true | _ => false end) g).

Definition join_returns (g : egraph) (fresh : name) (cls : Z) : res egraph :=
  match exits_of g with
  | (_ :: _ :: _) as ex => insert_block g fresh ex [] cls
  | _ => Ok g
  end.

Theorem join_returns_noop g fresh cls :
  (length (exits_of g) <= 1)%nat -> join_returns g fresh cls = Ok g.
Proof.
  unfold join_returns. destruct (exits_of g) as [|a [|b r]]; simpl; intros H; try reflexivity; lia.
Qed.

Theorem join_returns_spec g fresh cls g' :
  NoDup (ekeys g) -> ~ In fresh (ekeys g) -> (2 <= length (exits_of g))%nat ->
  join_returns g fresh cls = Ok g' ->
  efind g' fresh = Some (mkE [] [] (EPlain cls)) /\
  (forall x, ~ In x (exits_of g) -> x <> fresh -> efind g' x = efind g x) /\
  (forall p, In p (exits_of g) -> exists b b', efind g p = Some b /\ efind g' p = Some b' /\
       e_jt b' = e_jt b ++ [fresh] /\ e_be b' = e_be b).
Proof.
  intros Hnd Hfresh Hlen. unfold join_returns.
  destruct (exits_of g) as [|a [|b r]] eqn:E; simpl in Hlen; try lia.
  intros H.
  assert (Hnd' : NoDup (a :: b :: r)).
  { rewrite <- E. unfold exits_of. unfold ekeys in Hnd.
    clear -Hnd. induction g as [|[k v] g IH]; simpl; [constructor|].
    simpl in Hnd. inversion Hnd as [|? ? Hn Hnd']; subst.
    destruct (ejts v); simpl; [|auto]. constructor; [|auto].
    intros Hin. apply Hn. apply in_map_iff in Hin as [[k' v'] [Hk Hin]]. simpl in Hk. subst.
    apply filter_In in Hin as [Hin _]. apply in_map_iff. exists (k, v'). auto. }
  assert (Hni : ~ In fresh (a :: b :: r)).
  { rewrite <- E. unfold exits_of. intros Hin. apply Hfresh.
    apply in_map_iff in Hin as [[k v] [Hk Hin]]. simpl in Hk. subst.
    apply filter_In in Hin as [Hin _]. unfold ekeys. apply in_map_iff. exists (fresh, v). auto. }
  destruct (insert_block_spec g fresh (a :: b :: r) [] cls g' Hnd' Hni H) as [A [B C]].
  split; [exact A|]. split; [exact B|]. exact C.
Qed.

(* ---------- totality of the value-table rewrite (property C02) ---------- *)
(* with the same number of targets the rewrite is positional and cannot fail *)
Lemma table_rewrite_total_same_arity tbl new_jt all_old :
  length new_jt = length all_old ->
  forall old_jt idx acc, (idx + length old_jt <= length all_old)%nat ->
    table_rewrite tbl old_jt new_jt all_old idx acc <> None.
Proof.
  intros Hlen. induction old_jt as [|t r IH]; intros idx acc Hb; cbn [table_rewrite]; [discriminate|].
  cbn [length] in Hb.
  destruct (zmem t new_jt); [apply IH; lia|].
  rewrite Hlen, Nat.eqb_refl.
  destruct (nth_error new_jt idx) as [nt|] eqn:E.
  - apply IH. lia.
  - apply nth_error_None in E. lia.
Qed.

Theorem replace_jt_total b new_jt :
  length new_jt = length (e_jt b) -> replace_jt b new_jt <> None.
Proof.
  intros Hlen. unfold replace_jt. destruct (e_kind b) as [c|a|c v tbl]; try discriminate.
  pose proof (table_rewrite_total_same_arity tbl new_jt (e_jt b) Hlen (e_jt b) O []) as H.
  destruct (table_rewrite tbl (e_jt b) new_jt (e_jt b) 0 []); [discriminate|].
  exfalso. apply H; [cbn; lia|reflexivity].
Qed.

(* before the repair (commit cecde5d) the rewrite demanded exactly one new name:
   re-targeting two successors at once was rejected *)
Definition table_rewrite_old (tbl : list (Z * name)) (old_jt new_jt : list name) : bool :=
  forallb (fun t => zmem t new_jt ||
                    match dedupe (filter (fun x => negb (zmem x old_jt)) new_jt) with
                    | [_] => true | _ => false end) old_jt.

Example old_rewrite_rejected_two_targets :
  table_rewrite_old [(0, 1); (1, 2)] [1; 2] [7; 8] = false /\
  replace_jt (mkE [1; 2] [] (EBranch 11 5 [(0, 1); (1, 2)])) [7; 8]
  = Some (mkE [7; 8] [] (EBranch 11 5 [(0, 7); (1, 8)])).
Proof. vm_compute. split; reflexivity. Qed.

(* Serial2.v — property C15: SCFGIO.from_dict / make_scfg / find_outer_graph /
   extract_block_info as an executable model over the written dictionary
   (Serial.dentry), with the same queue discipline (sorted heads, first in first
   out, seen at pop, the edges of a region's exiting block are not followed) and
   the same recursion (a region's graph is rebuilt by walking from its header;
   the "contains" list only decides what lies in the outermost graph).
   None = the implementation raises (KeyError / AssertionError / TypeError) or
   the fuel ran out. *)
From Coq Require Import List ZArith Bool Lia.
Import ListNotations.
From V Require Import Valid.Hier Model.Graph Model.Serial.
Local Open Scope Z_scope.

Fixpoint unflat (l : list Z) : option (list (Z * Z)) :=
  match l with
  | [] => Some []
  | a :: b :: r => match unflat r with Some p => Some ((a, b) :: p) | None => None end
  | _ => None
  end.

Lemma unflat_flat a : unflat (flat_pairs a) = Some a.
Proof. induction a as [|[x y] a IH]; cbn; [reflexivity|]. rewrite IH. reflexivity. Qed.

Section FromDict.
Variable d : list dentry.

Definition dfind (x : name) : option dentry := List.find (fun e => Z.eqb (d_name e) x) d.
Definition iskey (x : name) : bool := match dfind x with Some _ => true | None => false end.

(* block types the reader knows: export.CLS families, assignment 20, region 50, input blocks 100 *)
Definition valid_type (e : dentry) : bool :=
  let c := d_type e in
  Z.eqb c 100 || Z.eqb c 20 || Z.eqb c 50 || (Z.leb 1 c && Z.leb c 19).

(* a block that is not a region, built inside the graph of region parent *)
Definition leaf_of (parent : name) (e : dentry) : option node :=
  let mk k := Some (mkNode (d_name e) parent (d_edges e) (d_back e) k) in
  let c := d_type e in
  if Z.eqb c 100 then match d_extra e with [p] => mk (KOrig p) | _ => None end
  else if Z.eqb c 20 then match unflat (d_extra e) with Some a => mk (KAssign a) | None => None end
  else if Z.leb 1 c && Z.leb c 9 then match d_extra e with [] => mk (KPlain c) | _ => None end
  else if Z.leb 10 c && Z.leb c 19 then
    match d_extra e with
    | v :: r => match unflat r with Some t => mk (KBranch c v t) | None => None end
    | [] => None
    end
  else None.

(* make_scfg: the loop over the queue; out is kept in reverse order.
   result: the names of this graph in insertion order, every block built at this
   level or below, the parent names recorded by the regions of this level *)
Fixpoint mk_loop (fuel : nat) (parent exiting : name) (todo seen out : list name)
         (nodes : list node) (pn : list name) : option (list name * list node * list name) :=
  match fuel with
  | O => None
  | S f =>
    match todo with
    | [] => Some (rev out, nodes, pn)
    | x :: rest =>
      if zmem x seen then mk_loop f parent exiting rest seen out nodes pn
      else
        match dfind x with
        | None => None
        | Some e =>
          if negb (forallb iskey (d_edges e) && forallb iskey (d_back e)) then None
          else
            let todo' := if Z.eqb x exiting then rest else rest ++ d_edges e in
            if Z.eqb (d_type e) 50 then
              match d_extra e with
              | rk :: hd :: ex :: pd :: _ =>
                match mk_loop f x ex [hd] [] [] [] [] with
                | Some (ch, sub, _) =>
                  mk_loop f parent exiting todo' (x :: seen) (x :: out)
                          (nodes ++ mkNode x parent (d_edges e) (d_back e) (KRegion rk hd ex ch parent true) :: sub)
                          (pd :: pn)
                | None => None
                end
              | _ => None
              end
            else
              match leaf_of parent e with
              | Some n => mk_loop f parent exiting todo' (x :: seen) (x :: out) (nodes ++ [n]) pn
              | None => None
              end
        end
    end
  end.

(* find_outer_graph: the keys no "contains" list names *)
Definition contains_of (e : dentry) : list name :=
  if Z.eqb (d_type e) 50 then skipn 4 (d_extra e) else [].

Definition outer : list name :=
  filter (fun x => negb (existsb (fun e => zmem x (contains_of e)) d)) (map d_name d).

(* from_dict: the top graph; its region takes the one parent name the regions
   of the top level recorded, else keeps the fresh name of the generator.
   result: name of the top region, its graph in insertion order, all blocks *)
Definition from_dict (fuel : nat) (fresh : name) : option (name * list name * list node) :=
  if negb (forallb valid_type d) then None
  else
    match zsort outer with
    | [] => None
    | heads =>
      match mk_loop fuel 0 0 heads [] [] [] [] with
      | None => None
      | Some (_, _, pn) =>
        let top := match zsort (filter (fun p => negb (Z.eqb p 0)) pn) with [p] => p | _ => fresh end in
        match mk_loop fuel top 0 heads [] [] [] [] with
        | Some (ch, nodes, _) => Some (top, ch, nodes)
        | None => None
        end
      end
    end.
End FromDict.

(* ---------- correspondence driver ----------
   rows: the hierarchy the implementation's from_dict built (Hier.v tags, the top
   region first), then the dictionary it read (tag 80, Serial.decode_dentry).
   An instance whose only hierarchy row is  [7]  says the implementation raised.
   answer: [decoded; same outcome; same top graph (order exact); the same blocks in the same order, field by field] *)
Definition kind_eqb (a b : nkind) : bool :=
  match a, b with
  | KOrig p, KOrig q => Z.eqb p q
  | KPlain c, KPlain c' => Z.eqb c c'
  | KAssign x, KAssign y => list_eqb (flat_pairs x) (flat_pairs y)
  | KBranch c v t, KBranch c' v' t' => Z.eqb c c' && Z.eqb v v' && list_eqb (flat_pairs t) (flat_pairs t')
  | KRegion rk hd ex ch pd ok, KRegion rk' hd' ex' ch' pd' ok' =>
    Z.eqb rk rk' && Z.eqb hd hd' && Z.eqb ex ex' && list_eqb ch ch' && Z.eqb pd pd' && Bool.eqb ok ok'
  | _, _ => false
  end.

Definition node_eqb (a b : node) : bool :=
  Z.eqb (n_name a) (n_name b) && Z.eqb (n_parent a) (n_parent b) && list_eqb (n_jt a) (n_jt b) &&
  list_eqb (n_be a) (n_be b) && kind_eqb (n_kind a) (n_kind b).

Definition FUEL : nat := Z.to_nat 20000.

Definition run_fromdict (rows : list (list Z)) : list Z :=
  let '(hr, dr) := split_c15 rows in
  match decode_all dr with
  | None => [0; 0; 0; 0]
  | Some d =>
    match hr with
    | [[7]] =>
      [1; (match from_dict d FUEL 0 with None => 1 | Some _ => 0 end); 1; 1]
    | _ =>
      match decode hr with
      | Some (_, topn :: rest) =>
        match from_dict d FUEL (n_name topn) with
        | None => [1; 0; 0; 0]
        | Some (top, ch, nodes) =>
          [1; 1;
           (if Z.eqb top (n_name topn) &&
               match n_kind topn with KRegion _ _ _ ch' _ _ => list_eqb ch ch' | _ => false end then 1 else 0);
           (if Nat.eqb (length nodes) (length rest) &&
               forallb (fun p => node_eqb (fst p) (snd p)) (combine nodes rest)
            then 1 else 0)]
        end
      | _ => [0; 0; 0; 0]
      end
    end
  end.

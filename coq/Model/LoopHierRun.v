(* LoopHierRun.v — run_looph extended by one column: for a call that is a plain rotation (one header,
   not the early return) do the hypotheses of the universal path theorem hold
   (LoopHierApplic.walk_pre_rot), and is the rotation the theorem speaks about - the level's dictionary
   rotated with these arguments and written back - the hierarchy the implementation produced?
   1 yes, 0 no, 2 several headers, 3 the early return (only a back edge is declared) and the hypotheses
   of BeOnly.early_return_keeps_walks hold and its hierarchy is the one the implementation produced. *)
From Coq Require Import List ZArith Bool.
Import ListNotations.
From V Require Import Valid.Hier Model.Graph Model.Edits Model.Edits2 Model.LoopEdit Model.Extract Model.CbHier
     Model.LoopHier Model.LoopHierApplic Model.Applic Model.Total2.
Local Open Scope Z_scope.

Record rotargs := mkRA { ra_hd : name; ra_exits : list name; ra_todo : list name; ra_isback : name -> name -> bool;
                         ra_latch : name; ra_sexit : name; ra_ev : Z; ra_bv : Z; ra_names : list name }.

(* the arguments loop_rest hands to loop_rotate, when it gets there with a single header *)
Definition rot_args (g1 : egraph) (loop headers exiting exits : list name)
           (doms : list (name * list name)) (bn : list name) (vn : list Z) : option rotargs :=
  match headers with
  | [hd] =>
    let sloop := zsort loop in
    let backedge_blocks := filter (fun x => match efind g1 x with
                                            | Some b => existsb (fun t => zmem t headers) (ejts b)
                                            | None => false end) sloop in
    let early := match backedge_blocks, exiting with
                 | [bb], [xb] => Z.eqb bb xb
                 | _, _ => false end in
    if early then None else
    let needs := match exits with _ :: _ :: _ => true | _ => false end in
    match bn with
    | [] => None
    | latch :: bn1 =>
      let '(sexit, bn2) := if needs then (match bn1 with s :: r => (s, r) | [] => (0, []) end) else (0, bn1) in
      match vn with
      | ev :: bv :: _ =>
        let isback name_ jt := negb (zmem name_ (match zassoc jt doms with Some d => d | None => [] end))
                               || Z.eqb name_ jt in
        let todo := filter (fun x => zmem x exiting || zmem x backedge_blocks) sloop in
        Some (mkRA hd exits todo isback latch sexit ev bv bn2)
      | _ => None
      end
    end
  | _ => None
  end.

Definition TOP : name := -1.

(* the early return: the block whose back edge is declared *)
Definition early_block (g1 : egraph) (loop headers exiting : list name) : option name :=
  match headers with
  | [hd] =>
    let sloop := zsort loop in
    let backedge_blocks := filter (fun x => match efind g1 x with
                                            | Some b => existsb (fun t => zmem t headers) (ejts b)
                                            | None => false end) sloop in
    match backedge_blocks, exiting with
    | [bb], [xb] => if Z.eqb bb xb then Some bb else None
    | _, _ => None
    end
  | _ => None
  end.

Definition early_col (h ha : hier) (lvl : name) (g1 : egraph) (hd bb : name) : Z :=
  match find h lvl, dpop g1 bb with
  | Some nl, Some (b, g2) =>
    match declare_backedge b hd with
    | Some b1 =>
      let g' := dset g2 bb b1 in
      let h' := write_back h lvl g' in
      if is_region nl && nodupb (ekeys g') && is_none (efind g1 lvl) &&
         forallb (fun n => is_region n || forallb (resolves h) (n_jt n)) h &&
         flat_okb h' TOP true &&
         Nat.eqb (length h') (length ha) &&
         forallb (fun n => match find ha (n_name n) with Some m => xnode_eqb n m | None => false end) h'
      then 3 else 0
    | None => 0
    end
  | _, _ => 0
  end.

Definition rot_col (rows : list (list Z)) : Z :=
  let '(br, ar, op, st, dm) := split_lh rows in
  match decode br, op with
  | Some (_, h), lvl :: r0 =>
    match take_list r0 with
    | Some (loop, r1) =>
      match take_list r1 with
      | Some (headers, r2) =>
        match take_list r2 with
        | Some (entries, r3) =>
          match take_list r3 with
          | Some (exiting, r4) =>
            match take_list r4 with
            | Some (exits, r5) =>
              match take_list r5 with
              | Some (bnames, r6) =>
                match take_list r6 with
                | Some (vnames, []) =>
                  match level_graph h lvl with
                  | Some g1 =>
                    match rot_args g1 loop headers exiting exits dm bnames vnames with
                    | None =>
                      match early_block g1 loop headers exiting, headers, decode ar with
                      | Some bb, [hd], Some (_, ha) => early_col h ha lvl g1 hd bb
                      | _, _, _ => 2
                      end
                    | Some a =>
                      if walk_pre_rot h lvl TOP (ra_hd a) (ra_exits a) (ra_todo a) (ra_isback a) (ra_latch a) (ra_sexit a)
                                      (ra_ev a) (ra_bv a) (ra_names a) then
                        match loop_rotate g1 (ra_hd a) [ra_hd a] (ra_exits a) (ra_todo a) false [] (ra_isback a)
                                          (ra_latch a) (ra_sexit a) (ra_ev a) (ra_bv a) (ra_names a), decode ar with
                        | Ok g1', Some (_, ha) =>
                          let h' := write_back h lvl g1' in
                          if Nat.eqb (length h') (length ha) &&
                             forallb (fun n => match find ha (n_name n) with Some m => xnode_eqb n m | None => false end) h'
                          then 1 else 0
                        | _, _ => 0
                        end
                      else 0
                    end
                  | None => 0
                  end
                | _ => 0
                end
              | None => 0
              end
            | None => 0
            end
          | None => 0
          end
        | None => 0
        end
      | None => 0
      end
    | None => 0
    end
  | _, _ => 0
  end.

Definition run_looph2 (rows : list (list Z)) : list Z := run_looph rows ++ [rot_col rows].

(* Extract.v — transformations.extract_region on an exported hierarchy (Hier.hier),
   line by line: the blocks of one level are wrapped into a new region; every
   entry of that level gets the header renamed to the region in its successors
   and back edges (a branching entry has its table rewritten, an entry that is
   itself a region has the renaming pushed down its exiting blocks:
   update_exiting); the region block takes the targets of the exiting block;
   the enclosing region's header / exiting block follow; regions among the
   wrapped blocks get the new region as parent.  Dictionary order of every
   graph (popped entries re-added at the end, the region last) is kept, so the
   comparison with the implementation is order-exact.
   Inputs taken from elsewhere: header, exiting block and entries
   (find_headers_and_entries / find_exiting_and_exits, property C13) and the
   name of the new region (property C18). *)
From Coq Require Import List ZArith Bool Lia.
Import ListNotations.
From V Require Import Valid.Hier Model.Graph Model.Edits.
Local Open Scope Z_scope.

Inductive xres (A : Type) := XOk (a : A) | XKey | XAssert.
Arguments XOk {A}. Arguments XKey {A}. Arguments XAssert {A}.

Definition rename1 (a b : name) (l : list name) : list name :=
  map (fun t => if Z.eqb t a then b else t) l.

(* replace a node (same name) *)
Fixpoint hset (h : hier) (n : node) : hier :=
  match h with
  | [] => []
  | m :: r => if Z.eqb (n_name m) (n_name n) then n :: r else m :: hset r n
  end.

(* BasicBlock / SyntheticBranch.replace_jump_targets on a node *)
Definition node_replace_jt (n : node) (jt' : list name) : option node :=
  match n_kind n with
  | KBranch c v tbl =>
    match table_rewrite tbl (n_jt n) jt' (n_jt n) O [] with
    | Some tbl' => Some (mkNode (n_name n) (n_parent n) jt' (n_be n) (KBranch c v tbl'))
    | None => None
    end
  | k => Some (mkNode (n_name n) (n_parent n) jt' (n_be n) k)
  end.

Definition with_be (n : node) (be' : list name) : node :=
  mkNode (n_name n) (n_parent n) (n_jt n) be' (n_kind n).

Definition with_children (n : node) (f : list name -> list name) : node :=
  match n_kind n with
  | KRegion rk hd ex ch pd ok => mkNode (n_name n) (n_parent n) (n_jt n) (n_be n) (KRegion rk hd ex (f ch) pd ok)
  | _ => n
  end.

Definition remove_name (x : name) (l : list name) : list name := filter (fun y => negb (Z.eqb y x)) l.
Definition move_last (x : name) (l : list name) : list name := remove_name x l ++ [x].

(* jump targets renamed, then back edges *)
Definition rename_node (n : node) (a b : name) : option node :=
  match node_replace_jt n (rename1 a b (n_jt n)) with
  | Some n1 => Some (with_be n1 (rename1 a b (n_be n1)))
  | None => None
  end.

(* update_exiting: inside region e, the exiting block is popped, renamed and added again (last);
   if it is a region itself, the same one level further down *)
Fixpoint upd_exiting (fuel : nat) (h : hier) (e : name) (a b : name) : xres hier :=
  match fuel with
  | O => XAssert
  | S f =>
    match find h e with
    | Some ne =>
      match n_kind ne with
      | KRegion _ _ ex _ _ _ =>
        match find h ex with
        | Some nx =>
          if negb (Z.eqb (n_parent nx) e) then XKey else
          match rename_node nx a b with
          | None => XAssert
          | Some nx' =>
            let h1 := hset (hset h nx') (with_children ne (move_last ex)) in
            if is_region nx' then upd_exiting f h1 ex a b else XOk h1
          end
        | None => XKey
        end
      | _ => XAssert
      end
    | None => XKey
    end
  end.

(* the loop over the entries of the level *)
Fixpoint do_entries (fuel : nat) (h : hier) (lvl : name) (entries : list name) (hd rname : name) : xres hier :=
  match entries with
  | [] => XOk h
  | e :: rest =>
    match find h lvl with
    | None => XKey
    | Some nl =>
      let ch := match n_kind nl with KRegion _ _ _ ch _ _ => ch | _ => [] end in
      let rkl := match n_kind nl with KRegion rk _ _ _ _ _ => rk | _ => 0 end in
      if negb (zmem e ch) then
        (if Z.eqb rkl 1 then XAssert else do_entries fuel h lvl rest hd rname)
      else
        match find h e with
        | None => XKey
        | Some ne =>
          match rename_node ne hd rname with
          | None => XAssert
          | Some ne' =>
            let h1 := hset h ne' in
            let step := if is_region ne' then upd_exiting fuel h1 e hd rname else XOk h1 in
            match step with
            | XOk h2 =>
              match find h2 lvl with
              | Some nl2 => do_entries fuel (hset h2 (with_children nl2 (move_last e))) lvl rest hd rname
              | None => XKey
              end
            | XKey => XKey
            | XAssert => XAssert
            end
          end
        end
    end
  end.

Definition reparent (rname : name) (blocks : list name) (n : node) : node :=
  if zmem (n_name n) blocks then
    match n_kind n with
    | KRegion rk hd ex ch _ ok => mkNode (n_name n) rname (n_jt n) (n_be n) (KRegion rk hd ex ch rname ok)
    | k => mkNode (n_name n) rname (n_jt n) (n_be n) k
    end
  else n.

Definition extract (h : hier) (lvl : name) (blocks entries : list name) (hd ex : name) (rk : Z) (rname : name)
  : xres hier :=
  match do_entries (S (length h)) h lvl entries hd rname with
  | XOk h1 =>
    match find h1 ex, find h1 lvl with
    | Some nx, Some nl =>
      let region := mkNode rname lvl (jump_targets nx) [] (KRegion rk hd ex (zsort blocks) lvl true) in
      let h2 := map (reparent rname blocks) h1 in
      let nl' :=
        match n_kind nl with
        | KRegion rkl hdl exl ch pd ok =>
          mkNode (n_name nl) (n_parent nl) (n_jt nl) (n_be nl)
                 (KRegion rkl (if Z.eqb hd hdl then rname else hdl) (if Z.eqb ex exl then rname else exl)
                          (filter (fun y => negb (zmem y blocks)) ch ++ [rname]) pd ok)
        | _ => nl
        end in
      XOk (hset h2 nl' ++ [region])
    | _, _ => XKey
    end
  | XKey => XKey
  | XAssert => XAssert
  end.

(* ---------- correspondence driver ----------
   rows: the hierarchy before the call (Hier.v tags 1-6), then
     46 lvl hd ex rk rname B blocks.. N entries..
     50 status                         (0 ok, 1 KeyError, 2 AssertionError)
     47 <row>                          the hierarchy after the call, row by row
   answer: [decoded; same outcome; every block and region equal, children in dictionary order] *)
Fixpoint split_x (rows : list (list Z)) : list (list Z) * list (list Z) * list Z * list Z :=
  match rows with
  | [] => ([], [], [], [])
  | row :: rest =>
    let '(b, a, op, st) := split_x rest in
    match row with
    | 47 :: r => (b, r :: a, op, st)
    | 46 :: r => (b, a, r, st)
    | 50 :: r => (b, a, op, r)
    | _ => (row :: b, a, op, st)
    end
  end.

Definition xkind_eqb (a b : nkind) : bool :=
  match a, b with
  | KOrig p, KOrig q => Z.eqb p q
  | KPlain c, KPlain c' => Z.eqb c c'
  | KAssign x, KAssign y => list_eqb (map fst x) (map fst y) && list_eqb (map snd x) (map snd y)
  | KBranch c v t, KBranch c' v' t' =>
    Z.eqb c c' && Z.eqb v v' && list_eqb (map fst t) (map fst t') && list_eqb (map snd t) (map snd t')
  | KRegion rk hd ex ch pd ok, KRegion rk' hd' ex' ch' pd' ok' =>
    Z.eqb rk rk' && Z.eqb hd hd' && Z.eqb ex ex' && list_eqb ch ch' && Z.eqb pd pd' && Bool.eqb ok ok'
  | _, _ => false
  end.

Definition xnode_eqb (a b : node) : bool :=
  Z.eqb (n_name a) (n_name b) && Z.eqb (n_parent a) (n_parent b) && list_eqb (n_jt a) (n_jt b) &&
  list_eqb (n_be a) (n_be b) && xkind_eqb (n_kind a) (n_kind b).

Definition run_extract (rows : list (list Z)) : list Z :=
  let '(br, ar, op, st) := split_x rows in
  match decode br, op with
  | Some (_, h), lvl :: hd :: ex :: rk :: rname :: r =>
    match take_list r with
    | Some (blocks, r1) =>
      match take_list r1 with
      | Some (entries, []) =>
        match extract h lvl blocks entries hd ex rk rname, st with
        | XOk h', [0] =>
          match decode ar with
          | Some (_, ha) =>
            [1; 1; if Nat.eqb (length h') (length ha) &&
                      forallb (fun n => match find ha (n_name n) with Some m => xnode_eqb n m | None => false end) h'
                   then 1 else 0]
          | None => [0; 0; 0]
          end
        | XKey, [1] => [1; 1; 1]
        | XAssert, [2] => [1; 1; 1]
        | _, _ => [1; 0; 0]
        end
      | _ => [0; 0; 0]
      end
    | None => [0; 0; 0]
    end
  | _, _ => [0; 0; 0]
  end.

(* CbHier.v — SCFG.insert_block_and_control_blocks on an exported hierarchy
   (Hier.hier), line by line, at ANY level and with ANY kind of predecessor:
   for every predecessor of the level, in order, one assignment block per
   successor it has in S (sorted), the successor replaced in place, the table
   extended; the predecessor popped, its successors replaced (a branching one
   has its table rewritten), a predecessor that is itself a region has every
   renaming pushed down its exiting blocks (update_exiting) and is added again
   (last); finally the head with the successors S and the table.  Dictionary
   order of the level and of the touched regions is kept, so the comparison
   with the implementation is order-exact.
   Inputs taken from elsewhere: the names the generator hands out (C18). *)
From Coq Require Import List ZArith Bool Lia.
Import ListNotations.
From V Require Import Valid.Hier Model.Graph Model.Edits Model.Extract.
Local Open Scope Z_scope.

Definition C_HEADH : Z := 11.

Definition add_child (h : hier) (lvl : name) (x : name) : hier :=
  match find h lvl with
  | Some nl => hset h (with_children nl (fun ch => ch ++ [x]))
  | None => h
  end.

(* for s in sorted(set(jt) & successors): ... ; returns the hierarchy, jt, value, table, names left, renamed *)
Fixpoint cbh_arcs (h : hier) (lvl new var : Z) (ss : list name) (jt : list name) (value : Z)
         (tbl : list (Z * name)) (names : list name) (renamed : list (name * name))
  : option (hier * list name * Z * list (Z * name) * list name * list (name * name)) :=
  match ss with
  | [] => Some (h, jt, value, tbl, names, renamed)
  | s :: rest =>
    match names with
    | [] => None
    | a :: names' =>
      let na := mkNode a lvl [new] [] (KAssign [(var, value)]) in
      cbh_arcs (add_child (h ++ [na]) lvl a) lvl new var rest (replace_first s a jt) (value + 1)
               (tset tbl value s) names' (renamed ++ [(s, a)])
    end
  end.

(* for s, synth_assign in renamed: block = update_exiting(block, s, synth_assign) *)
Fixpoint push_down (fuel : nat) (h : hier) (p : name) (renamed : list (name * name)) : xres hier :=
  match renamed with
  | [] => XOk h
  | (s, a) :: rest =>
    match upd_exiting fuel h p s a with
    | XOk h1 => push_down fuel h1 p rest
    | XKey => XKey
    | XAssert => XAssert
    end
  end.

Fixpoint cbh_preds (fuel : nat) (h : hier) (lvl new var : Z) (S : list name) (preds : list name) (value : Z)
         (tbl : list (Z * name)) (names : list name) : xres (hier * list (Z * name)) :=
  match preds with
  | [] => XOk (h, tbl)
  | p :: rest =>
    match find h p, find h lvl with
    | Some np, Some nl =>
      let ch := match n_kind nl with KRegion _ _ _ ch _ _ => ch | _ => [] end in
      if negb (zmem p ch) then XKey else
      let ss := zsort (filter (fun t => zmem t S) (n_jt np)) in
      match cbh_arcs h lvl new var ss (n_jt np) value tbl names [] with
      | None => XAssert
      | Some (h1, jt, value', tbl', names', renamed) =>
        match find h1 p with
        | None => XKey
        | Some np1 =>
          match node_replace_jt np1 jt with
          | None => XAssert
          | Some np' =>
            let h2 := hset h1 np' in
            match (if is_region np' then push_down fuel h2 p renamed else XOk h2) with
            | XOk h3 =>
              match find h3 lvl with
              | Some nl3 => cbh_preds fuel (hset h3 (with_children nl3 (move_last p))) lvl new var S rest value' tbl' names'
              | None => XKey
              end
            | XKey => XKey
            | XAssert => XAssert
            end
          end
        end
      end
    | _, _ => XKey
    end
  end.

Definition insert_cb_h (h : hier) (lvl new var : Z) (preds S : list name) (names : list name) : xres hier :=
  match cbh_preds (Datatypes.S (length h + length names)) h lvl new var S preds 0 [] names with
  | XOk (h1, tbl) =>
    XOk (add_child (h1 ++ [mkNode new lvl S [] (KBranch C_HEADH var tbl)]) lvl new)
  | XKey => XKey
  | XAssert => XAssert
  end.

(* ---------- correspondence driver ----------
   rows: the hierarchy before the call (Hier.v tags 1-6), then
     48 lvl new var P preds.. S succs.. N names..
     50 status
     47 <row>                  the hierarchy after the call
   answer: [decoded; same outcome; every block and region equal, children in dictionary order] *)
Fixpoint split_cbh (rows : list (list Z)) : list (list Z) * list (list Z) * list Z * list Z :=
  match rows with
  | [] => ([], [], [], [])
  | row :: rest =>
    let '(b, a, op, st) := split_cbh rest in
    match row with
    | 47 :: r => (b, r :: a, op, st)
    | 48 :: r => (b, a, r, st)
    | 50 :: r => (b, a, op, r)
    | _ => (row :: b, a, op, st)
    end
  end.

Definition run_cbh (rows : list (list Z)) : list Z :=
  let '(br, ar, op, st) := split_cbh rows in
  match decode br, op with
  | Some (_, h), lvl :: new :: var :: r =>
    match take_list r with
    | Some (preds, r1) =>
      match take_list r1 with
      | Some (Ss, r2) =>
        match take_list r2 with
        | Some (names, []) =>
          match insert_cb_h h lvl new var preds Ss names, st with
          | XOk h', [0] =>
            match decode ar with
            | Some (_, ha) =>
              [1; 1; if Nat.eqb (length h') (length ha) &&
                        forallb (fun n => match find ha (n_name n) with Some m => xnode_eqb n m | None => false end) h'
                     then 1 else 0]
            | None => [0; 0; 0]
            end
          | XKey, [1] => [1; 1; 1]
          | XAssert, [2] => [1; 1; 1]
          | _, _ => [1; 0; 0]
          end
        | _ => [0; 0; 0]
        end
      | None => [0; 0; 0]
      end
    | None => [0; 0; 0]
    end
  | _, _ => [0; 0; 0]
  end.

(* InsHierRun.v — run_ibh extended by one column: for a call with ONE successor whose predecessors are all
   blocks (no region) do the hypotheses of the universal path theorem hold (InsHierApplic.walk_pre_ins) and
   is the hierarchy the theorem speaks about the one the implementation produced?  1 yes, 0 no, 2 not such
   a call (no or several successors, or a region among the predecessors). *)
From Coq Require Import List ZArith Bool.
Import ListNotations.
From V Require Import Valid.Hier Model.Graph Model.Edits Model.Edits2 Model.Extract Model.CbHier Model.LoopHier
     Model.InsHier Model.InsHierApplic Model.LoopHierRun.
Local Open Scope Z_scope.

Definition ins_col (rows : list (list Z)) : Z :=
  let '(br, ar, op, st) := split_ib rows in
  match decode br, op with
  | Some (_, h), lvl :: new :: cls :: r =>
    match take_list r with
    | Some (preds, r1) =>
      match take_list r1 with
      | Some ([e0], []) =>
        if existsb (fun p => match find h p with Some n => is_region n | None => true end) preds then 2 else
        if walk_pre_ins h lvl TOP new e0 preds cls then
          match level_graph h lvl, decode ar with
          | Some g1, Some (_, ha) =>
            match insert_block g1 new preds [e0] cls with
            | Ok g1' =>
              let h' := write_back h lvl g1' in
              if Nat.eqb (length h') (length ha) &&
                 forallb (fun n => match find ha (n_name n) with Some m => xnode_eqb n m | None => false end) h'
              then 1 else 0
            | _ => 0
            end
          | _, _ => 0
          end
        else 0
      | Some (_, []) => 2
      | _ => 0
      end
    | None => 0
    end
  | _, _ => 0
  end.

Definition run_ibh2 (rows : list (list Z)) : list Z := run_ibh rows ++ [ins_col rows].

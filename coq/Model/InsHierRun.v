(* InsHierRun.v — run_ibh extended by one column: for a call with ONE successor whose predecessors are all
   blocks (no region) do the hypotheses of the universal path theorem hold (InsHierApplic.walk_pre_ins) and
   is the hierarchy the theorem speaks about the one the implementation produced?  1 yes, 0 no, 2 not such
   a call (several successors, or a region among the predecessors), 3 the closing of the graph (join_returns:
   no successor) on an input that meets the hypotheses of C01_closing_preserves_paths (JoinPath.Input, as a
   boolean) and whose result is the one the implementation produced. *)
From Coq Require Import List ZArith Bool.
Import ListNotations.
From V Require Import Valid.Hier Model.Graph Model.Edits Model.Edits2 Model.Extract Model.CbHier Model.LoopHier
     Model.InsHier Model.InsHierApplic Model.LoopHierRun Model.JoinPath Model.Total2.
Local Open Scope Z_scope.

(* JoinPath.Input as a boolean *)
Definition input_okb (g : egraph) (top fresh : name) : bool :=
  nodupb (ekeys g) &&
  forallb (fun p => match e_kind (snd p) with EPlain c => Z.eqb c 100 | _ => false end &&
                    match e_be (snd p) with [] => true | _ => false end &&
                    forallb (fun t => zmem t (ekeys g)) (e_jt (snd p))) g &&
  negb (zmem top (ekeys g)) && negb (Z.eqb top 0) && negb (Z.eqb fresh top) && negb (zmem fresh (ekeys g)).

Lemma input_okb_sound g top fresh : input_okb g top fresh = true -> Input g top fresh.
Proof.
  unfold input_okb. intros H.
  apply andb_true_iff in H as [H H6]. apply andb_true_iff in H as [H H5]. apply andb_true_iff in H as [H H4].
  apply andb_true_iff in H as [H H3]. apply andb_true_iff in H as [H1 H2]. rewrite forallb_forall in H2.
  constructor.
  - apply nodupb_sound. exact H1.
  - intros x b Hin. specialize (H2 (x, b) Hin). cbn [snd] in H2. apply andb_true_iff in H2 as [H2 _].
    apply andb_true_iff in H2 as [A B]. split.
    + destruct (e_kind b); try discriminate. apply Z.eqb_eq in A. congruence.
    + destruct (e_be b); [reflexivity|discriminate].
  - intros x b t Hin Ht. specialize (H2 (x, b) Hin). cbn [snd] in H2. apply andb_true_iff in H2 as [_ C].
    rewrite forallb_forall in C. apply zmem_In. apply C. exact Ht.
  - apply negb_true_iff in H3, H4, H5. apply zmem_false in H3. apply Z.eqb_neq in H4, H5. auto.
  - apply negb_true_iff in H6. apply zmem_false in H6. exact H6.
Qed.

(* the hierarchy is the flat input: the top region and original blocks in it *)
Definition flat_inputb (h : hier) (lvl : name) : bool :=
  forallb (fun n => Z.eqb (n_name n) lvl || (Z.eqb (n_parent n) lvl && match n_kind n with KOrig _ => true | _ => false end)) h.

Definition closing_col (h ha : hier) (lvl new cls : Z) (preds : list name) : Z :=
  match level_graph h lvl with
  | Some g1 =>
    if flat_inputb h lvl && input_okb g1 TOP new && Z.eqb cls 3 then
      match join_returns g1 new 3 with
      | Ok g1' =>
        let h' := write_back h lvl g1' in
        if Nat.eqb (length h') (length ha) &&
           forallb (fun n => match find ha (n_name n) with Some m => xnode_eqb n m | None => false end) h'
        then 3 else 2
      | _ => 2
      end
    else 2
  | None => 2
  end.

Definition ins_col (rows : list (list Z)) : Z :=
  let '(br, ar, op, st) := split_ib rows in
  match decode br, op with
  | Some (_, h), lvl :: new :: cls :: r =>
    match take_list r with
    | Some (preds, r1) =>
      match take_list r1 with
      | Some ([e0], []) =>
        if existsb (fun p => match find h p with Some n => is_region n | None => true end) preds then 2 else
        if walk_pre_ins h lvl TOP new e0 preds cls then
          match level_graph h lvl, decode ar with
          | Some g1, Some (_, ha) =>
            match insert_block g1 new preds [e0] cls with
            | Ok g1' =>
              let h' := write_back h lvl g1' in
              if Nat.eqb (length h') (length ha) &&
                 forallb (fun n => match find ha (n_name n) with Some m => xnode_eqb n m | None => false end) h'
              then 1 else 0
            | _ => 0
            end
          | _, _ => 0
          end
        else 0
      | Some ([], []) => match decode ar with Some (_, ha) => closing_col h ha lvl new cls preds | None => 2 end
      | Some (_, []) => 2
      | _ => 0
      end
    | None => 0
    end
  | _, _ => 0
  end.

Definition run_ibh2 (rows : list (list Z)) : list Z := run_ibh rows ++ [ins_col rows].

(* Dfs.v — SCFG.is_reachable_dfs, line by line: the to_visit list as a stack (pop from
   the end, extend at the end), the seen set, the three-way test.  The result is the
   reference reachability (a path of at least one edge), for every graph. *)
From Coq Require Import List ZArith Bool Lia.
Import ListNotations.
From V Require Import Valid.Hier Model.Graph Model.Queries.
Local Open Scope Z_scope.

(* stk: to_visit with its last element first *)
Fixpoint dfs (fuel : nat) (g : graph) (seen stk : list name) (e : name) : option bool :=
  match fuel with
  | 0%nat => None
  | S f =>
    match stk with
    | [] => Some false
    | b :: t =>
      if zmem b seen then dfs f g seen t e
      else if Z.eqb b e then Some true
      else dfs f g (b :: seen) (rev (gsucc g b) ++ t) e
    end
  end.

Definition all_names (g : graph) (init : list name) : list name :=
  init ++ flat_map (fun p => jts (snd p)) g.
Definition max_deg (g : graph) : nat := fold_right (fun p acc => Nat.max (length (jts (snd p))) acc) 0%nat g.
Definition dfs_fuel (g : graph) (init : list name) : nat :=
  S (length init + (max_deg g + 1) * length (all_names g init)).

(* None = KeyError (begin is no block of the graph) *)
Definition reach_dfs (g : graph) (a b : name) : option (option bool) :=
  match gfind g a with
  | None => None
  | Some ba => Some (dfs (dfs_fuel g (jts ba)) g [] (rev (jts ba)) b)
  end.

Section Proof.
Variable g : graph.
Variable init : list name.
Variable e : name.

Notation succ := (gsucc g).
Definition R0 (x : name) : Prop := exists t, In t init /\ Reach succ t x.

Lemma gsucc_names x y : In y (succ x) -> In y (all_names g init).
Proof.
  unfold gsucc, gfind. intros H. destruct (zassoc x g) as [b|] eqn:E; [|destruct H].
  apply in_or_app. right. apply in_flat_map. exists (x, b). split; [apply zassoc_In; exact E|exact H].
Qed.

Lemma gsucc_deg x : (length (succ x) <= max_deg g)%nat.
Proof.
  unfold gsucc, gfind, max_deg. destruct (zassoc x g) as [b|] eqn:E; [|cbn; lia].
  apply zassoc_In in E. induction g as [|p r IH]; [destruct E|]. cbn [fold_right].
  destruct E as [->|E]; [cbn; lia|]. specialize (IH E). lia.
Qed.

Record Inv (seen stk : list name) : Prop := {
  i_nd : NoDup seen;
  i_names : incl (seen ++ stk) (all_names g init);
  i_reach : forall x, In x (seen ++ stk) -> R0 x;
  i_closed : forall x y, In x seen -> In y (succ x) -> In y seen \/ In y stk;
  i_init : forall t, In t init -> In t seen \/ In t stk;
  i_end : ~ In e seen }.

Definition mu (seen stk : list name) : nat :=
  (length stk + (max_deg g + 1) * (length (all_names g init) - length seen))%nat.

Theorem dfs_correct : forall fuel seen stk,
  Inv seen stk -> (mu seen stk < fuel)%nat ->
  exists r, dfs fuel g seen stk e = Some r /\ (r = true <-> R0 e).
Proof.
  induction fuel as [|f IH]; intros seen stk HI Hmu; [lia|]. cbn [dfs].
  destruct stk as [|b t].
  - exists false. split; [reflexivity|]. split; [discriminate|]. intros [t [Ht Hr]]. exfalso.
    assert (Hall : forall t0 y, Reach succ t0 y -> In t0 init -> In y seen).
    { intros t0 y Hy. induction Hy as [x|x y z _ IHy Hz]; intros Hx0.
      - destruct (i_init _ _ HI x Hx0) as [H|[]]. exact H.
      - destruct (i_closed _ _ HI y z (IHy Hx0) Hz) as [H|[]]. exact H. }
    apply (i_end _ _ HI). apply (Hall t e Hr Ht).
  - destruct (zmem b seen) eqn:Hb.
    + apply zmem_In in Hb. apply IH.
      * destruct HI. constructor; auto.
        -- intros x Hx. apply i_names0. apply in_app_or in Hx as [Hx|Hx]; apply in_or_app; [left; exact Hx|right; right; exact Hx].
        -- intros x Hx. apply i_reach0. apply in_app_or in Hx as [Hx|Hx]; apply in_or_app; [left; exact Hx|right; right; exact Hx].
        -- intros x y Hx Hy. destruct (i_closed0 x y Hx Hy) as [H|[<-|H]]; auto.
        -- intros t0 Ht0. destruct (i_init0 t0 Ht0) as [H|[<-|H]]; auto.
      * unfold mu in *. cbn [length] in Hmu. lia.
    + apply zmem_false in Hb. destruct (Z.eqb_spec b e) as [->|Hbe].
      * exists true. split; [reflexivity|]. split; [intros _|reflexivity].
        apply (i_reach _ _ HI). apply in_or_app. right. left. reflexivity.
      * assert (Hbn : In b (all_names g init)) by (apply (i_names _ _ HI); apply in_or_app; right; left; reflexivity).
        assert (Hlen : (length (b :: seen) <= length (all_names g init))%nat).
        { apply NoDup_incl_length; [constructor; [exact Hb|apply (i_nd _ _ HI)]|].
          intros x [<-|Hx]; [exact Hbn|]. apply (i_names _ _ HI). apply in_or_app. left. exact Hx. }
        apply IH.
        -- constructor.
           ++ constructor; [exact Hb|apply (i_nd _ _ HI)].
           ++ intros x Hx. cbn [app] in Hx. destruct Hx as [<-|Hx]; [exact Hbn|].
              apply in_app_or in Hx as [Hx|Hx]; [apply (i_names _ _ HI); apply in_or_app; left; exact Hx|].
              apply in_app_or in Hx as [Hx|Hx]; [apply in_rev in Hx; apply (gsucc_names b x Hx)|].
              apply (i_names _ _ HI). apply in_or_app. right. right. exact Hx.
           ++ assert (Rb : R0 b) by (apply (i_reach _ _ HI); apply in_or_app; right; left; reflexivity).
              intros x Hx. cbn [app] in Hx. destruct Hx as [<-|Hx]; [exact Rb|].
              apply in_app_or in Hx as [Hx|Hx]; [apply (i_reach _ _ HI); apply in_or_app; left; exact Hx|].
              apply in_app_or in Hx as [Hx|Hx].
              ** apply in_rev in Hx. destruct Rb as [t0 [Ht0 Hr]]. exists t0. split; [exact Ht0|]. eapply R_step; eauto.
              ** apply (i_reach _ _ HI). apply in_or_app. right. right. exact Hx.
           ++ intros x y [<-|Hx] Hy.
              ** right. apply in_or_app. left. apply -> in_rev. exact Hy.
              ** destruct (i_closed _ _ HI x y Hx Hy) as [H|[<-|H]]; [left; right; exact H|left; left; reflexivity|].
                 right. apply in_or_app. right. exact H.
           ++ intros t0 Ht0. destruct (i_init _ _ HI t0 Ht0) as [H|[<-|H]]; [left; right; exact H|left; left; reflexivity|].
              right. apply in_or_app. right. exact H.
           ++ intros [E|H]; [congruence|apply (i_end _ _ HI H)].
        -- unfold mu in *. cbn [length] in Hmu, Hlen |- *. rewrite app_length, rev_length.
           pose proof (gsucc_deg b) as Hd. nia.
Qed.
End Proof.

(* is_reachable_dfs decides "a path of at least one edge", on every graph *)
Theorem reach_dfs_spec g a b :
  match reach_dfs g a b with
  | None => gfind g a = None
  | Some r => exists v, r = Some v /\ (v = true <-> PathGe1 g a b)
  end.
Proof.
  unfold reach_dfs. destruct (gfind g a) as [ba|] eqn:Ea; [|reflexivity].
  destruct (dfs_correct g (jts ba) b (dfs_fuel g (jts ba)) [] (rev (jts ba))) as [r [E Hr]].
  - constructor.
    + constructor.
    + intros x Hx. cbn [app] in Hx. apply in_rev in Hx. apply in_or_app. left. exact Hx.
    + intros x Hx. cbn [app] in Hx. apply in_rev in Hx. exists x. split; [exact Hx|constructor].
    + intros x y [].
    + intros t Ht. right. apply -> in_rev. exact Ht.
    + intros [].
  - unfold mu, dfs_fuel. rewrite rev_length. cbn [length]. lia.
  - exists r. split; [exact E|]. rewrite Hr. unfold R0, PathGe1, gsucc at 2. rewrite Ea. tauto.
Qed.

(* Back.v — the code generator (SCFG2ASTTransformer.transform / codegen / lookup,
   ast_transforms.py) on an exported hierarchy: a model that produces the same
   tree, node for node, and the census of that tree (property C10) computed
   inside Coq.

   Statements and tests of the original blocks are identities allotted by the
   harness; what the generator adds is explicit: assignments of control
   variables, the loop-continue flags, the return-value variable, pass, if
   cascades over control variables, while loops. *)
From Coq Require Import List ZArith Bool Lia.
Import ListNotations.
From V Require Import Valid.Hier Valid.FlatRegion Model.Graph Model.Iter Model.IterHier Model.Prune.
Local Open Scope Z_scope.

Inductive ast :=
| AOrig (id : Z)                                   (* a statement of an original block *)
| ARetAssign (id : Z)                              (* __scfg_return_value__ = <value of the return statement id> *)
| AAssign (var val : Z)                            (* control variable := constant *)
| APass
| AReturn                                          (* return __scfg_return_value__ *)
| ACont (k : Z)                                    (* __scfg_loop_cont_k__ = True *)
| ALatch (k var : Z)                               (* __scfg_loop_cont_k__ = not var *)
| AIfTest (id : Z) (t e : list ast)                (* if <test of an original block> *)
| AIfIn (var : Z) (vals : list Z) (t e : list ast) (* if var in (vals) *)
| AWhile (k : Z) (body : list ast).                (* while __scfg_loop_cont_k__ *)

Inductive cerr := CNotImpl | CKey | CAssert | CIndex | CAttr | CFuel.
Inductive cres (A : Type) := COk (a : A) | CErr (e : cerr).
Arguments COk {A}. Arguments CErr {A}.
Definition cbind {A B} (r : cres A) (f : A -> cres B) : cres B :=
  match r with COk a => f a | CErr e => CErr e end.
Notation "'dc' x <- r ; k" := (cbind r (fun x => k)) (at level 200, x pattern, r at level 100, k at level 200).

(* what the harness tells about an original block: identities of its statements in
   order (a two-way block's last one is its test) and whether the last one is a return *)
Record oinfo := mkOI { oi_ids : list Z; oi_last_ret : bool }.

Section Codegen.
Variable h : hier.
Variable info : list (name * oinfo).
(* an original block is a PythonASTBlock exactly when the harness supplied its statements;
   other original block classes are refused by the generator *)

Definition DEPTH : nat := 200%nat.

(* rlookup: climb the parent chain *)
Fixpoint rlookup (fuel : nat) (r item : name) : cres node :=
  match fuel with
  | O => CErr CFuel
  | S f =>
    if zmem item (children_of h r) then
      match find h item with Some n => COk n | None => CErr CKey end
    else
      match find h r with
      | Some nr => if Z.eqb (n_parent nr) 0 then CErr CKey else rlookup f (n_parent nr) item
      | None => CErr CKey
      end
  end.

(* lookup: the graph of the region on top of the stack, then its parents *)
Definition lookup (top item : name) : cres node :=
  if zmem item (children_of h top) then
    match find h item with Some n => COk n | None => CErr CKey end
  else
    match find h top with
    | Some nr => if Z.eqb (n_parent nr) 0 then CErr CAttr else rlookup DEPTH (n_parent nr) item
    | None => CErr CKey
    end.

Fixpoint split_last {A} (l : list A) : option (list A * A) :=
  match l with
  | [] => None
  | [x] => Some ([], x)
  | x :: r => match split_last r with Some (p, y) => Some (x :: p, y) | None => None end
  end.

Definition is_branch_region (n : node) : bool :=
  match n_kind n with KRegion rk _ _ _ _ _ => Z.eqb rk 4 | _ => false end.

(* codegen, with the loop-continue counter threaded through *)
Fixpoint codegen (fuel : nat) (top : name) (cnt : Z) (n : node) {struct fuel} : cres (list ast * Z) :=
  match fuel with
  | O => CErr CFuel
  | S f =>
    let gen_target (top' : name) (c : Z) (t : name) : cres (list ast * Z) :=
      dc b <- lookup top' t; codegen f top' c b in
    let gen_view (r : name) (c : Z) : cres (list ast * Z) :=
      match view_of h r with
      | None => CErr CKey
      | Some names =>
        fold_left (fun acc x =>
          dc a <- acc;
          let '(code, c1) := a in
          match find h x with
          | None => CErr CKey
          | Some b => if is_branch_region b then COk (code, c1)
                      else dc r1 <- codegen f r c1 b; let '(code1, c2) := r1 in COk (code ++ code1, c2)
          end) names (COk ([], c))
      end in
    match n_kind n with
    | KOrig pl =>
      match zassoc (n_name n) info with
      | None => CErr CNotImpl
      | Some oi =>
        match jump_targets n with
        | [t1; t2] =>
          match split_last (oi_ids oi) with
          | None => CErr CIndex
          | Some (pre, tid) =>
            dc r1 <- gen_target top cnt t1;
            let '(body, c1) := r1 in
            dc r2 <- gen_target top c1 t2;
            let '(orelse, c2) := r2 in
            COk (map AOrig pre ++ [AIfTest tid body orelse], c2)
          end
        | jts =>
          let fallthrough := Nat.eqb (length (n_jt n)) 1 in
          match split_last (oi_ids oi) with
          | Some (pre, lid) =>
            if fallthrough && oi_last_ret oi then COk (map AOrig pre ++ [ARetAssign lid], cnt)
            else if fallthrough || (match jts with [] => true | _ => false end) then COk (map AOrig (oi_ids oi), cnt)
            else CErr CNotImpl
          | None =>
            if fallthrough || (match jts with [] => true | _ => false end) then COk ([], cnt) else CErr CNotImpl
          end
        end
      end
    | KRegion rk _ _ _ _ _ =>
      if Z.eqb rk 3 || Z.eqb rk 5 || Z.eqb rk 4 then gen_view (n_name n) cnt
      else if Z.eqb rk 2 then
        let k := cnt + 1 in
        dc r <- gen_view (n_name n) k;
        let '(body, c1) := r in
        COk ([ACont k; AWhile k body], c1)
      else CErr CNotImpl
    | KAssign a => COk (map (fun p => AAssign (fst p) (snd p)) a, cnt)
    | KPlain cls =>
      if Z.eqb cls 4 then COk ([], cnt)
      else if Z.eqb cls 5 then COk ([APass], cnt)
      else if Z.eqb cls 3 then COk ([AReturn], cnt)
      else CErr CNotImpl
    | KBranch cls v tbl =>
      if Z.eqb cls 12 then
        if Nat.eqb (length (jump_targets n)) 1 && Nat.eqb (length (n_be n)) 1
        then COk ([ALatch cnt v], cnt - 1) else CErr CAssert
      else if Z.eqb cls 13 || Z.eqb cls 11 then
        let vals t := map fst (filter (fun p => Z.eqb (snd p) t) tbl) in
        (fix cascade (ts : list name) (c : Z) : cres (list ast * Z) :=
           match ts with
           | [] => CErr CIndex
           | [t] => gen_target top c t
           | t :: rest =>
             dc r1 <- gen_target top c t;
             let '(body, c1) := r1 in
             dc r2 <- cascade rest c1;
             let '(orelse, c2) := r2 in
             COk ([AIfIn v (vals t) body orelse], c2)
           end) (jump_targets n) cnt
      else CErr CNotImpl
    end
  end.

Definition transform (top : name) : cres (list ast) :=
  match view_of h top with
  | None => CErr CKey
  | Some names =>
    dc r <- fold_left (fun acc x =>
              dc a <- acc;
              let '(code, c1) := a in
              match find h x with
              | None => CErr CKey
              | Some b => if is_branch_region b then COk (code, c1)
                          else dc r1 <- codegen (S (S (length h)) * 4) top c1 b;
                               let '(code1, c2) := r1 in COk (code ++ code1, c2)
              end) names (COk ([], 0));
    COk (fst r)
  end.
End Codegen.

(* ---------- census of a generated tree ---------- *)
Fixpoint census_stmts (fuel : nat) (l : list ast) : list Z :=
  match fuel with
  | O => []
  | S f =>
    flat_map (fun a => match a with
                       | AOrig id | ARetAssign id => [id]
                       | AIfTest _ t e | AIfIn _ _ t e => census_stmts f t ++ census_stmts f e
                       | AWhile _ b => census_stmts f b
                       | _ => [] end) l
  end.

Fixpoint census_tests (fuel : nat) (l : list ast) : list Z :=
  match fuel with
  | O => []
  | S f =>
    flat_map (fun a => match a with
                       | AIfTest id t e => id :: census_tests f t ++ census_tests f e
                       | AIfIn _ _ t e => census_tests f t ++ census_tests f e
                       | AWhile _ b => census_tests f b
                       | _ => [] end) l
  end.

Fixpoint census_assigns (fuel : nat) (l : list ast) : list (Z * Z) :=
  match fuel with
  | O => []
  | S f =>
    flat_map (fun a => match a with
                       | AAssign v z => [(v, z)]
                       | AIfTest _ t e | AIfIn _ _ t e => census_assigns f t ++ census_assigns f e
                       | AWhile _ b => census_assigns f b
                       | _ => [] end) l
  end.

Fixpoint ast_depth (fuel : nat) (l : list ast) : nat :=
  match fuel with
  | O => O
  | S f => S (fold_left Nat.max (map (fun a => match a with
                                               | AIfTest _ t e | AIfIn _ _ t e => Nat.max (ast_depth f t) (ast_depth f e)
                                               | AWhile _ b => ast_depth f b
                                               | _ => O end) l) O)
  end.

(* PipeBounded.v — the pipeline model run on EVERY closed control-flow graph up
   to a node bound, inside the proof assistant: the model completes all three
   stages and the verified validators accept the hierarchy it produces after
   each stage.  The bound is part of every statement.  Together with the exact
   correspondence model = implementation (PipeRun.run_pipe, checked on the same
   graphs with the same name table on every run) this is the bounded form of
   C01..C06 over a model of the whole pipeline. *)
From Coq Require Import List ZArith Bool Lia.
Import ListNotations.
From V Require Import Valid.Hier Valid.Walk Valid.FlatRegion Valid.Wf Valid.Cons Valid.Struct
     Model.Graph Model.Edits Model.Pipe Model.PipeRun Gen.NameUniverse.
Local Open Scope Z_scope.

(* ---------- the input space: closed graphs on n blocks (harness/vh/gen_graphs.py) ---------- *)
Definition idxs (n : nat) : list Z := map Z.of_nat (seq 0 n).

(* successor tuples: none, one, or two distinct successors, in order *)
Definition options (n : nat) : list (list Z) :=
  [] :: map (fun a => [a]) (idxs n) ++
  flat_map (fun a => flat_map (fun b => if Z.eqb a b then [] else [[a; b]]) (idxs n)) (idxs n).

Fixpoint product (k : nat) (opts : list (list Z)) : list (list (list Z)) :=
  match k with
  | O => [[]]
  | S k' => flat_map (fun o => map (cons o) (product k' opts)) opts
  end.

Definition succ_of (g : list (list Z)) (x : Z) : list Z := nth (Z.to_nat x) g [].
Definition pred_of (g : list (list Z)) (x : Z) : list Z :=
  filter (fun p => zmem x (succ_of g p)) (idxs (length g)).

(* exactly one block without predecessors, everything reachable from it, some
   block without successors, everything reaches one *)
Definition closedb (g : list (list Z)) : bool :=
  let n := length g in
  let fuel := S (S (n * n)) in
  match filter (fun x => match pred_of g x with [] => true | _ => false end) (idxs n) with
  | [hd] =>
    match closure (succ_of g) fuel [hd] with
    | Some R =>
      Nat.eqb (length R) n &&
      let exits := filter (fun x => match succ_of g x with [] => true | _ => false end) (idxs n) in
      match exits with
      | [] => false
      | _ => match closure (pred_of g) fuel exits with
             | Some R' => Nat.eqb (length R') n
             | None => false end
      end
    | None => false
    end
  | _ => false
  end.

Definition closed_graphs (n : nat) : list (list (list Z)) := filter closedb (product n (options n)).

(* ---------- from a graph to the model's initial state, and from a state to the validators' view ---------- *)
Definition nmU := nm_of universe_rows.
Definition topU := nmU 1 K_META 0.
Definition in_id (i : Z) : name := nth (Z.to_nat i) input_ids (-1).

Definition init_graph (g : list (list Z)) : pgraph :=
  map (fun p => (in_id (fst p), mkP (map in_id (snd p)) [] (PLeaf (EPlain 100)))) (combine (idxs (length g)) g).

Definition init_state (g : list (list Z)) : pst := mkS [(topU, init_graph g)] [(K_META, 1)] [].

Definition orig_of (g : list (list Z)) : ograph :=
  map (fun p => mkO (in_id (fst p)) 1 (map in_id (snd p))) (combine (idxs (length g)) g).

Definition to_kind (s : pst) (x r : name) (b : pblk) : nkind :=
  match p_kind b with
  | PLeaf (EPlain c) => if Z.eqb c 100 then KOrig 1 else KPlain c
  | PLeaf (EAssign a) => KAssign a
  | PLeaf (EBranch c v t) => KBranch c v t
  | PRegion rk hd ex =>
    KRegion rk hd ex (match zassoc x (s_store s) with Some gx => gkeys gx | None => [] end) r true
  end.

(* every block and region of the store, the top region first; the parent of an item is
   the region whose graph holds it.  (The implementation's parent_region POINTERS are not
   part of the model: the validators see the true nesting.) *)
Definition to_hier (s : pst) (top : name) : hier :=
  mkNode top 0 [] [] (KRegion 1 0 0 (match zassoc top (s_store s) with Some g => gkeys g | None => [] end) 0 true) ::
  flat_map (fun rg => map (fun xb => mkNode (fst xb) (fst rg) (p_jt (snd xb)) (p_be (snd xb))
                                            (to_kind s (fst xb) (fst rg) (snd xb))) (snd rg))
           (s_store s).

(* the validators that C01, C03..C06 use, at stage k *)
Definition checks_at (k : Z) (g : ograph) (h : hier) : bool :=
  c01_check false g h && c01_check true g h && wf_check h && cons_check g h && c06_check h &&
  (if Z.eqb k 1 then c03_check false h else true) &&
  (if Z.eqb k 2 then c03_check true h else true).

Definition stage_ok (k : Z) (g : list (list Z)) (s : pst) : option pst :=
  match p_stage nmU k s topU with
  | POk s' => if checks_at k (orig_of g) (to_hier s' topU) then Some s' else None
  | PErr _ => None
  end.

Definition pipeline_ok (g : list (list Z)) : bool :=
  match stage_ok 0 g (init_state g) with
  | Some s0 => match stage_ok 1 g s0 with
               | Some s1 => match stage_ok 2 g s1 with Some _ => true | None => false end
               | None => false end
  | None => false
  end.

(* what pipeline_ok = true means *)
Record StageGood (k : Z) (g : list (list Z)) (s : pst) : Prop := {
  sg_path_flat : PathEq false (orig_of g) (to_hier s topU);
  sg_path_region : PathEq true (orig_of g) (to_hier s topU);
  sg_wf : WfHier (to_hier s topU);
  sg_conserved : Conserved (orig_of g) (to_hier s topU);
  sg_ctrl : CtrlSafe (to_hier s topU);
  sg_loops : k = 1 -> LoopStructured (to_hier s topU);
  sg_struct : k = 2 -> Structured (to_hier s topU) }.

Definition PipelineGood (g : list (list Z)) : Prop :=
  exists s0 s1 s2,
    p_stage nmU 0 (init_state g) topU = POk s0 /\ StageGood 0 g s0 /\
    p_stage nmU 1 s0 topU = POk s1 /\ StageGood 1 g s1 /\
    p_stage nmU 2 s1 topU = POk s2 /\ StageGood 2 g s2.

Lemma stage_ok_sound k g s s' : stage_ok k g s = Some s' ->
  p_stage nmU k s topU = POk s' /\ StageGood k g s'.
Proof.
  unfold stage_ok. destruct (p_stage nmU k s topU) as [s1|e]; [|discriminate].
  destruct (checks_at k (orig_of g) (to_hier s1 topU)) eqn:Hc; [|discriminate].
  intros [= <-]. split; [reflexivity|].
  unfold checks_at in Hc.
  apply andb_true_iff in Hc as [Hc H7]. apply andb_true_iff in Hc as [Hc H6].
  apply andb_true_iff in Hc as [Hc H5]. apply andb_true_iff in Hc as [Hc H4].
  apply andb_true_iff in Hc as [Hc H3]. apply andb_true_iff in Hc as [H1 H2].
  constructor.
  - apply c01_check_sound. exact H1.
  - apply c01_check_sound. exact H2.
  - apply wf_check_sound. exact H3.
  - apply cons_check_sound. exact H4.
  - apply c06_check_sound. exact H5.
  - intros ->. cbn in H6. unfold c03_check in H6. eapply struct_check_loop_sound. exact H6.
  - intros ->. cbn in H7. unfold c03_check in H7. eapply struct_check_sound. exact H7.
Qed.

Lemma pipeline_ok_sound g : pipeline_ok g = true -> PipelineGood g.
Proof.
  unfold pipeline_ok.
  destruct (stage_ok 0 g (init_state g)) as [s0|] eqn:E0; [|discriminate].
  destruct (stage_ok 1 g s0) as [s1|] eqn:E1; [|discriminate].
  destruct (stage_ok 2 g s1) as [s2|] eqn:E2; [|discriminate].
  intros _. apply stage_ok_sound in E0 as [A0 B0]. apply stage_ok_sound in E1 as [A1 B1].
  apply stage_ok_sound in E2 as [A2 B2]. exists s0, s1, s2. auto 10.
Qed.

Definition all_ok (n : nat) : bool := forallb pipeline_ok (closed_graphs n).

Lemma all_ok_sound n : all_ok n = true -> forall g, In g (closed_graphs n) -> PipelineGood g.
Proof.
  unfold all_ok. intros H g Hin. rewrite forallb_forall in H. apply pipeline_ok_sound. auto.
Qed.

(* ---------- splitting the space by the successors of block 0 (for n = 5 the evaluation is
   sharded over separately compiled files, see harness/vh/bounded5.py) ---------- *)
Lemma filter_flat_map {A B} (f : B -> bool) (g : A -> list B) (l : list A) :
  filter f (flat_map g l) = flat_map (fun x => filter f (g x)) l.
Proof.
  induction l as [|x l IH]; [reflexivity|]. cbn. rewrite filter_app, IH. reflexivity.
Qed.

Definition shard_of (n : nat) (o : list Z) : list (list (list Z)) :=
  filter closedb (map (cons o) (product n (options (S n)))).

Lemma closed_graphs_split n :
  closed_graphs (S n) = flat_map (shard_of n) (options (S n)).
Proof. unfold closed_graphs, shard_of. cbn [product]. apply filter_flat_map. Qed.

Lemma all_ok_from_shards n :
  forallb (fun o => forallb pipeline_ok (shard_of n o)) (options (S n)) = true -> all_ok (S n) = true.
Proof.
  unfold all_ok. rewrite closed_graphs_split. intros H. rewrite forallb_forall in *.
  intros g Hg. apply in_flat_map in Hg as [o [Ho Hg]]. specialize (H o Ho).
  rewrite forallb_forall in H. apply H. exact Hg.
Qed.

(* two-level split: by the successors of blocks 0 and 1 *)
Lemma map_flat_map {A B C} (f : B -> C) (g : A -> list B) (l : list A) :
  map f (flat_map g l) = flat_map (fun x => map f (g x)) l.
Proof. induction l as [|x l IH]; [reflexivity|]. cbn. rewrite map_app, IH. reflexivity. Qed.

Definition shard2_of (n : nat) (o0 o1 : list Z) : list (list (list Z)) :=
  filter closedb (map (fun r => o0 :: o1 :: r) (product n (options (S (S n))))).

Lemma closed_graphs_split2 n :
  closed_graphs (S (S n)) =
  flat_map (fun o0 => flat_map (fun o1 => shard2_of n o0 o1) (options (S (S n)))) (options (S (S n))).
Proof.
  unfold closed_graphs, shard2_of. cbn [product]. rewrite filter_flat_map. apply flat_map_ext. intros o0.
  rewrite map_flat_map, filter_flat_map. apply flat_map_ext. intros o1. rewrite map_map. reflexivity.
Qed.

Lemma all_ok_from_shards2 n :
  forallb (fun o0 => forallb (fun o1 => forallb pipeline_ok (shard2_of n o0 o1)) (options (S (S n)))) (options (S (S n))) = true ->
  all_ok (S (S n)) = true.
Proof.
  unfold all_ok. rewrite closed_graphs_split2. intros H. rewrite forallb_forall in *.
  intros g Hg. apply in_flat_map in Hg as [o0 [Ho0 Hg]]. apply in_flat_map in Hg as [o1 [Ho1 Hg]].
  specialize (H o0 Ho0). rewrite forallb_forall in H. specialize (H o1 Ho1). rewrite forallb_forall in H. apply H. exact Hg.
Qed.

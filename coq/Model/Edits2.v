(* Edits2.v — the remaining edit primitives (control-block variant, joining
   tails and exits), a verified checker for the control-block arcs, and the
   correspondence driver for C14. *)
From Coq Require Import List ZArith Bool Lia.
Import ListNotations.
From V Require Import Valid.Hier Model.Graph Model.Edits.
Local Open Scope Z_scope.

(* ---------- insert_block_and_control_blocks ---------- *)
(* names: the assignment-block names the generator hands out, in order *)
Fixpoint cb_arcs (g : egraph) (new var : Z) (ss : list name) (jt : list name) (value : Z)
         (tbl : list (Z * name)) (names : list name)
  : option (egraph * list name * Z * list (Z * name) * list name) :=
  match ss with
  | [] => Some (g, jt, value, tbl, names)
  | s :: rest =>
    match names with
    | [] => None
    | a :: names' =>
      cb_arcs (dset g a (mkE [new] [] (EAssign [(var, value)]))) new var rest
              (replace_first s a jt) (value + 1) (tset tbl value s) names'
    end
  end.

Fixpoint cb_preds (g : egraph) (new var : Z) (S : list name) (preds : list name) (value : Z)
         (tbl : list (Z * name)) (names : list name) : res (egraph * list (Z * name)) :=
  match preds with
  | [] => Ok (g, tbl)
  | p :: rest =>
    match efind g p with
    | None => KeyError
    | Some b =>
      let ss := zsort (filter (fun t => zmem t S) (e_jt b)) in
      match cb_arcs g new var ss (e_jt b) value tbl names with
      | None => AssertionError
      | Some (g1, jt, value', tbl', names') =>
        match dpop g1 p with
        | None => KeyError
        | Some (b0, g2) =>
          match replace_jt b0 jt with
          | None => AssertionError
          | Some b' => cb_preds (dset g2 p b') new var S rest value' tbl' names'
          end
        end
      end
    end
  end.

Definition insert_cb (g : egraph) (new var : Z) (preds S : list name) (names : list name) (cls : Z)
  : res egraph :=
  match cb_preds g new var S preds 0 [] names with
  | Ok (g1, tbl) => Ok (dset g1 new (mkE S [] (EBranch cls var tbl)))
  | KeyError => KeyError
  | AssertionError => AssertionError
  end.

(* ---------- join_tails_and_exits ---------- *)
Definition join_tails_exits (g : egraph) (tails exits : list name) (tname ename : name)
           (tcls ecls : Z) : res (egraph * name * name) :=
  match tails, exits with
  | [t], [e] => Ok (g, t, e)
  | [t], _ :: _ :: _ =>
    match insert_block g ename tails exits ecls with
    | Ok g' => Ok (g', t, ename) | KeyError => KeyError | AssertionError => AssertionError end
  | _ :: _ :: _, [e] =>
    match insert_block g tname tails exits tcls with
    | Ok g' => Ok (g', tname, e) | KeyError => KeyError | AssertionError => AssertionError end
  | _ :: _ :: _, _ :: _ :: _ =>
    match insert_block g tname tails exits tcls with
    | Ok g1 =>
      match insert_block g1 ename [tname] exits ecls with
      | Ok g' => Ok (g', tname, ename) | KeyError => KeyError | AssertionError => AssertionError end
    | KeyError => KeyError | AssertionError => AssertionError end
  | _, _ => AssertionError
  end.

(* ---------- verified checker: every rerouted arc has its own assignment ---------- *)
(* position k of predecessor p: unchanged, or it now goes to an assignment
   block a -> new that sets var := i where the head's table sends i to the
   arc's original target *)
Definition ArcOk (g' : egraph) (new var : Z) (tbl : list (Z * name)) (s t' : name) : Prop :=
  t' = s \/
  exists i, efind g' t' = Some (mkE [new] [] (EAssign [(var, i)])) /\ zassoc i tbl = Some s.

Definition arc_okb (g' : egraph) (new var : Z) (tbl : list (Z * name)) (s t' : name) : bool :=
  Z.eqb t' s ||
  match efind g' t' with
  | Some (mkE [n] [] (EAssign [(v, i)])) =>
    Z.eqb n new && Z.eqb v var &&
    match zassoc i tbl with Some s' => Z.eqb s' s | None => false end
  | _ => false
  end.

Lemma arc_okb_sound g' new var tbl s t' : arc_okb g' new var tbl s t' = true -> ArcOk g' new var tbl s t'.
Proof.
  unfold arc_okb, ArcOk. intros H. apply orb_true_iff in H as [H|H].
  - left. apply Z.eqb_eq. exact H.
  - right. destruct (efind g' t') as [[jt be k]|]; [|discriminate].
    destruct jt as [|n [|? ?]]; try discriminate. destruct be; [|discriminate].
    destruct k as [|a|]; try discriminate. destruct a as [|[v i] [|? ?]]; try discriminate.
    apply andb_true_iff in H as [H H3]. apply andb_true_iff in H as [H1 H2].
    apply Z.eqb_eq in H1. apply Z.eqb_eq in H2. subst.
    destruct (zassoc i tbl) as [s'|] eqn:E; [|discriminate]. apply Z.eqb_eq in H3. subst.
    exists i. auto.
Qed.

Definition cb_ok (g g' : egraph) (new : Z) (preds S : list name) : bool :=
  match efind g' new with
  | Some (mkE jt [] (EBranch _ var tbl)) =>
    list_eqb jt S &&
    forallb (fun p =>
      match efind g p, efind g' p with
      | Some b, Some b' =>
        Nat.eqb (length (e_jt b)) (length (e_jt b')) &&
        forallb (fun st => arc_okb g' new var tbl (fst st) (snd st)) (combine (e_jt b) (e_jt b'))
      | _, _ => false
      end) preds
  | _ => false
  end.

Theorem cb_ok_sound g g' new preds S :
  cb_ok g g' new preds S = true ->
  exists cls var tbl, efind g' new = Some (mkE S [] (EBranch cls var tbl)) /\
  forall p, In p preds -> exists b b', efind g p = Some b /\ efind g' p = Some b' /\
    length (e_jt b) = length (e_jt b') /\
    forall k s t', nth_error (e_jt b) k = Some s -> nth_error (e_jt b') k = Some t' ->
                   ArcOk g' new var tbl s t'.
Proof.
  unfold cb_ok. destruct (efind g' new) as [[jt be k]|]; [|discriminate].
  destruct be; [|discriminate]. destruct k as [| |cls var tbl]; try discriminate.
  intros H. apply andb_true_iff in H as [Hjt Hall]. apply list_eqb_eq in Hjt. subst jt.
  exists cls, var, tbl. split; [reflexivity|]. intros p Hp.
  rewrite forallb_forall in Hall. specialize (Hall p Hp).
  destruct (efind g p) as [b|]; [|discriminate]. destruct (efind g' p) as [b'|]; [|discriminate].
  apply andb_true_iff in Hall as [Hlen Hfa]. apply Nat.eqb_eq in Hlen.
  exists b, b'. repeat split; auto. intros k s t' Hs Ht.
  rewrite forallb_forall in Hfa. apply arc_okb_sound.
  apply (Hfa (s, t')). clear -Hs Ht. revert k Hs Ht. generalize (e_jt b') as l2. generalize (e_jt b) as l1.
  induction l1 as [|x r IH]; intros [|y r2] [|k]; simpl; try discriminate.
  - intros [= ->] [= ->]. left; reflexivity.
  - intros H1 H2. right. eapply IH; eauto.
Qed.

(* ---------- order-exact equality of graphs ---------- *)
Definition pairs_eqb (a b : list (Z * Z)) : bool :=
  list_eqb (map fst a) (map fst b) && list_eqb (map snd a) (map snd b).

Definition ekind_eqb (a b : ekind) : bool :=
  match a, b with
  | EPlain c1, EPlain c2 => Z.eqb c1 c2
  | EAssign a1, EAssign a2 => pairs_eqb a1 a2
  | EBranch c1 v1 t1, EBranch c2 v2 t2 => Z.eqb c1 c2 && Z.eqb v1 v2 && pairs_eqb t1 t2
  | _, _ => false
  end.

Definition eblk_eqb (a b : eblk) : bool :=
  list_eqb (e_jt a) (e_jt b) && list_eqb (e_be a) (e_be b) && ekind_eqb (e_kind a) (e_kind b).

Fixpoint egraph_eqb (a b : egraph) : bool :=
  match a, b with
  | [], [] => true
  | (k1, b1) :: r1, (k2, b2) :: r2 => Z.eqb k1 k2 && eblk_eqb b1 b2 && egraph_eqb r1 r2
  | _, _ => false
  end.

(* ---------- correspondence driver ---------- *)
(* rows:  21/22 name J jt.. B be.. kind     (21: graph before, 22: graph after)
            kind = 0 cls | 1 A (v z).. | 2 cls var T (z t)..
          40 new cls P preds.. S succs..                 insert_block
          41 new var cls P preds.. S succs.. N names..   insert_block_and_control_blocks
          42 fresh cls                                   join_returns
          43 tname ename tcls ecls T tails.. E exits..   join_tails_and_exits
          50 status [solo_tail solo_exit]                0 ok, 1 KeyError, 2 AssertionError
   answer: [agree; cb_ok (1 when not applicable)] *)
Definition decode_kind (r : list Z) : option ekind :=
  match r with
  | [0; c] => Some (EPlain c)
  | 1 :: r1 => match take_pairs r1 with Some (a, []) => Some (EAssign a) | _ => None end
  | 2 :: c :: v :: r1 => match take_pairs r1 with Some (t, []) => Some (EBranch c v t) | _ => None end
  | _ => None
  end.

Definition decode_eblk (r : list Z) : option (name * eblk) :=
  match r with
  | nm :: r0 =>
    match take_list r0 with
    | Some (jt, r1) =>
      match take_list r1 with
      | Some (be, r2) => match decode_kind r2 with Some k => Some (nm, mkE jt be k) | None => None end
      | None => None end
    | None => None end
  | [] => None
  end.

Record c14case := mkCase { c_before : egraph; c_after : egraph; c_op : list Z; c_res : list Z; c_bad : bool }.

Fixpoint decode_c14 (rows : list (list Z)) : c14case :=
  match rows with
  | [] => mkCase [] [] [] [] false
  | row :: rest =>
    let c := decode_c14 rest in
    match row with
    | 21 :: r => match decode_eblk r with
                 | Some nb => mkCase (nb :: c_before c) (c_after c) (c_op c) (c_res c) (c_bad c)
                 | None => mkCase [] [] [] [] true end
    | 22 :: r => match decode_eblk r with
                 | Some nb => mkCase (c_before c) (nb :: c_after c) (c_op c) (c_res c) (c_bad c)
                 | None => mkCase [] [] [] [] true end
    | 50 :: r => mkCase (c_before c) (c_after c) (c_op c) r (c_bad c)
    | _ => mkCase (c_before c) (c_after c) row (c_res c) (c_bad c)
    end
  end.

Definition status_of {A} (r : res A) : Z :=
  match r with Ok _ => 0 | KeyError => 1 | AssertionError => 2 end.

Definition b2z (b : bool) : Z := if b then 1 else 0.

Definition agree_graph (r : res egraph) (c : c14case) : bool :=
  match r, c_res c with
  | Ok g', [0] => egraph_eqb g' (c_after c)
  | KeyError, [1] => true
  | AssertionError, [2] => true
  | _, _ => false
  end.

Definition run_c14 (rows : list (list Z)) : list Z :=
  let c := decode_c14 rows in
  if c_bad c then [0; 0] else
  match c_op c with
  | 40 :: new :: cls :: r =>
    match take_list r with
    | Some (preds, r1) =>
      match take_list r1 with
      | Some (Ss, []) => [b2z (agree_graph (insert_block (c_before c) new preds Ss cls) c); 1]
      | _ => [0; 0] end
    | None => [0; 0] end
  | 41 :: new :: var :: cls :: r =>
    match take_list r with
    | Some (preds, r1) =>
      match take_list r1 with
      | Some (Ss, r2) =>
        match take_list r2 with
        | Some (names, []) =>
          let m := insert_cb (c_before c) new var preds Ss names cls in
          [b2z (agree_graph m c);
           match m with Ok g' => b2z (cb_ok (c_before c) g' new preds Ss) | _ => 1 end]
        | _ => [0; 0] end
      | None => [0; 0] end
    | None => [0; 0] end
  | [42; fresh; cls] => [b2z (agree_graph (join_returns (c_before c) fresh cls) c); 1]
  | 43 :: tn :: en :: tc :: ec :: r =>
    match take_list r with
    | Some (tails, r1) =>
      match take_list r1 with
      | Some (exits, []) =>
        match join_tails_exits (c_before c) tails exits tn en tc ec, c_res c with
        | Ok (g', t, e), [0; t'; e'] => [b2z (egraph_eqb g' (c_after c) && Z.eqb t t' && Z.eqb e e'); 1]
        | KeyError, [1] => [1; 1]
        | AssertionError, [2] => [1; 1]
        | _, _ => [0; 1]
        end
      | _ => [0; 0] end
    | None => [0; 0] end
  | _ => [0; 0]
  end.

(* LoopPath.v — property C01 / C06 for loop rotation, universally (loops with one
   header): LoopEdit.loop_rotate keeps every walk.  For EVERY flat graph whose
   targets exist, every loop head, every list of distinct exits, every list of
   blocks to process (no branching synthetic blocks, no declared back edges,
   distinct successors), every classification of arcs to the head as back
   edges, fresh names for the assignment blocks, the latch and the exit branch
   and two fresh control variables: from every original block, under every
   decision list and every environment, the walk of the rotated graph visits
   the same original blocks in the same order and ends the same way - in the
   plain reading (C01) and in the strict reading (C06).
   An arc p -> x out of the loop becomes p -> assignment -> latch (-> exit
   branch) -> x, an arc p -> head becomes p -> assignment -> latch -> head. *)
From Coq Require Import List ZArith Bool Lia.
Import ListNotations.
From V Require Import Valid.Hier Valid.Walk Valid.FlatRegion Model.Graph Model.Edits Model.Edits2 Model.Edits3
                      Model.TableSpec Model.LoopEdit Model.LoopSpec Model.JoinPath Model.Refine Model.CbPath.
Local Open Scope Z_scope.

(* ---------- enumerate / reverse lookup ---------- *)
Definition enum_from (k : nat) (l : list name) : list (Z * name) :=
  combine (map Z.of_nat (seq k (length l))) l.

Lemma enumerate_from l : enumerate l = enum_from 0 l.
Proof. reflexivity. Qed.

Lemma enum_keys_ge : forall l k z t, zassoc z (enum_from k l) = Some t -> (Z.of_nat k <= z).
Proof.
  induction l as [|x r IH]; intros k z t H; [discriminate|]. unfold enum_from in *. cbn [length seq map combine zassoc] in H.
  destruct (Z.eqb z (Z.of_nat k)) eqn:E; [apply Z.eqb_eq in E; lia|].
  specialize (IH (S k) z t H). lia.
Qed.

Lemma rev_lookup_enum : forall l k t, In t l ->
  zassoc (rev_lookup (enum_from k l) t) (enum_from k l) = Some t.
Proof.
  induction l as [|x r IH]; intros k t Hin; [destruct Hin|].
  unfold rev_lookup, enum_from in *. cbn [length seq map combine filter snd].
  destruct (Z.eqb x t) eqn:E.
  - apply Z.eqb_eq in E. subst x. cbn [zassoc]. rewrite Z.eqb_refl. reflexivity.
  - destruct Hin as [->|Hin]; [rewrite Z.eqb_refl in E; discriminate|].
    specialize (IH (S k) t Hin). cbn [zassoc].
    set (z := match filter (fun p => Z.eqb (snd p) t) (combine (map Z.of_nat (seq (S k) (length r))) r) with
              | (k0, _) :: _ => k0 | [] => -1 end) in *.
    destruct (Z.eqb z (Z.of_nat k)) eqn:Ez; [|exact IH].
    apply Z.eqb_eq in Ez. pose proof (enum_keys_ge r (S k) z t IH). lia.
Qed.

(* ---------- compatibility of a block with what it became, from its successors ---------- *)
Section CompatOf.
Variables (h' : hier) (r r' : name -> name -> option name) (strict : bool) (F : Z -> Prop) (Old : name -> Prop).
Variable top : name.

(* the same block: every successor must still be reachable the same way *)
Lemma compat_same x b :
  (forall t, In t (e_jt b) -> Edge h' r r' strict F Old x t t) ->
  match e_kind b with
  | EAssign a => forall p, In p a -> ~ F (fst p)
  | EBranch _ v _ => ~ F v
  | EPlain _ => True
  end ->
  Compat h' r r' strict F Old x (node_of top (x, b)) (node_of top (x, b)).
Proof.
  intros Hedge Hv. unfold Compat, node_of. cbn [n_kind n_jt fst snd]. unfold kind_of.
  destruct (e_kind b) as [c|a|c v t] eqn:Ek.
  - destruct (Z.eqb c 100).
    + split; [reflexivity|]. intros d t t' Ht Ht'. rewrite Ht in Ht'. injection Ht' as <-.
      apply Hedge. eapply nth_error_In; eauto.
    + destruct (e_jt b) as [|t1 [|t2 r1]] eqn:Ej.
      * left. auto.
      * right. left. exists t1, t1. split; [reflexivity|]. split; [reflexivity|]. apply Hedge. left. reflexivity.
      * right. right. exists t1, t2, r1, t1, t2, r1. auto.
  - split; [reflexivity|]. split; [exact Hv|].
    destruct (e_jt b) as [|t1 [|t2 r1]] eqn:Ej.
    + right. cbn. split; discriminate.
    + left. exists t1, t1. split; [reflexivity|]. split; [reflexivity|]. apply Hedge. left. reflexivity.
    + right. cbn. split; discriminate.
  - split; [reflexivity|]. split; [exact Hv|]. intros z. unfold proceed. cbn [n_jt].
    destruct (zassoc z t) as [t0|]; [|exact I]. destruct (zmem t0 (e_jt b)) eqn:Hm; [|exact I].
    apply Hedge. apply zmem_In. exact Hm.
Qed.

(* a block that kept its kind (not a branching one) and its arity *)
Lemma compat_positions x b jt' be' :
  (forall cc v t, e_kind b <> EBranch cc v t) ->
  length (e_jt b) = length jt' ->
  (forall k t t', nth_error (e_jt b) k = Some t -> nth_error jt' k = Some t' -> Edge h' r r' strict F Old x t t') ->
  match e_kind b with
  | EAssign a => forall p, In p a -> ~ F (fst p)
  | _ => True
  end ->
  Compat h' r r' strict F Old x (node_of top (x, b)) (node_of top (x, mkE jt' be' (e_kind b))).
Proof.
  intros Hnb Hlen Hedge Hv. unfold Compat, node_of. cbn [n_kind n_jt fst snd e_jt e_kind]. unfold kind_of. cbn [e_kind].
  destruct (e_kind b) as [c|a|c v t] eqn:Ek.
  - destruct (Z.eqb c 100).
    + split; [exact Hlen|exact Hedge].
    + destruct (e_jt b) as [|t1 [|t2 r1]] eqn:Ej; destruct jt' as [|t1' [|t2' r2]]; try discriminate.
      * left. auto.
      * right. left. exists t1, t1'. split; [reflexivity|]. split; [reflexivity|]. apply (Hedge 0%nat); reflexivity.
      * right. right. exists t1, t2, r1, t1', t2', r2. auto.
  - split; [reflexivity|]. split; [exact Hv|].
    destruct (e_jt b) as [|t1 [|t2 r1]] eqn:Ej; destruct jt' as [|t1' [|t2' r2]]; try discriminate.
    + right. cbn. split; discriminate.
    + left. exists t1, t1'. split; [reflexivity|]. split; [reflexivity|]. apply (Hedge 0%nat); reflexivity.
    + right. cbn. split; discriminate.
  - exfalso. eapply Hnb. reflexivity.
Qed.

(* a branching block whose successors were replaced position by position: its table follows *)
Lemma compat_branch x b jt' be' cc w tbl tbl' :
  e_kind b = EBranch cc w tbl -> ~ F w -> NoDup (map fst tbl) -> NoDup (e_jt b) ->
  length (e_jt b) = length jt' ->
  (forall k s t, nth_error (e_jt b) k = Some s -> nth_error jt' k = Some t -> t = s \/ ~ In t (e_jt b)) ->
  table_rewrite tbl (e_jt b) jt' (e_jt b) 0%nat [] = Some tbl' ->
  (forall k t t', nth_error (e_jt b) k = Some t -> nth_error jt' k = Some t' -> Edge h' r r' strict F Old x t t') ->
  Compat h' r r' strict F Old x (node_of top (x, b)) (node_of top (x, mkE jt' be' (EBranch cc w tbl'))).
Proof.
  intros Ek Hw Hkeys Hnd Hlen Hposr Htr Hedge.
  unfold Compat, node_of. cbn [n_kind n_jt fst snd e_jt e_kind]. unfold kind_of. cbn [e_kind]. rewrite Ek.
  split; [reflexivity|]. split; [exact Hw|]. intros z.
  pose proof (table_rewrite_lookup tbl (e_jt b) jt' Hkeys (eq_sym Hlen) Hposr Hnd tbl' Htr z) as Hz.
  unfold proceed. cbn [n_jt].
  destruct (zassoc z tbl) as [t0|] eqn:Hzt.
  - destruct Hz as [Hin0 Hout0]. destruct (zmem t0 (e_jt b)) eqn:Hm.
    + apply zmem_In in Hm. apply In_nth_error in Hm as [k Hk]. rewrite (Hin0 k Hk).
      destruct (nth_error jt' k) as [t0'|] eqn:Hk'.
      * assert (zmem t0' jt' = true) as -> by (apply zmem_In; eapply nth_error_In; eauto).
        eapply Hedge; eauto.
      * exfalso. apply nth_error_None in Hk'. assert (k < length (e_jt b))%nat.
        { apply nth_error_Some. intros Hc. pose proof (eq_trans (eq_sym Hc) Hk) as X. discriminate X. } lia.
    + apply zmem_false in Hm. rewrite (Hout0 Hm). exact I.
  - rewrite Hz. exact I.
Qed.
End CompatOf.

Lemma hd_single (l : list name) x :
  (match l with _ :: _ :: _ => true | _ => false end) = false -> hd_error l = Some x -> l = [x].
Proof. destruct l as [|a [|b r]]; cbn; try discriminate. intros _ [= ->]. reflexivity. Qed.

Section LoopPath.
Variables (g : egraph) (top hd : name) (headers exits todo : list name) (unified : bool)
          (header_tbl : list (Z * name)) (isback : name -> name -> bool)
          (latch sexit : name) (ev bv : Z) (names : list name) (g' : egraph).
Variable strict : bool.

Let needs : bool := match exits with _ :: _ :: _ => true | _ => false end.

Hypothesis Hrot : loop_rotate g hd headers exits todo unified header_tbl isback latch sexit ev bv names = Ok g'.
(* a processed block: no declared back edges, distinct successors, no fresh name among them; a
   branching synthetic block only if none of its arcs is rerouted *)
Hypothesis Htodo : NoDup todo /\
  forall p, In p todo -> exists b, efind g p = Some b /\ e_be b = [] /\ NoDup (e_jt b) /\
                                   (forall a, In a names -> ~ In a (e_jt b)) /\
                                   (nonbranch b \/
                                    forall t, In t (e_jt b) -> zmem t exits = false /\ zmem t headers && isback p t = false).
Hypothesis Hnames : NoDup names /\
  forall a, In a names -> efind g a = None /\ ~ In a todo /\ a <> latch /\ a <> sexit /\ a <> top.
Hypothesis Hlatch : efind g latch = None /\ latch <> top /\ ~ In latch todo.
Hypothesis Hsexit : needs = true -> efind g sexit = None /\ sexit <> latch /\ sexit <> top /\ ~ In sexit todo.
Hypothesis Hexits : NoDup exits /\ (forall x, In x exits -> In x (ekeys g)) /\ ~ In hd exits.
Hypothesis Hhd : In hd (ekeys g).
Hypothesis Htop : ~ In top (ekeys g).
Hypothesis Hevbv : ev <> bv.

Let h := ehier top g.
Let h' := ehier top g'.
Let r := resolve_flat h.
Let r' := resolve_flat h'.
Definition Fl (v : Z) : Prop := v = ev \/ v = bv.
Definition Oldl (x : name) : Prop := In x (ekeys g).

(* ---------- the pieces of the result ---------- *)
Definition exit_target_of : option name := if needs then Some sexit else hd_error exits.

Lemma rot_parts : exists xt g1 rest,
  exit_target_of = Some xt /\
  le_blocks (mkL headers exits needs unified ev bv latch hd xt (enumerate exits) [(0, hd); (1, xt)] header_tbl isback) g todo names
    = Ok (g1, rest) /\
  g' = (let g2 := dset g1 latch (mkE [xt; hd] [hd] (EBranch C_LATCH bv [(0, hd); (1, xt)])) in
        if needs then dset g2 sexit (mkE exits [] (EBranch C_EXITBRANCH ev (enumerate exits))) else g2).
Proof.
  pose proof Hrot as H. unfold loop_rotate in H. fold needs in H. unfold exit_target_of.
  destruct (if needs then Some sexit else hd_error exits) as [xt|]; [|discriminate].
  destruct (le_blocks _ g todo names) as [[g1 rest]| |] eqn:Hb; try discriminate.
  injection H as <-. exists xt, g1, rest. auto.
Qed.


Section Parts.
Variables (xt : name) (g1 : egraph) (rest : list name).
Let back_tbl : list (Z * name) := [(0, hd); (1, xt)].
Let c : lctx := mkL headers exits needs unified ev bv latch hd xt (enumerate exits) back_tbl header_tbl isback.
Let LB : eblk := mkE [xt; hd] [hd] (EBranch C_LATCH bv back_tbl).
Let SX : eblk := mkE exits [] (EBranch C_EXITBRANCH ev (enumerate exits)).
Hypothesis Hxt : exit_target_of = Some xt.
Hypothesis Hblocks : le_blocks c g todo names = Ok (g1, rest).
Hypothesis Hg' : g' = (let g2 := dset g1 latch LB in if needs then dset g2 sexit SX else g2).

Lemma find_g' x : efind g' x =
  if needs && Z.eqb x sexit then Some SX else if Z.eqb x latch then Some LB else efind g1 x.
Proof.
  rewrite Hg'. cbv zeta. unfold efind. destruct needs.
  - rewrite !zassoc_dset. cbn [andb]. destruct (Z.eqb x sexit); reflexivity.
  - rewrite zassoc_dset. reflexivity.
Qed.

Lemma xt_cases : (needs = true /\ xt = sexit) \/ (needs = false /\ exits = [xt]).
Proof.
  pose proof Hxt as H. unfold exit_target_of in H. destruct needs eqn:En.
  - left. injection H as <-. auto.
  - right. split; [reflexivity|]. apply hd_single; [exact En|exact H].
Qed.

Lemma xt_ne_hd : xt <> hd.
Proof.
  destruct xt_cases as [[Hn ->]|[Hn He]].
  - destruct (Hsexit Hn) as [Hnone _]. intros ->. destruct (keys_efind g hd Hhd) as [b Hb]. congruence.
  - intros ->. apply (proj2 (proj2 Hexits)). rewrite He. left. reflexivity.
Qed.

(* what le_blocks did *)
Lemma rerouted_none p b : In p todo -> efind g p = Some b ->
  (forall t, In t (e_jt b) -> zmem t exits = false /\ zmem t headers && isback p t = false) ->
  filter (rerouted c p) (e_jt b) = [].
Proof.
  intros _ _ H. induction (e_jt b) as [|t l IH]; [reflexivity|]. cbn [filter].
  destruct (H t (or_introl eq_refl)) as [A B]. unfold rerouted at 1, c. cbn [l_exits l_headers l_isback].
  rewrite A, B. cbn. apply IH. intros t0 Ht0. apply H. right. exact Ht0.
Qed.

Lemma blocks_done : exists used,
  names = used ++ rest /\
  (forall x, ~ In x todo -> ~ In x used -> efind g1 x = efind g x) /\
  (forall p, In p todo -> exists b usedp, efind g p = Some b /\ BlockDone c g1 p b usedp /\
                                         (forall a, In a usedp -> In a used)).
Proof.
  apply (le_blocks_spec c todo g names g1 rest Hblocks (proj1 Htodo) (proj1 Hnames)).
  - intros a Ha. apply (proj2 Hnames a Ha).
  - intros p Hp. destruct (proj2 Htodo p Hp) as [b [Hb [Hbe [_ [_ Hcase]]]]]. exists b. split; [exact Hb|].
    rewrite (ejts_nobe b Hbe). destruct Hcase as [Hnb|Hnone]; [left; exact Hnb|right].
    apply (rerouted_none p b Hp Hb Hnone).
Qed.

Lemma old_facts x : Oldl x -> x <> top /\ x <> latch /\ (needs = true -> x <> sexit) /\ ~ In x names.
Proof.
  intros Hx. destruct (keys_efind g x Hx) as [b Hb]. split; [intros ->; contradiction|].
  split; [intros ->; destruct Hlatch as [A _]; congruence|].
  split; [intros Hn ->; destruct (Hsexit Hn) as [A _]; congruence|].
  intros Hi. destruct (proj2 Hnames x Hi) as [A _]. congruence.
Qed.

Lemma keep_g' x : x <> latch -> (needs = true -> x <> sexit) -> efind g' x = efind g1 x.
Proof.
  intros A B. rewrite find_g'. assert (needs && Z.eqb x sexit = false) as ->.
  { destruct (bool_dec needs true) as [En|En].
    - rewrite En. cbn. apply Z.eqb_neq. apply B. exact En.
    - apply not_true_is_false in En. rewrite En. reflexivity. }
  apply Z.eqb_neq in A. rewrite A. reflexivity.
Qed.

(* an old block that is not processed is untouched *)
Lemma untouched x : Oldl x -> ~ In x todo -> efind g' x = efind g x.
Proof.
  intros Hx Hnt. destruct (old_facts x Hx) as [_ [Hl [Hs Hn]]]. destruct blocks_done as [used [Hu [Hoth _]]].
  rewrite (keep_g' x Hl Hs). apply Hoth; [exact Hnt|].
  intros Hi. apply Hn. rewrite Hu. apply in_or_app. left. exact Hi.
Qed.

(* a processed block *)
Lemma processed p : In p todo -> exists b usedp b',
  efind g p = Some b /\ e_be b = [] /\ NoDup (e_jt b) /\
  length usedp = length (filter (rerouted c p) (e_jt b)) /\
  (forall a, In a usedp -> In a names) /\ NoDup usedp /\
  efind g' p = Some b' /\
  replace_jt b (subst_all (combine (filter (rerouted c p) (e_jt b)) usedp) (e_jt b)) = Some b' /\
  (forall t a, In (t, a) (combine (filter (rerouted c p) (e_jt b)) usedp) ->
               efind g' a = Some (mkE [latch] [] (EAssign (asg_of c t)))).
Proof.
  intros Hp. destruct blocks_done as [used [Hu [_ Hdone]]].
  destruct (Hdone p Hp) as [b [usedp [Hb [[[b' [D1 D1r]] [D2 [D2n D3]]] Hsub]]]].
  destruct (proj2 Htodo p Hp) as [b0 [Hb0 [Hbe [Hnd [Hfr _]]]]]. rewrite Hb in Hb0. injection Hb0 as <-.
  assert (Hej : ejts b = e_jt b) by (apply ejts_nobe; exact Hbe).
  rewrite Hej in *.
  assert (Hin : forall a, In a usedp -> In a names).
  { intros a Ha. rewrite Hu. apply in_or_app. left. apply Hsub. exact Ha. }
  assert (Hpold : Oldl p) by (eapply efind_keys; eauto).
  destruct (old_facts p Hpold) as [_ [Hl [Hs _]]].
  exists b, usedp, b'. split; [exact Hb|]. split; [exact Hbe|]. split; [exact Hnd|].
  split; [exact D2|]. split; [exact Hin|]. split; [exact D2n|]. split; [rewrite (keep_g' p Hl Hs); exact D1|].
  split; [exact D1r|].
  intros t a Hi. assert (Ha : In a names) by (apply Hin; apply in_combine_r in Hi; exact Hi).
  destruct (proj2 Hnames a Ha) as [_ [_ [A [B _]]]].
  rewrite (keep_g' a A (fun _ => B)). apply D3. exact Hi.
Qed.

(* ---------- lookups in the two hierarchies ---------- *)
Lemma find_hl x b : efind g x = Some b -> find h x = Some (node_of top (x, b)).
Proof.
  intros Hb. unfold h. rewrite find_ehier by (intros ->; apply Htop; eapply efind_keys; eauto). rewrite Hb. reflexivity.
Qed.

Lemma find_hl' x b' : x <> top -> efind g' x = Some b' -> find h' x = Some (node_of top (x, b')).
Proof. intros Hne Hb. unfold h'. rewrite find_ehier by exact Hne. rewrite Hb. reflexivity. Qed.

Lemma leaf_l x b : is_region (node_of top (x, b)) = false.
Proof.
  unfold is_region, node_of. cbn. pose proof (kind_of_not_region b). destruct (kind_of b); try reflexivity. contradiction.
Qed.

Lemma old_in_g'l x : Oldl x -> exists b', efind g' x = Some b'.
Proof.
  intros Hx. destruct (in_dec Z.eq_dec x todo) as [Hin|Hnin].
  - destruct (processed x Hin) as [b [usedp [b' [_ [_ [_ [_ [_ [_ [H _]]]]]]]]]]. eauto.
  - rewrite (untouched x Hx Hnin). apply keys_efind. exact Hx.
Qed.

Lemma res_old x t : Oldl t -> r x t = Some t.
Proof.
  intros Ht. destruct (keys_efind g t Ht) as [b Hb]. unfold r, resolve_flat.
  eapply enter_flat_leaf; [apply find_hl; exact Hb|apply leaf_l].
Qed.

Lemma res_leaf' x t b' : t <> top -> efind g' t = Some b' -> r' x t = Some t.
Proof.
  intros Hne Hb. unfold r', resolve_flat. eapply enter_flat_leaf; [apply find_hl'; eassumption|apply leaf_l].
Qed.

Lemma res_old' x t : Oldl t -> r' x t = Some t.
Proof.
  intros Ht. destruct (old_in_g'l t Ht) as [b' Hb']. eapply res_leaf'; [apply (old_facts t Ht)|exact Hb'].
Qed.

Lemma find_latch : find h' latch = Some (node_of top (latch, LB)).
Proof.
  apply find_hl'; [apply Hlatch|]. rewrite find_g'.
  assert (needs && Z.eqb latch sexit = false) as ->.
  { destruct (bool_dec needs true) as [En|En].
    - rewrite En. cbn. apply Z.eqb_neq. intros E0. destruct (Hsexit En) as [_ [A _]]. congruence.
    - apply not_true_is_false in En. rewrite En. reflexivity. }
  rewrite Z.eqb_refl. reflexivity.
Qed.

Lemma find_sexit : needs = true -> find h' sexit = Some (node_of top (sexit, SX)).
Proof.
  intros Hn. apply find_hl'; [apply (Hsexit Hn)|]. rewrite find_g', Hn, Z.eqb_refl. reflexivity.
Qed.

(* ---------- environments ---------- *)
Lemma eupd_other asg e v : (forall p, In p asg -> fst p <> v) -> elook v (eupd asg e) = elook v e.
Proof.
  intros H. rewrite elook_eupd.
  assert (zassoc v (map (fun p => (fst p, (snd p, @nil name))) asg) = None) as ->; [|reflexivity].
  induction asg as [|[k z] rr IH]; [reflexivity|]. cbn.
  destruct (Z.eqb v k) eqn:E; [apply Z.eqb_eq in E; exfalso; apply (H (k, z)); [left; reflexivity|cbn; congruence]|].
  apply IH. intros p Hp. apply H. right. exact Hp.
Qed.

Lemma E_after e e' e'' : E Fl e e' -> (forall v, ~ Fl v -> elook v e'' = elook v e') -> E Fl e e''.
Proof. intros He H v Hv. rewrite H by exact Hv. apply He. exact Hv. Qed.

Lemma not_fl v : ~ Fl v -> v <> ev /\ v <> bv.
Proof. unfold Fl. tauto. Qed.

(* ---------- the bridges, in the rotated graph ---------- *)
Lemma rev_back_xt : rev_lookup back_tbl xt = 1.
Proof.
  unfold rev_lookup, back_tbl. cbn [filter snd]. pose proof xt_ne_hd as Hne.
  destruct (Z.eqb hd xt) eqn:E; [apply Z.eqb_eq in E; congruence|]. rewrite Z.eqb_refl. reflexivity.
Qed.

Lemma rev_back_hd : rev_lookup back_tbl hd = 0.
Proof. unfold rev_lookup, back_tbl. cbn [filter snd]. rewrite Z.eqb_refl. reflexivity. Qed.

(* the latch, read with the backedge variable just set to z *)
Lemma latch_step fuel e1 z t :
  elook bv e1 = Some (z, []) -> zassoc z back_tbl = Some t -> In t [xt; hd] -> forall c0, r' latch t = Some c0 ->
  srun h' r' strict (S fuel) latch e1 =
  srun h' r' strict fuel c0 (if strict then eread bv z [] latch e1 else e1).
Proof.
  intros Hl Hz Hin c0 Hr. cbn [srun]. rewrite find_latch. cbn [node_of n_kind n_jt fst snd kind_of e_kind e_jt LB].
  unfold LB. cbn [e_kind e_jt]. rewrite Hl, Hz.
  assert (zmem t [xt; hd] = true) as -> by (apply zmem_In; exact Hin).
  rewrite Hr. destruct strict; reflexivity.
Qed.

Lemma assign_step fuel a asg e1 :
  find h' a = Some (node_of top (a, mkE [latch] [] (EAssign asg))) ->
  srun h' r' strict (S fuel) a e1 = srun h' r' strict fuel latch (eupd asg e1).
Proof.
  intros Hfa. cbn [srun]. rewrite Hfa. cbn [node_of n_kind n_jt fst snd kind_of e_kind e_jt].
  assert (Hra : r' a latch = Some latch).
  { unfold r', resolve_flat. eapply enter_flat_leaf; [exact find_latch|apply leaf_l]. }
  rewrite Hra. reflexivity.
Qed.

Lemma exit_step fuel e2 i t : needs = true ->
  elook ev e2 = Some (i, []) -> zassoc i (enumerate exits) = Some t -> In t exits -> Oldl t ->
  srun h' r' strict (S fuel) sexit e2 =
  srun h' r' strict fuel t (if strict then eread ev i [] sexit e2 else e2).
Proof.
  intros Hn Hl Hz Hin Ht. cbn [srun]. rewrite (find_sexit Hn). cbn [node_of n_kind n_jt fst snd kind_of e_kind e_jt SX].
  unfold SX. cbn [e_kind e_jt]. rewrite Hl, Hz.
  assert (zmem t exits = true) as -> by (apply zmem_In; exact Hin).
  rewrite (res_old' sexit t Ht). destruct strict; reflexivity.
Qed.

(* an arc out of the loop: assignment block -> latch (-> exit branch) -> the exit *)
Lemma bridge_exit t a :
  In t exits -> a <> top -> efind g' a = Some (mkE [latch] [] (EAssign (asg_of c t))) ->
  forall e', exists k e'',
    (forall v, ~ Fl v -> elook v e'' = elook v e') /\
    forall fuel, srun h' r' strict (k + fuel) a e' = srun h' r' strict fuel t e''.
Proof.
  intros Hte Hat Ha e'.
  assert (Ht : Oldl t) by (apply (proj1 (proj2 Hexits)); exact Hte).
  assert (Hasg : asg_of c t = (if needs then [(ev, rev_lookup (enumerate exits) t)] else []) ++ [(bv, 1)]).
  { unfold asg_of, c. cbn [l_exits l_needs l_ev l_exit_tbl l_bv l_back_tbl l_exit_target].
    assert (zmem t exits = true) as -> by (apply zmem_In; exact Hte). rewrite rev_back_xt. reflexivity. }
  set (asg := asg_of c t) in *.
  set (e1 := eupd asg e').
  assert (Hfa : find h' a = Some (node_of top (a, mkE [latch] [] (EAssign asg)))) by (apply find_hl'; assumption).
  assert (Hbv1 : elook bv e1 = Some (1, [])).
  { unfold e1. rewrite elook_eupd, Hasg. destruct needs; cbn.
    - destruct (Z.eqb bv ev) eqn:E0; [apply Z.eqb_eq in E0; exfalso; apply Hevbv; congruence|].
      rewrite Z.eqb_refl. reflexivity.
    - rewrite Z.eqb_refl. reflexivity. }
  assert (Hoth1 : forall v, ~ Fl v -> elook v e1 = elook v e').
  { intros v Hv. destruct (not_fl v Hv) as [A B]. unfold e1. apply eupd_other. rewrite Hasg.
    intros p Hp. apply in_app_or in Hp as [Hp|[<-|[]]]; [|cbn; congruence].
    destruct needs; [destruct Hp as [<-|[]]; cbn; congruence|destruct Hp]. }
  assert (Hz1 : zassoc 1 back_tbl = Some xt) by reflexivity.
  set (e2 := if strict then eread bv 1 [] latch e1 else e1).
  assert (Hoth2 : forall v, ~ Fl v -> elook v e2 = elook v e').
  { intros v Hv. unfold e2. destruct strict; [|apply Hoth1; exact Hv].
    rewrite elook_eread. destruct (not_fl v Hv) as [A B].
    destruct (Z.eqb v bv) eqn:E0; [apply Z.eqb_eq in E0; contradiction|apply Hoth1; exact Hv]. }
  destruct xt_cases as [[Hn Hxs]|[Hn Hex1]].
  - (* several exits: through the exit branch *)
    assert (Hev2 : elook ev e2 = Some (rev_lookup (enumerate exits) t, [])).
    { assert (elook ev e1 = Some (rev_lookup (enumerate exits) t, [])).
      { unfold e1. rewrite elook_eupd, Hasg, Hn. cbn. rewrite Z.eqb_refl. reflexivity. }
      unfold e2. destruct strict; [|exact H].
      rewrite elook_eread. destruct (Z.eqb ev bv) eqn:E0; [apply Z.eqb_eq in E0; exfalso; apply Hevbv; exact E0|exact H]. }
    set (i := rev_lookup (enumerate exits) t) in *.
    set (e3 := if strict then eread ev i [] sexit e2 else e2).
    exists 3%nat, e3. split.
    + intros v Hv. unfold e3. destruct strict; [|apply Hoth2; exact Hv].
      rewrite elook_eread. destruct (not_fl v Hv) as [A B].
      destruct (Z.eqb v ev) eqn:E0; [apply Z.eqb_eq in E0; contradiction|apply Hoth2; exact Hv].
    + intros fuel. change (3 + fuel)%nat with (S (S (S fuel))).
      rewrite (assign_step (S (S fuel)) a asg e' Hfa). fold e1.
      assert (Hrs : r' latch xt = Some sexit).
      { rewrite Hxs. unfold r', resolve_flat. eapply enter_flat_leaf; [exact (find_sexit Hn)|apply leaf_l]. }
      rewrite (latch_step (S fuel) e1 1 xt Hbv1 Hz1 (or_introl eq_refl) sexit Hrs). fold e2.
      rewrite (exit_step fuel e2 i t Hn Hev2 (rev_lookup_enum exits 0 t Hte) Hte Ht). reflexivity.
  - (* one exit: the latch continues to it *)
    assert (Htx : t = xt) by (rewrite Hex1 in Hte; destruct Hte as [<-|[]]; reflexivity).
    exists 2%nat, e2. split; [exact Hoth2|].
    intros fuel. change (2 + fuel)%nat with (S (S fuel)).
    rewrite (assign_step (S fuel) a asg e' Hfa). fold e1.
    assert (Hrs : r' latch xt = Some t) by (rewrite <- Htx; apply res_old'; exact Ht).
    rewrite (latch_step fuel e1 1 xt Hbv1 Hz1 (or_introl eq_refl) t Hrs). reflexivity.
Qed.

(* an arc back to a header: assignment block -> latch -> the loop head, where the exit variable
   (when one is written) holds what the header table gives for that header *)
Lemma bridge_back t a :
  ~ In t exits -> a <> top -> efind g' a = Some (mkE [latch] [] (EAssign (asg_of c t))) ->
  forall e', exists e2,
    (forall v, ~ Fl v -> elook v e2 = elook v e') /\
    (needs || unified = true -> elook ev e2 = Some (rev_lookup header_tbl t, [])) /\
    forall fuel, srun h' r' strict (2 + fuel) a e' = srun h' r' strict fuel hd e2.
Proof.
  intros Hte Hat Ha e'.
  assert (Hasg : asg_of c t = [(bv, 0)] ++ (if needs || unified then [(ev, rev_lookup header_tbl t)] else [])).
  { unfold asg_of, c. cbn [l_exits l_needs l_ev l_bv l_back_tbl l_head l_unified l_header_tbl].
    assert (zmem t exits = false) as -> by (apply zmem_false; exact Hte).
    rewrite rev_back_hd. reflexivity. }
  set (asg := asg_of c t) in *.
  set (e1 := eupd asg e').
  assert (Hfa : find h' a = Some (node_of top (a, mkE [latch] [] (EAssign asg)))) by (apply find_hl'; assumption).
  assert (Hbv0 : elook bv e1 = Some (0, [])).
  { unfold e1. rewrite elook_eupd, Hasg. cbn. rewrite Z.eqb_refl. reflexivity. }
  assert (Hoth1 : forall v, ~ Fl v -> elook v e1 = elook v e').
  { intros v Hv. destruct (not_fl v Hv) as [A B]. unfold e1. apply eupd_other. rewrite Hasg.
    intros p [<-|Hp]; [cbn; congruence|]. destruct (needs || unified); [destruct Hp as [<-|[]]; cbn; congruence|destruct Hp]. }
  set (e2 := if strict then eread bv 0 [] latch e1 else e1).
  exists e2. split; [|split].
  - intros v Hv. unfold e2. destruct strict; [|apply Hoth1; exact Hv].
    rewrite elook_eread. destruct (not_fl v Hv) as [A B].
    destruct (Z.eqb v bv) eqn:E0; [apply Z.eqb_eq in E0; contradiction|apply Hoth1; exact Hv].
  - intros Hnu.
    assert (H1 : elook ev e1 = Some (rev_lookup header_tbl t, [])).
    { unfold e1. rewrite elook_eupd, Hasg, Hnu. cbn.
      destruct (Z.eqb ev bv) eqn:E0; [apply Z.eqb_eq in E0; contradiction|]. rewrite Z.eqb_refl. reflexivity. }
    unfold e2. destruct strict; [|exact H1]. rewrite elook_eread.
    destruct (Z.eqb ev bv) eqn:E0; [apply Z.eqb_eq in E0; contradiction|exact H1].
  - intros fuel. change (2 + fuel)%nat with (S (S fuel)).
    rewrite (assign_step (S fuel) a asg e' Hfa). fold e1.
    assert (Hz0 : zassoc 0 back_tbl = Some hd) by reflexivity.
    rewrite (latch_step fuel e1 0 hd Hbv0 Hz0 (or_intror (or_introl eq_refl)) hd (res_old' latch hd Hhd)). reflexivity.
Qed.

(* ---------- the arcs, seen from the graph that was rotated ---------- *)
Lemma edge_samel x t : Oldl t -> Edge h' r r' strict Fl Oldl x t t.
Proof.
  intros Ht e e' He. exists t, t, 0%nat, e'. split; [apply res_old; exact Ht|]. split; [exact Ht|].
  split; [apply res_old'; exact Ht|]. split; [exact He|]. intros fuel. reflexivity.
Qed.

Lemma edge_exit x t a :
  In t exits -> a <> top -> efind g' a = Some (mkE [latch] [] (EAssign (asg_of c t))) ->
  Edge h' r r' strict Fl Oldl x t a.
Proof.
  intros Hte Hat Ha e e' He.
  assert (Ht : Oldl t) by (apply (proj1 (proj2 Hexits)); exact Hte).
  destruct (bridge_exit t a Hte Hat Ha e') as [k [e'' [Hsame Hrun]]].
  exists t, a, k, e''. split; [apply res_old; exact Ht|]. split; [exact Ht|].
  split; [eapply res_leaf'; eassumption|]. split; [apply (E_after e e' e'' He Hsame)|exact Hrun].
Qed.

(* an arc back to the loop head itself *)
Lemma edge_back_head x a :
  a <> top -> efind g' a = Some (mkE [latch] [] (EAssign (asg_of c hd))) ->
  Edge h' r r' strict Fl Oldl x hd a.
Proof.
  intros Hat Ha e e' He.
  destruct (bridge_back hd a (proj2 (proj2 Hexits)) Hat Ha e') as [e2 [Hsame [_ Hrun]]].
  exists hd, a, 2%nat, e2. split; [apply res_old; exact Hhd|]. split; [exact Hhd|].
  split; [eapply res_leaf'; eassumption|]. split; [apply (E_after e e' e2 He Hsame)|exact Hrun].
Qed.

Lemma map_snd_combine {A B} (l1 : list A) (l2 : list B) : length l1 = length l2 -> map snd (combine l1 l2) = l2.
Proof.
  revert l2. induction l1 as [|x rr IH]; intros [|y r2] Hl; cbn in *; try discriminate; [reflexivity|].
  f_equal. apply IH. lia.
Qed.

Lemma map_fst_combine {A B} (l1 : list A) (l2 : list B) : length l1 = length l2 -> map fst (combine l1 l2) = l1.
Proof.
  revert l2. induction l1 as [|x rr IH]; intros [|y r2] Hl; cbn in *; try discriminate; [reflexivity|].
  f_equal. apply IH. lia.
Qed.

Lemma nodup_filter {A} (f : A -> bool) (l : list A) : NoDup l -> NoDup (filter f l).
Proof.
  induction 1 as [|x l Hx Hl IH]; cbn; [constructor|]. destruct (f x); [|exact IH].
  constructor; [|exact IH]. intros Hi. apply filter_In in Hi as [Hi _]. contradiction.
Qed.

(* where the k-th successor of a processed block went *)
Lemma processed_pos p b usedp : In p todo -> efind g p = Some b ->
  NoDup (e_jt b) -> (forall a, In a names -> ~ In a (e_jt b)) ->
  length usedp = length (filter (rerouted c p) (e_jt b)) -> (forall a, In a usedp -> In a names) -> NoDup usedp ->
  forall k t, nth_error (e_jt b) k = Some t ->
    nth_error (subst_all (combine (filter (rerouted c p) (e_jt b)) usedp) (e_jt b)) k =
    Some (match passoc t (combine (filter (rerouted c p) (e_jt b)) usedp) with Some a => a | None => t end).
Proof.
  intros Hp Hb Hnd Hfr Hlen Hun Hndu k t Ht.
  apply subst_all_pos; try assumption.
  - rewrite map_snd_combine by (symmetry; exact Hlen). exact Hndu.
  - rewrite map_fst_combine by (symmetry; exact Hlen). apply nodup_filter. exact Hnd.
  - intros a Ha. rewrite map_snd_combine in Ha by (symmetry; exact Hlen).
    split; [apply Hfr; apply Hun; exact Ha|].
    rewrite map_fst_combine by (symmetry; exact Hlen). intros Hi. apply filter_In in Hi as [Hi _].
    apply (Hfr a (Hun a Ha)). exact Hi.
Qed.

(* ---------- loops with one header ---------- *)
Section Single.
Hypothesis Hsingle : headers = [hd].
Hypothesis Hclosed : forall x b t, efind g x = Some b -> In t (e_jt b) -> In t (ekeys g).
Hypothesis Hvars : forall x b, efind g x = Some b ->
  match e_kind b with
  | EAssign a => forall p, In p a -> fst p <> ev /\ fst p <> bv
  | EBranch _ v _ => v <> ev /\ v <> bv
  | EPlain _ => True
  end.
(* (with one header every processed block of the theorem is without a table) *)
Hypothesis Hnb : forall p b, In p todo -> efind g p = Some b -> nonbranch b.

Lemma hold_l : forall x, Oldl x -> exists b b', find h x = Some b /\ find h' x = Some b' /\
  Compat h' r r' strict Fl Oldl x b b'.
Proof.
  intros x Hx. destruct (old_facts x Hx) as [Hxt0 _].
  destruct (in_dec Z.eq_dec x todo) as [Hin|Hnin].
  - destruct (processed x Hin) as [b [usedp [b' [Hb [Hbe [Hnd [Hlen [Hun [Hndu [Hb' [Hrj Hasg]]]]]]]]]]].
    set (arcs := combine (filter (rerouted c x) (e_jt b)) usedp) in *.
    pose proof (Hnb x b Hin Hb) as Hnbx. rewrite (replace_jt_nonbranch b _ Hnbx) in Hrj. injection Hrj as <-.
    exists (node_of top (x, b)), (node_of top (x, mkE (subst_all arcs (e_jt b)) (e_be b) (e_kind b))).
    split; [apply find_hl; exact Hb|]. split; [apply find_hl'; assumption|].
    destruct (proj2 Htodo x Hin) as [b0 [Hb0 [_ [_ [Hfr _]]]]]. rewrite Hb in Hb0. injection Hb0 as <-.
    apply compat_positions.
    + exact Hnbx.
    + symmetry. apply subst_all_length.
    + intros k t t' Ht Ht'. cbn [e_jt] in Ht'. unfold arcs in Ht'.
      rewrite (processed_pos x b usedp Hin Hb Hnd Hfr Hlen Hun Hndu k t Ht) in Ht'. injection Ht' as <-.
      fold arcs. destruct (passoc t arcs) as [a|] eqn:Hpa.
      * apply passoc_combine_in in Hpa. pose proof (Hasg t a Hpa) as Ha.
        assert (Han : In a names) by (apply Hun; apply in_combine_r in Hpa; exact Hpa).
        destruct (proj2 Hnames a Han) as [_ [_ [_ [_ Hat]]]].
        assert (Hrr : rerouted c x t = true).
        { apply in_combine_l in Hpa. apply filter_In in Hpa. apply Hpa. }
        unfold rerouted, c in Hrr. cbn [l_exits l_headers l_isback] in Hrr.
        destruct (zmem t exits) eqn:Hze.
        -- apply zmem_In in Hze. apply edge_exit; assumption.
        -- cbn [orb] in Hrr. apply andb_true_iff in Hrr as [Hh _]. rewrite Hsingle in Hh.
           apply zmem_In in Hh. destruct Hh as [<-|[]]. apply edge_back_head; assumption.
      * apply edge_samel. eapply Hclosed; [exact Hb|eapply nth_error_In; exact Ht].
    + pose proof (Hvars x b Hb) as Hv. destruct (e_kind b); try exact I.
      intros p Hp [E0|E0]; destruct (Hv p Hp); congruence.
  - destruct (keys_efind g x Hx) as [b Hb].
    exists (node_of top (x, b)), (node_of top (x, b)).
    split; [apply find_hl; exact Hb|]. split; [apply find_hl'; [exact Hxt0|rewrite (untouched x Hx Hnin); exact Hb]|].
    apply compat_same.
    + intros t Ht. apply edge_samel. eapply Hclosed; eauto.
    + pose proof (Hvars x b Hb) as Hv. destruct (e_kind b); try exact I.
      * intros p Hp [E0|E0]; destruct (Hv p Hp); congruence.
      * intros [E0|E0]; destruct Hv; congruence.
Qed.
End Single.
End Parts.

Section SingleTheorems.
Hypothesis Hsingle : headers = [hd].
Hypothesis Hclosed : forall x b t, efind g x = Some b -> In t (e_jt b) -> In t (ekeys g).
Hypothesis Hvars : forall x b, efind g x = Some b ->
  match e_kind b with
  | EAssign a => forall p, In p a -> fst p <> ev /\ fst p <> bv
  | EBranch _ v _ => v <> ev /\ v <> bv
  | EPlain _ => True
  end.
Hypothesis Hnb : forall p b, In p todo -> efind g p = Some b -> nonbranch b.

Theorem rotate1_keeps_walks : forall n e e' ds tr st,
  (exists b, efind g n = Some b /\ e_kind b = EPlain 100) ->
  E Fl e e' ->
  WTrace h r strict n e ds tr st -> WTrace h' r' strict n e' ds tr st.
Proof.
  intros n e e' ds tr st [b [Hb Hk]] He Hw.
  destruct rot_parts as [xt [g1 [rest [Hxt [Hblocks Hg']]]]].
  apply (walk_refines h h' r r' strict Fl Oldl (hold_l xt g1 rest Hxt Hblocks Hg' Hsingle Hclosed Hvars Hnb) n e ds tr st Hw e').
  - eapply efind_keys; eauto.
  - exists (node_of top (n, b)), 1. split; [apply find_hl; exact Hb|]. unfold node_of, kind_of. cbn. rewrite Hk. reflexivity.
  - exact He.
Qed.

Theorem rotate1_keeps_ctrace : forall n e e' ds,
  (exists b, efind g n = Some b /\ e_kind b = EPlain 100) ->
  E Fl e e' ->
  CTrace h r strict n e ds -> CTrace h' r' strict n e' ds.
Proof.
  intros n e e' ds [b [Hb Hk]] He Hw.
  destruct rot_parts as [xt [g1 [rest [Hxt [Hblocks Hg']]]]].
  apply (ctrace_refines h h' r r' strict Fl Oldl (hold_l xt g1 rest Hxt Hblocks Hg' Hsingle Hclosed Hvars Hnb) n e ds Hw e').
  - eapply efind_keys; eauto.
  - exists (node_of top (n, b)), 1. split; [apply find_hl; exact Hb|]. unfold node_of, kind_of. cbn. rewrite Hk. reflexivity.
  - exact He.
Qed.
End SingleTheorems.
End LoopPath.

(* ---------- the statement for loops with one header, in one piece ---------- *)
Section OneHeader.
Variables (g : egraph) (top hd : name) (exits todo : list name) (isback : name -> name -> bool)
          (latch sexit : name) (ev bv : Z) (names : list name) (g' : egraph) (strict : bool).
Let needs : bool := match exits with _ :: _ :: _ => true | _ => false end.
Hypothesis Hrot : loop_rotate g hd [hd] exits todo false [] isback latch sexit ev bv names = Ok g'.
Hypothesis Htodo : NoDup todo /\
  forall p, In p todo -> exists b, efind g p = Some b /\ nonbranch b /\ e_be b = [] /\ NoDup (e_jt b) /\
                                   (forall a, In a names -> ~ In a (e_jt b)).
Hypothesis Hnames : NoDup names /\
  forall a, In a names -> efind g a = None /\ ~ In a todo /\ a <> latch /\ a <> sexit /\ a <> top.
Hypothesis Hlatch : efind g latch = None /\ latch <> top /\ ~ In latch todo.
Hypothesis Hsexit : needs = true -> efind g sexit = None /\ sexit <> latch /\ sexit <> top /\ ~ In sexit todo.
Hypothesis Hexits : NoDup exits /\ (forall x, In x exits -> In x (ekeys g)) /\ ~ In hd exits.
Hypothesis Hhd : In hd (ekeys g).
Hypothesis Htop : ~ In top (ekeys g).
Hypothesis Hclosed : forall x b t, efind g x = Some b -> In t (e_jt b) -> In t (ekeys g).
Hypothesis Hvars : ev <> bv /\ forall x b, efind g x = Some b ->
  match e_kind b with
  | EAssign a => forall p, In p a -> fst p <> ev /\ fst p <> bv
  | EBranch _ v _ => v <> ev /\ v <> bv
  | EPlain _ => True
  end.

Lemma todo_general : NoDup todo /\
  forall p, In p todo -> exists b, efind g p = Some b /\ e_be b = [] /\ NoDup (e_jt b) /\
                                   (forall a, In a names -> ~ In a (e_jt b)) /\
                                   (nonbranch b \/
                                    forall t, In t (e_jt b) -> zmem t exits = false /\ zmem t [hd] && isback p t = false).
Proof.
  split; [apply Htodo|]. intros p Hp. destruct (proj2 Htodo p Hp) as [b [A [B [C [D F]]]]]. exists b. auto 8.
Qed.

Lemma todo_nonbranch : forall p b, In p todo -> efind g p = Some b -> nonbranch b.
Proof. intros p b Hp Hb. destruct (proj2 Htodo p Hp) as [b0 [A [B _]]]. congruence. Qed.

Theorem loop_rotate_keeps_walks : forall n e e' ds tr st,
  (exists b, efind g n = Some b /\ e_kind b = EPlain 100) ->
  E (Fl ev bv) e e' ->
  WTrace (ehier top g) (resolve_flat (ehier top g)) strict n e ds tr st ->
  WTrace (ehier top g') (resolve_flat (ehier top g')) strict n e' ds tr st.
Proof.
  exact (rotate1_keeps_walks g top hd [hd] exits todo false [] isback latch sexit ev bv names g' strict
           Hrot todo_general Hnames Hlatch Hsexit Hexits Hhd Htop (proj1 Hvars) eq_refl Hclosed (proj2 Hvars) todo_nonbranch).
Qed.

Theorem loop_rotate_keeps_ctrace : forall n e e' ds,
  (exists b, efind g n = Some b /\ e_kind b = EPlain 100) ->
  E (Fl ev bv) e e' ->
  CTrace (ehier top g) (resolve_flat (ehier top g)) strict n e ds ->
  CTrace (ehier top g') (resolve_flat (ehier top g')) strict n e' ds.
Proof.
  exact (rotate1_keeps_ctrace g top hd [hd] exits todo false [] isback latch sexit ev bv names g' strict
           Hrot todo_general Hnames Hlatch Hsexit Hexits Hhd Htop (proj1 Hvars) eq_refl Hclosed (proj2 Hvars) todo_nonbranch).
Qed.
End OneHeader.

(* HelperCol.v — ONE column for every call of loop_restructure_helper the pipeline makes, with its meaning
   proved: computed from the hierarchy before the call (h), the hierarchy the implementation produced (ha) and
   the recorded arguments;
     1  plain rotation (one header), 3  early return, 4  rotation after header unification:
        the premises of the corresponding universal path theorem hold, and its result is fit for flattening,
        keeps the original blocks and equals ha up to the order of the node list;
     6  several headers and a region among the entries (outside the theorem);  0 / 2  premises unmet.
   helper_col_sound: when the value is 1, 3 or 4, ha has every flat walk of h (for some set F of fresh control
   variables, from every original block, under every decision list, in either reading). *)
From Coq Require Import List ZArith Bool.
Import ListNotations.
From V Require Import Valid.Hier Valid.Walk Valid.FlatRegion Model.Graph Model.Edits Model.Edits2 Model.Refine Model.CbPath
     Model.LoopEdit Model.LoopPath Model.LoopPath2 Model.Extract Model.CbHier Model.LoopHier Model.Flatten
     Model.LoopHierApplic Model.Applic Model.Total2 Model.LoopHierRun Model.BeOnly Model.HierEquiv Model.CbHierPath
     Model.UniHierPath Model.UniHierApplic Model.UniHierRun.
Local Open Scope Z_scope.

Definition plain_col_of (h ha : hier) (lvl : name) (g1 : egraph) (a : rotargs) : Z :=
  if walk_pre_rot h lvl TOP (ra_hd a) (ra_exits a) (ra_todo a) (ra_isback a) (ra_latch a) (ra_sexit a)
                  (ra_ev a) (ra_bv a) (ra_names a) then
    match loop_rotate g1 (ra_hd a) [ra_hd a] (ra_exits a) (ra_todo a) false [] (ra_isback a)
                      (ra_latch a) (ra_sexit a) (ra_ev a) (ra_bv a) (ra_names a) with
    | Ok g1' => if walks_cert h (write_back h lvl g1') ha then 1 else 0
    | _ => 0
    end
  else 0.

Definition early_col_of (h ha : hier) (lvl : name) (g1 : egraph) (hd bb : name) : Z :=
  match find h lvl, dpop g1 bb with
  | Some nl, Some (b, g2) =>
    match declare_backedge b hd with
    | Some b1 =>
      let g' := dset g2 bb b1 in
      if is_region nl && nodupb (ekeys g') && is_none (efind g1 lvl) &&
         forallb (fun n => is_region n || forallb (resolves h) (n_jt n)) h &&
         walks_cert h (write_back h lvl g') ha
      then 3 else 0
    | None => 0
    end
  | _, _ => 0
  end.

Definition helper_col_of (h ha : hier) (lvl : name) (loop headers entries exiting exits : list name)
           (doms : list (name * list name)) (bnames : list name) (vnames : list Z) : Z :=
  match level_graph h lvl with
  | Some g1 =>
    match rot_args g1 loop headers exiting exits doms bnames vnames with
    | Some a => plain_col_of h ha lvl g1 a
    | None =>
      match early_block g1 loop headers exiting, headers with
      | Some bb, [hd] => early_col_of h ha lvl g1 hd bb
      | _, _ => uni_col_of h ha lvl loop headers entries exiting exits doms bnames vnames
      end
    end
  | None => 0
  end.

Lemma level_graph_collect h lvl g1 : level_graph h lvl = Some g1 ->
  exists nl, find h lvl = Some nl /\ collect h (children_h nl) = Some g1.
Proof. unfold level_graph. destruct (find h lvl) as [nl|]; [|discriminate]. eauto. Qed.

Lemma uni_branch h ha lvl loop headers entries exiting exits doms bnames vnames strict :
  let c := uni_col_of h ha lvl loop headers entries exiting exits doms bnames vnames in
  c = 1 \/ c = 3 \/ c = 4 ->
  exists F : Z -> Prop, forall n e e' ds tr st,
    (exists b p, find h n = Some b /\ n_kind b = KOrig p) -> E F e e' ->
    WTrace h (resolve_flat h) strict n e ds tr st -> WTrace ha (resolve_flat ha) strict n e' ds tr st.
Proof.
  cbv zeta. intros H.
  assert (H4 : uni_col_of h ha lvl loop headers entries exiting exits doms bnames vnames = 4).
  { destruct (uni_col_cases h ha lvl loop headers entries exiting exits doms bnames vnames) as [E0|[E0|[E0|E0]]];
      destruct H as [H|[H|H]]; rewrite E0 in H; try discriminate; exact E0. }
  destruct (uni_col_sound h ha lvl loop headers entries exiting exits doms bnames vnames strict H4) as [v [bv Hthm]].
  exists (Fu v bv). exact Hthm.
Qed.

Theorem helper_col_sound h ha lvl loop headers entries exiting exits doms bnames vnames strict :
  let c := helper_col_of h ha lvl loop headers entries exiting exits doms bnames vnames in
  c = 1 \/ c = 3 \/ c = 4 ->
  exists F : Z -> Prop, forall n e e' ds tr st,
    (exists b p, find h n = Some b /\ n_kind b = KOrig p) -> E F e e' ->
    WTrace h (resolve_flat h) strict n e ds tr st -> WTrace ha (resolve_flat ha) strict n e' ds tr st.
Proof.
  cbv zeta. unfold helper_col_of. destruct (level_graph h lvl) as [g1|] eqn:Hlg; [|intros [H|[H|H]]; discriminate].
  destruct (level_graph_collect h lvl g1 Hlg) as [nl [Hl HLG]].
  destruct (rot_args g1 loop headers exiting exits doms bnames vnames) as [a|].
  - (* plain rotation *)
    unfold plain_col_of.
    destruct (walk_pre_rot h lvl TOP (ra_hd a) (ra_exits a) (ra_todo a) (ra_isback a) (ra_latch a) (ra_sexit a)
                           (ra_ev a) (ra_bv a) (ra_names a)) eqn:Hpre; [|intros [H|[H|H]]; discriminate].
    destruct (loop_rotate g1 (ra_hd a) [ra_hd a] (ra_exits a) (ra_todo a) false [] (ra_isback a)
                          (ra_latch a) (ra_sexit a) (ra_ev a) (ra_bv a) (ra_names a)) as [g1'| |] eqn:Hrot;
      try (intros [H|[H|H]]; discriminate).
    destruct (walks_cert h (write_back h lvl g1') ha) eqn:Hc; [|intros [H|[H|H]]; discriminate]. intros _.
    destruct (loop_rotate_h_keeps_walks_b h lvl TOP (ra_hd a) (ra_exits a) (ra_todo a) (ra_isback a) (ra_latch a) (ra_sexit a)
                (ra_ev a) (ra_bv a) (ra_names a) strict Hpre) as [nl' [g1a [g1b [Hl' [HLG' [Hrot' Hthm]]]]]].
    rewrite Hl in Hl'. injection Hl' as <-. rewrite HLG in HLG'. injection HLG' as <-.
    rewrite Hrot in Hrot'. injection Hrot' as <-.
    exists (Fl (ra_ev a) (ra_bv a)). exact (walks_cert_sound h _ ha strict _ Hthm Hc).
  - destruct (early_block g1 loop headers exiting) as [bb|].
    + destruct headers as [|hd [|h1 hr]].
      * apply uni_branch.
      * (* the early return *)
        unfold early_col_of. rewrite Hl.
        destruct (dpop g1 bb) as [[b g2]|] eqn:Hpop; [|intros [H|[H|H]]; discriminate].
        destruct (declare_backedge b hd) as [b1|] eqn:Hdecl; [|intros [H|[H|H]]; discriminate]. cbv zeta.
        destruct (is_region nl && nodupb (ekeys (dset g2 bb b1)) && is_none (efind g1 lvl) &&
                  forallb (fun n => is_region n || forallb (resolves h) (n_jt n)) h &&
                  walks_cert h (write_back h lvl (dset g2 bb b1)) ha) eqn:Hall; [|intros [H|[H|H]]; discriminate].
        intros _. apply andb_true_iff in Hall as [Hall Hc]. apply andb_true_iff in Hall as [Hall Hres].
        apply andb_true_iff in Hall as [Hall Hlv]. apply andb_true_iff in Hall as [Hlr Hnd].
        exists F0. apply (walks_cert_sound h (write_back h lvl (dset g2 bb b1)) ha strict F0); [|exact Hc].
        intros n e e' ds tr st Hn He.
        apply (early_return_keeps_walks_e h lvl nl g1 g2 bb hd b b1 strict Hl Hlr HLG Hpop Hdecl); auto.
        -- apply nodupb_sound. exact Hnd.
        -- destruct (efind g1 lvl); [discriminate|reflexivity].
        -- intros x n0 t Hx Hreg Ht. pose proof (find_forallb h _ Hres x n0 Hx) as Hb. cbv beta in Hb. rewrite Hreg in Hb.
           cbn [orb] in Hb. rewrite forallb_forall in Hb. specialize (Hb t Ht). unfold resolves in Hb.
           destruct (enter_flat h (S (length h)) t); [discriminate|discriminate].
      * apply uni_branch.
    + apply uni_branch.
Qed.

Lemma uni_branch_c h ha lvl loop headers entries exiting exits doms bnames vnames strict :
  let c := uni_col_of h ha lvl loop headers entries exiting exits doms bnames vnames in
  c = 1 \/ c = 3 \/ c = 4 ->
  exists F : Z -> Prop, forall n e e' ds,
    (exists b p, find h n = Some b /\ n_kind b = KOrig p) -> E F e e' ->
    CTrace h (resolve_flat h) strict n e ds -> CTrace ha (resolve_flat ha) strict n e' ds.
Proof.
  cbv zeta. intros H.
  assert (H4 : uni_col_of h ha lvl loop headers entries exiting exits doms bnames vnames = 4).
  { destruct (uni_col_cases h ha lvl loop headers entries exiting exits doms bnames vnames) as [E0|[E0|[E0|E0]]];
      destruct H as [H|[H|H]]; rewrite E0 in H; try discriminate; exact E0. }
  destruct (uni_col_sound_c h ha lvl loop headers entries exiting exits doms bnames vnames strict H4) as [v [bv Hthm]].
  exists (Fu v bv). exact Hthm.
Qed.

Theorem helper_col_sound_c h ha lvl loop headers entries exiting exits doms bnames vnames strict :
  let c := helper_col_of h ha lvl loop headers entries exiting exits doms bnames vnames in
  c = 1 \/ c = 3 \/ c = 4 ->
  exists F : Z -> Prop, forall n e e' ds,
    (exists b p, find h n = Some b /\ n_kind b = KOrig p) -> E F e e' ->
    CTrace h (resolve_flat h) strict n e ds -> CTrace ha (resolve_flat ha) strict n e' ds.
Proof.
  cbv zeta. unfold helper_col_of. destruct (level_graph h lvl) as [g1|] eqn:Hlg; [|intros [H|[H|H]]; discriminate].
  destruct (level_graph_collect h lvl g1 Hlg) as [nl [Hl HLG]].
  destruct (rot_args g1 loop headers exiting exits doms bnames vnames) as [a|].
  - (* plain rotation *)
    unfold plain_col_of.
    destruct (walk_pre_rot h lvl TOP (ra_hd a) (ra_exits a) (ra_todo a) (ra_isback a) (ra_latch a) (ra_sexit a)
                           (ra_ev a) (ra_bv a) (ra_names a)) eqn:Hpre; [|intros [H|[H|H]]; discriminate].
    destruct (loop_rotate g1 (ra_hd a) [ra_hd a] (ra_exits a) (ra_todo a) false [] (ra_isback a)
                          (ra_latch a) (ra_sexit a) (ra_ev a) (ra_bv a) (ra_names a)) as [g1'| |] eqn:Hrot;
      try (intros [H|[H|H]]; discriminate).
    destruct (walks_cert h (write_back h lvl g1') ha) eqn:Hc; [|intros [H|[H|H]]; discriminate]. intros _.
    destruct (loop_rotate_h_keeps_ctrace_b h lvl TOP (ra_hd a) (ra_exits a) (ra_todo a) (ra_isback a) (ra_latch a) (ra_sexit a)
                (ra_ev a) (ra_bv a) (ra_names a) strict Hpre) as [nl' [g1a [g1b [Hl' [HLG' [Hrot' Hthm]]]]]].
    rewrite Hl in Hl'. injection Hl' as <-. rewrite HLG in HLG'. injection HLG' as <-.
    rewrite Hrot in Hrot'. injection Hrot' as <-.
    exists (Fl (ra_ev a) (ra_bv a)). exact (ctrace_cert_sound h _ ha strict _ Hthm Hc).
  - destruct (early_block g1 loop headers exiting) as [bb|].
    + destruct headers as [|hd [|h1 hr]].
      * apply uni_branch_c.
      * (* the early return *)
        unfold early_col_of. rewrite Hl.
        destruct (dpop g1 bb) as [[b g2]|] eqn:Hpop; [|intros [H|[H|H]]; discriminate].
        destruct (declare_backedge b hd) as [b1|] eqn:Hdecl; [|intros [H|[H|H]]; discriminate]. cbv zeta.
        destruct (is_region nl && nodupb (ekeys (dset g2 bb b1)) && is_none (efind g1 lvl) &&
                  forallb (fun n => is_region n || forallb (resolves h) (n_jt n)) h &&
                  walks_cert h (write_back h lvl (dset g2 bb b1)) ha) eqn:Hall; [|intros [H|[H|H]]; discriminate].
        intros _. apply andb_true_iff in Hall as [Hall Hc]. apply andb_true_iff in Hall as [Hall Hres].
        apply andb_true_iff in Hall as [Hall Hlv]. apply andb_true_iff in Hall as [Hlr Hnd].
        exists F0. apply (ctrace_cert_sound h (write_back h lvl (dset g2 bb b1)) ha strict F0); [|exact Hc].
        intros n e e' ds Hn He.
        apply (early_return_keeps_ctrace_e h lvl nl g1 g2 bb hd b b1 strict Hl Hlr HLG Hpop Hdecl); auto.
        -- apply nodupb_sound. exact Hnd.
        -- destruct (efind g1 lvl); [discriminate|reflexivity].
        -- intros x n0 t Hx Hreg Ht. pose proof (find_forallb h _ Hres x n0 Hx) as Hb. cbv beta in Hb. rewrite Hreg in Hb.
           cbn [orb] in Hb. rewrite forallb_forall in Hb. specialize (Hb t Ht). unfold resolves in Hb.
           destruct (enter_flat h (S (length h)) t); [discriminate|discriminate].
      * apply uni_branch_c.
    + apply uni_branch_c.
Qed.

Definition helper_col (rows : list (list Z)) : Z :=
  let '(br, ar, op, st, dm) := split_lh rows in
  match decode br, decode ar, op with
  | Some (_, h), Some (_, ha), lvl :: r0 =>
    match take_list r0 with
    | Some (loop, r1) =>
      match take_list r1 with
      | Some (headers, r2) =>
        match take_list r2 with
        | Some (entries, r3) =>
          match take_list r3 with
          | Some (exiting, r4) =>
            match take_list r4 with
            | Some (exits, r5) =>
              match take_list r5 with
              | Some (bnames, r6) =>
                match take_list r6 with
                | Some (vnames, []) => helper_col_of h ha lvl loop headers entries exiting exits dm bnames vnames
                | _ => 0
                end
              | None => 0
              end
            | None => 0
            end
          | None => 0
          end
        | None => 0
        end
      | None => 0
      end
    | None => 0
    end
  | _, _, _ => 0
  end.

Definition run_looph3h (rows : list (list Z)) : list Z := run_looph rows ++ [helper_col rows].

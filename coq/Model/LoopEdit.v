(* LoopEdit.v — transformations.loop_restructure_helper on a flat graph (Edits.egraph),
   line by line: header unification (Edits2.insert_cb) when there are several
   headers, the early return for a single exiting latch, otherwise one assignment
   block per arc that leaves the loop or goes back to a header, the exiting
   latch and, with several exits, the exit branch.  What the code takes from
   elsewhere is an input here: the headers, entries, exiting blocks and exits
   (SCFG.find_headers_and_entries / find_exiting_and_exits, property C13), the
   dominator sets (_doms), and the names the generator hands out, in order. *)
From Coq Require Import List ZArith Bool Lia.
Import ListNotations.
From V Require Import Valid.Hier Model.Graph Model.Edits Model.Edits2.
Local Open Scope Z_scope.

Definition C_LATCH : Z := 12.
Definition C_EXITBRANCH : Z := 13.
Definition C_HEAD : Z := 11.

(* reverse_lookup: the first key (in dictionary order) that maps to v, else -1 *)
Definition rev_lookup (tbl : list (Z * name)) (v : name) : Z :=
  match filter (fun p => Z.eqb (snd p) v) tbl with (k, _) :: _ => k | [] => -1 end.

Definition enumerate (l : list name) : list (Z * name) :=
  combine (map Z.of_nat (seq 0 (length l))) l.

Record lctx := mkL {
  l_headers : list name; l_exits : list name;
  l_needs : bool; l_unified : bool;
  l_ev : Z; l_bv : Z;                       (* exit variable, backedge variable *)
  l_latch : name; l_head : name; l_exit_target : name;
  l_exit_tbl : list (Z * name); l_back_tbl : list (Z * name); l_header_tbl : list (Z * name);
  l_isback : name -> name -> bool }.       (* name not in doms[jt] or name == jt *)

(* for jt in scfg[name].jump_targets: ... ; new_jt is edited in place *)
Fixpoint le_targets (c : lctx) (g : egraph) (name_ : name) (snap new_jt : list name) (names : list name)
  : res (egraph * list name * list name) :=
  match snap with
  | [] => Ok (g, new_jt, names)
  | jt :: rest =>
    if zmem jt (l_exits c) then
      match names with
      | [] => AssertionError
      | a :: names' =>
        let asg := (if l_needs c then [(l_ev c, rev_lookup (l_exit_tbl c) jt)] else []) ++
                   [(l_bv c, rev_lookup (l_back_tbl c) (l_exit_target c))] in
        le_targets c (dset g a (mkE [l_latch c] [] (EAssign asg))) name_ rest (replace_first jt a new_jt) names'
      end
    else if zmem jt (l_headers c) && l_isback c name_ jt then
      match names with
      | [] => AssertionError
      | a :: names' =>
        let asg := [(l_bv c, rev_lookup (l_back_tbl c) (l_head c))] ++
                   (if l_needs c || l_unified c then [(l_ev c, rev_lookup (l_header_tbl c) jt)] else []) in
        match dpop g name_ with
        | None => KeyError
        | Some (b, g1) =>
          let jts' := fold_left (fun acc h => remove_first h acc) (l_headers c) (ejts b) in
          match replace_jt b jts' with
          | None => AssertionError
          | Some b1 =>
            le_targets c (dset (dset g1 name_ b1) a (mkE [l_latch c] [] (EAssign asg))) name_ rest
                       (replace_first jt a new_jt) names'
          end
        end
      end
    else le_targets c g name_ rest new_jt names
  end.

(* for name in sorted(loop): if name in exiting_blocks or name in backedge_blocks: ... *)
Fixpoint le_blocks (c : lctx) (g : egraph) (todo : list name) (names : list name) : res (egraph * list name) :=
  match todo with
  | [] => Ok (g, names)
  | name_ :: rest =>
    match efind g name_ with
    | None => KeyError
    | Some b =>
      match le_targets c g name_ (ejts b) (ejts b) names with
      | Ok (g1, new_jt, names1) =>
        match dpop g1 name_ with
        | None => KeyError
        | Some (b0, g2) =>
          match replace_jt b0 new_jt with
          | None => AssertionError
          | Some b1 => le_blocks c (dset g2 name_ b1) rest names1
          end
        end
      | KeyError => KeyError
      | AssertionError => AssertionError
      end
    end
  end.

(* the part after the early-return test, for a graph with one loop head *)
Definition loop_rotate (g : egraph) (hd : name) (headers exits todo : list name) (unified : bool)
           (header_tbl : list (Z * name)) (isback : name -> name -> bool)
           (latch sexit : name) (ev bv : Z) (names : list name) : res egraph :=
  let needs := match exits with _ :: _ :: _ => true | _ => false end in
  match (if needs then Some sexit else hd_error exits) with
  | None => AssertionError       (* next(iter(exit_blocks)) on an empty list: StopIteration *)
  | Some exit_target =>
    let back_tbl := [(0, hd); (1, exit_target)] in
    let exit_tbl := enumerate exits in
    let c := mkL headers exits needs unified ev bv latch hd exit_target exit_tbl back_tbl header_tbl isback in
    match le_blocks c g todo names with
    | Ok (g1, _) =>
      let g2 := dset g1 latch (mkE [exit_target; hd] [hd] (EBranch C_LATCH bv back_tbl)) in
      Ok (if needs then dset g2 sexit (mkE exits [] (EBranch C_EXITBRANCH ev exit_tbl)) else g2)
    | KeyError => KeyError
    | AssertionError => AssertionError
    end
  end.

(* BasicBlock.declare_backedge *)
Definition declare_backedge (b : eblk) (t : name) : option eblk :=
  if zmem t (ejts b) then
    match e_be b with [] => Some (mkE (e_jt b) [t] (e_kind b)) | _ => None end
  else Some b.

(* the whole helper.  blocknames / varnames: what the generator hands out, in order.
   doms: name -> the names that dominate it (as _doms returns them after the unification). *)
Definition arcs_into (g : egraph) (preds S : list name) : nat :=
  fold_left (fun acc p => match efind g p with
                          | Some b => (acc + length (zsort (filter (fun t => zmem t S) (e_jt b))))%nat
                          | None => acc end) preds O.

(* everything after the single loop head has been established (step 1) *)
Definition loop_rest (g1 : egraph) (hd : name) (loop1 headers exiting exits : list name) (unified : bool)
           (doms : list (name * list name)) (bn : list name) (vn : list Z) : res egraph :=
    let sloop := zsort loop1 in
    let backedge_blocks := filter (fun x => match efind g1 x with
                                            | Some b => existsb (fun t => zmem t headers) (ejts b)
                                            | None => false end) sloop in
    let early := match backedge_blocks, exiting with
                 | [bb], [xb] => Z.eqb bb xb
                 | _, _ => false end in
    if early then
      match backedge_blocks with
      | bb :: _ =>
        match dpop g1 bb with
        | None => KeyError
        | Some (b, g2) =>
          match declare_backedge b hd with
          | Some b1 => Ok (dset g2 bb b1)
          | None => AssertionError
          end
        end
      | [] => AssertionError
      end
    else
      let needs := match exits with _ :: _ :: _ => true | _ => false end in
      match bn with
      | [] => AssertionError
      | latch :: bn1 =>
        let '(sexit, bn2) := if needs then (match bn1 with s :: r => (s, r) | [] => (0, []) end) else (0, bn1) in
        let head_branch := match efind g1 hd with
                           | Some hb => match e_kind hb with EBranch _ v tbl => Some (v, tbl) | _ => None end
                           | None => None end in
        let vars : option (Z * list (Z * name) * list Z) :=
          if unified then match head_branch with Some (v, tbl) => Some (v, tbl, vn) | None => None end
          else match vn with v :: r => Some (v, [], r) | [] => None end in
        match vars with
        | None => AssertionError
        | Some (ev, header_tbl, vn1) =>
          match vn1 with
          | [] => AssertionError
          | bv :: _ =>
            let isback name_ jt := negb (zmem name_ (match zassoc jt doms with Some d => d | None => [] end))
                                   || Z.eqb name_ jt in
            let todo := filter (fun x => zmem x exiting || zmem x backedge_blocks) sloop in
            loop_rotate g1 hd headers exits todo unified header_tbl isback latch sexit ev bv bn2
          end
        end
      end.

Definition loop_helper (g : egraph) (loop headers entries exiting exits : list name)
           (doms : list (name * list name)) (blocknames : list name) (varnames : list Z) : res egraph :=
  let unified := match headers with _ :: _ :: _ => true | _ => false end in
  (* step 1: a single loop head *)
  let step1 : res (egraph * name * list name * list name * list Z) :=
    if unified then
      match blocknames, varnames with
      | h :: bn, v :: vn =>
        let k := arcs_into g entries headers in
        match insert_cb g h v entries headers (firstn k bn) C_HEAD with
        | Ok g1 => Ok (g1, h, loop ++ [h], skipn k bn, vn)
        | KeyError => KeyError
        | AssertionError => AssertionError
        end
      | _, _ => AssertionError
      end
    else match headers with
         | [h] => Ok (g, h, loop, blocknames, varnames)
         | _ => AssertionError
         end in
  match step1 with
  | KeyError => KeyError
  | AssertionError => AssertionError
  | Ok (g1, hd, loop1, bn, vn) => loop_rest g1 hd loop1 headers exiting exits unified doms bn vn
  end.

(* ---------- correspondence driver ----------
   rows: 21/22/50 as in Edits2.run_c14 (graph before, graph after, status), and
     44 L loop.. H headers.. N entries.. X exiting.. E exits.. B blocknames.. V varnames..
     45 name D dominators..       (one row per block, after the unification)
   answer: [agree (graph order-exact, or the same kind of exception)] *)
Fixpoint split_doms (rows : list (list Z)) : list (name * list name) * list (list Z) :=
  match rows with
  | [] => ([], [])
  | row :: rest =>
    let '(d, o) := split_doms rest in
    match row with
    | 45 :: nm :: r => match take_list r with Some (l, []) => ((nm, l) :: d, o) | _ => (d, [0] :: o) end
    | _ => (d, row :: o)
    end
  end.

Definition take7 (r : list Z) : option (list Z * list Z * list Z * list Z * list Z * list Z * list Z) :=
  match take_list r with Some (a, r1) =>
  match take_list r1 with Some (b, r2) =>
  match take_list r2 with Some (c, r3) =>
  match take_list r3 with Some (d, r4) =>
  match take_list r4 with Some (e, r5) =>
  match take_list r5 with Some (f, r6) =>
  match take_list r6 with Some (g, []) => Some (a, b, c, d, e, f, g)
  | _ => None end | None => None end | None => None end | None => None end | None => None end | None => None end
  | None => None end.

Definition run_loop (rows : list (list Z)) : list Z :=
  let '(doms, other) := split_doms rows in
  let c := decode_c14 other in
  if c_bad c then [0] else
  match c_op c with
  | 44 :: r =>
    match take7 r with
    | Some (loop, headers, entries, exiting, exits, bnames, vnames) =>
      [b2z (agree_graph (loop_helper (c_before c) loop headers entries exiting exits doms bnames vnames) c)]
    | None => [0]
    end
  | _ => [0]
  end.

(* InsCol.v — the per-call column for an insertion in front of ONE successor (predecessors that are blocks),
   with its meaning proved: computed from the hierarchy before the call (h), the hierarchy the implementation
   produced (ha) and the arguments; 1 = the premises of the universal path theorem hold
   (InsHierApplic.walk_pre_ins) and its result is fit for flattening, keeps the original blocks and equals ha
   up to the order of the node list.  ins1_col_sound: then ha has every flat walk of h. *)
From Coq Require Import List ZArith Bool.
Import ListNotations.
From V Require Import Valid.Hier Valid.Walk Valid.FlatRegion Model.Graph Model.Edits Model.Edits2 Model.Refine Model.IbPath
     Model.Extract Model.CbHier Model.LoopHier Model.InsHier Model.InsHierApplic Model.InsHierRun Model.LoopHierRun
     Model.HierEquiv Model.UniHierRun Model.HelperCol Model.RlInsert.
Local Open Scope Z_scope.

Definition ins1_col_of (h ha : hier) (lvl new e0 : name) (preds : list name) (cls : Z) : Z :=
  if existsb (fun p => match find h p with Some n => is_region n | None => true end) preds then 2 else
  if walk_pre_ins h lvl TOP new e0 preds cls then
    match level_graph h lvl with
    | Some g1 =>
      match insert_block g1 new preds [e0] cls with
      | Ok g1' => if walks_cert h (write_back h lvl g1') ha then 1 else 0
      | _ => 0
      end
    | None => 0
    end
  else 0.

Theorem ins1_col_sound h ha lvl new e0 preds cls strict :
  ins1_col_of h ha lvl new e0 preds cls = 1 ->
  forall n e e' ds tr st,
    (exists b p, find h n = Some b /\ n_kind b = KOrig p) -> E Fn e e' ->
    WTrace h (resolve_flat h) strict n e ds tr st -> WTrace ha (resolve_flat ha) strict n e' ds tr st.
Proof.
  unfold ins1_col_of.
  destruct (existsb (fun p => match find h p with Some n => is_region n | None => true end) preds); [discriminate|].
  destruct (walk_pre_ins h lvl TOP new e0 preds cls) eqn:Hpre; [|discriminate].
  destruct (level_graph h lvl) as [g1|] eqn:Hlg; [|discriminate].
  destruct (insert_block g1 new preds [e0] cls) as [g1'| |] eqn:Hib; try discriminate.
  destruct (walks_cert h (write_back h lvl g1') ha) eqn:Hc; [|discriminate]. intros _.
  destruct (insert_block_h_keeps_walks_b h lvl TOP new e0 preds cls strict Hpre) as [nl [g1a [g1b [Hl [HLG [Hib' Hthm]]]]]].
  destruct (level_graph_collect h lvl g1 Hlg) as [nl' [Hl' HLG']].
  rewrite Hl in Hl'. injection Hl' as <-. rewrite HLG in HLG'. injection HLG' as ->.
  rewrite Hib in Hib'. injection Hib' as <-.
  exact (walks_cert_sound h (write_back h lvl g1') ha strict Fn Hthm Hc).
Qed.

Theorem ins1_col_sound_c h ha lvl new e0 preds cls strict :
  ins1_col_of h ha lvl new e0 preds cls = 1 ->
  forall n e e' ds,
    (exists b p, find h n = Some b /\ n_kind b = KOrig p) -> E Fn e e' ->
    CTrace h (resolve_flat h) strict n e ds -> CTrace ha (resolve_flat ha) strict n e' ds.
Proof.
  unfold ins1_col_of.
  destruct (existsb (fun p => match find h p with Some n => is_region n | None => true end) preds); [discriminate|].
  destruct (walk_pre_ins h lvl TOP new e0 preds cls) eqn:Hpre; [|discriminate].
  destruct (level_graph h lvl) as [g1|] eqn:Hlg; [|discriminate].
  destruct (insert_block g1 new preds [e0] cls) as [g1'| |] eqn:Hib; try discriminate.
  destruct (walks_cert h (write_back h lvl g1') ha) eqn:Hc; [|discriminate]. intros _.
  destruct (insert_block_h_keeps_ctrace_b h lvl TOP new e0 preds cls strict Hpre) as [nl [g1a [g1b [Hl [HLG [Hib' Hthm]]]]]].
  destruct (level_graph_collect h lvl g1 Hlg) as [nl' [Hl' HLG']].
  rewrite Hl in Hl'. injection Hl' as <-. rewrite HLG in HLG'. injection HLG' as ->.
  rewrite Hib in Hib'. injection Hib' as <-.
  exact (ctrace_cert_sound h (write_back h lvl g1') ha strict Fn Hthm Hc).
Qed.

Definition ins_col2 (rows : list (list Z)) : Z :=
  let '(br, ar, op, st) := split_ib rows in
  match decode br, decode ar, op with
  | Some (_, h), Some (_, ha), lvl :: new :: cls :: r =>
    match take_list r with
    | Some (preds, r1) =>
      match take_list r1 with
      | Some ([e0], []) =>
        let c := ins1_col_of h ha lvl new e0 preds cls in
        if Z.eqb c 2 then ins_rl_col_of h ha new e0 preds cls else c
      | _ => ins_col rows
      end
    | None => ins_col rows
    end
  | _, _, _ => ins_col rows
  end.

Definition run_ibh2c (rows : list (list Z)) : list Z := run_ibh rows ++ [ins_col2 rows].

(* Src.v — the source front end (AST2SCFGTransformer, ast_transforms.py) on the
   control skeleton of the supported statement subset: a model of the graph it
   builds (same block indices, same instruction order, same jump targets, same
   creation order), a semantics of the skeleton, and the block-by-block
   interpretation of the graph that property C08 describes.

   Simple statements and tests are opaque: each carries the identity of the AST
   node (allotted by the harness), its meaning is a parameter.  A for-loop is
   the while-form the transformer desugars it to (its five generated statements
   carry slot, loop header index and the interned target/iterator texts).
   and/or operands are NOT part of this skeleton (see DESIGN: K2). *)
From Coq Require Import List ZArith Bool Lia.
Import ListNotations.
Local Open Scope Z_scope.

(* ---------- syntax ---------- *)
Inductive stmt :=
| SAct (a : Z)                                   (* Assign / AugAssign / Expr *)
| SPass (a : Z)
| SRet (a : Z)
| SBreak (a : Z)
| SContinue (a : Z)
| SIf (c : Z) (t e : stmts)
| SWhile (c : Z) (body orelse : stmts)
| SFor (h tgt itr : Z) (body orelse : stmts)     (* h: index of the header block (checked by the builder);
                                                    tgt, itr: interned texts of target and iterator *)
with stmts := SNil | SCons (x : stmt) (r : stmts).

(* ---------- instructions of a block ---------- *)
Inductive instr :=
| IAct (a : Z) | IPass (a : Z) | IRet (a : Z) | IBrk (a : Z) | ICnt (a : Z) | ITest (c : Z).

(* the statements the transformer generates for a for-loop whose header block is h:
   slot 0  __scfg_iterator_h__ = iter(ITER)        slot 1  TARGET = None
   slot 2  __scfg_iter_last_h__ = TARGET           slot 3  TARGET = next(__scfg_iterator_h__, sentinel)
   slot 4  TARGET != sentinel   (the test)         slot 5  TARGET = __scfg_iter_last_h__
   encoded as a negative identity so that they never collide with node identities *)
Definition gen_id (slot h tgt itr : Z) : Z := - (1 + slot + 10 * (h + 1000 * (tgt + 1000 * itr))).
(* the identity of a generated statement is exactly what its text contains *)
Definition gslot (slot h tgt itr : Z) : Z :=
  if Z.eqb slot 0 then gen_id 0 h 0 itr
  else if Z.eqb slot 1 || Z.eqb slot 4 then gen_id slot 0 tgt 0
  else gen_id slot h tgt 0.

Record blk := mkB { b_idx : Z; b_ins : list instr; b_jt : list Z }.

(* ---------- the builder: only the most recently created block is open ---------- *)
Record bst := mkBst { done : list blk; cur : blk; next : Z; okf : bool }.

Definition emit (i : instr) (st : bst) : bst :=
  mkBst (done st) (mkB (b_idx (cur st)) (b_ins (cur st) ++ [i]) (b_jt (cur st))) (next st) (okf st).
Definition emits (l : list instr) (st : bst) : bst := fold_left (fun s i => emit i s) l st.
Definition setjt (jt : list Z) (st : bst) : bst :=
  mkBst (done st) (mkB (b_idx (cur st)) (b_ins (cur st)) jt) (next st) (okf st).
Definition addblk (i : Z) (st : bst) : bst := mkBst (cur st :: done st) (mkB i [] []) (next st) (okf st).
Definition bump (k : Z) (st : bst) : bst := mkBst (done st) (cur st) (next st + k) (okf st).
Definition chk (b : bool) (st : bst) : bst := mkBst (done st) (cur st) (next st) (okf st && b).

Definition last_instr (b : blk) : option instr := last (map Some (b_ins b)) None.

(* seal_block: seal_inside_loop / seal_outside_loop *)
Definition seal (loop : option (Z * Z)) (default : Z) (st : bst) : bst :=
  match loop, last_instr (cur st) with
  | Some (h, _), Some (ICnt _) => setjt [h] st
  | Some (_, e), Some (IBrk _) => setjt [e] st
  | _, Some (IRet _) => st
  | _, _ => setjt [default] st
  end.

Definition is_jump (x : stmt) : bool :=
  match x with SRet _ | SBreak _ | SContinue _ => true | _ => false end.

Fixpoint cg_stmt (x : stmt) (loop : option (Z * Z)) (st : bst) {struct x} : bst :=
  match x with
  | SAct a => emit (IAct a) st
  | SPass a => emit (IPass a) st
  | SRet a => emit (IRet a) st
  | SBreak a => emit (IBrk a) st
  | SContinue a => emit (ICnt a) st
  | SIf c t e =>
    let n := next st in
    let st1 := addblk n (setjt [n; n + 1] (emit (ITest c) (bump 3 st))) in
    let st2 := seal loop (n + 2) (cg_stmts t loop st1) in
    let st3 := addblk (n + 1) st2 in
    let st4 := seal loop (n + 2) (cg_stmts e loop st3) in
    addblk (n + 2) st4
  | SWhile c body orelse =>
    let n := next st in                      (* head n, body n+1, exit n+2, else n+3 *)
    let st1 := addblk n (setjt [n] (bump 4 st)) in
    let st2 := addblk (n + 1) (setjt [n + 1; n + 3] (emit (ITest c) st1)) in
    let st3 := seal (Some (n, n + 2)) n (cg_stmts body (Some (n, n + 2)) st2) in
    let st4 := addblk (n + 3) st3 in
    let st5 := seal loop (n + 2) (cg_stmts orelse loop st4) in
    addblk (n + 2) st5
  | SFor h tgt itr body orelse =>
    let n := next st in                      (* head n, body n+1, else n+2, exit n+3 *)
    let g slot := gslot slot h tgt itr in    (* the generated names carry the header index: h must be n *)
    let st0 := emits [IAct (g 0); IAct (g 1)] (bump 4 (chk (Z.eqb h n) st)) in
    let st1 := addblk n (setjt [n] st0) in
    let st2 := addblk (n + 1) (setjt [n + 1; n + 2] (emits [IAct (g 2); IAct (g 3); ITest (g 4)] st1)) in
    let st3 := seal (Some (n, n + 3)) n (cg_stmts body (Some (n, n + 3)) st2) in
    let st4 := emit (IAct (g 5)) (addblk (n + 2) st3) in
    let st5 := seal loop (n + 3) (cg_stmts orelse loop st4) in
    addblk (n + 3) st5
  end
with cg_stmts (l : stmts) (loop : option (Z * Z)) (st : bst) {struct l} : bst :=
  match l with
  | SNil => st
  | SCons x r => let st' := cg_stmt x loop st in if is_jump x then st' else cg_stmts r loop st'
  end.

(* block 0 is the genesis block, indices are handed out from 1 *)
Definition st_init : bst := mkBst [] (mkB 0 [] []) 1 true.
Definition blocks_of (st : bst) : list blk := rev (cur st :: done st).   (* creation order *)
Definition build (body : stmts) : list blk := blocks_of (cg_stmts body None st_init).
Definition fors_ok (body : stmts) : bool := okf (cg_stmts body None st_init).

(* ---------- meaning of actions and tests: parameters ---------- *)
Section Semantics.
Variable state : Type.
Variable act : Z -> state -> option state.              (* None: the statement raises *)
Variable test : Z -> state -> option (bool * state).    (* tests may have effects and may raise *)

Inductive outcome :=
| ONormal (s : state) | OBreak (s : state) | OCont (s : state)
| ORet (a : Z) (s : state) | ORaise (a : Z) | OFuel | OStuck.

(* ---------- the skeleton's own semantics (Python's, for while/if/break/continue/return;
   for a for-loop: the semantics of the while-form it is desugared to, with the header
   index left symbolic through `fh`) ---------- *)
Fixpoint acts (l : list Z) (s : state) : state + Z :=
  match l with
  | [] => inl s
  | a :: r => match act a s with Some s' => acts r s' | None => inr a end
  end.

Fixpoint exec (fuel : nat) (l : stmts) (s : state) {struct fuel} : outcome :=
  match fuel with
  | O => OFuel
  | S f =>
    match l with
    | SNil => ONormal s
    | SCons x r =>
      match x with
      | SAct a => match act a s with Some s' => exec f r s' | None => ORaise a end
      | SPass _ => exec f r s
      | SRet a => match act a s with Some s' => ORet a s' | None => ORaise a end
      | SBreak _ => OBreak s
      | SContinue _ => OCont s
      | SIf c t e =>
        match test c s with
        | None => ORaise c
        | Some (b, s') =>
          match exec f (if b then t else e) s' with
          | ONormal s'' => exec f r s''
          | o => o
          end
        end
      | SWhile c body orelse =>
        match loop f [] c body [] orelse s with
        | ONormal s' => exec f r s'
        | o => o
        end
      | SFor h tgt itr body orelse =>
        let g slot := gslot slot h tgt itr in
        match acts [g 0; g 1] s with
        | inr a => ORaise a
        | inl s0 =>
          match loop f [g 2; g 3] (g 4) body [g 5] orelse s0 with
          | ONormal s' => exec f r s'
          | o => o
          end
        end
      end
    end
  end
with loop (fuel : nat) (hdr : list Z) (c : Z) (body : stmts) (epre : list Z) (orelse : stmts) (s : state)
     {struct fuel} : outcome :=
  match fuel with
  | O => OFuel
  | S f =>
    match acts hdr s with
    | inr a => ORaise a
    | inl s1 =>
      match test c s1 with
      | None => ORaise c
      | Some (true, s2) =>
        match exec f body s2 with
        | ONormal s3 | OCont s3 => loop f hdr c body epre orelse s3
        | OBreak s3 => ONormal s3
        | o => o
        end
      | Some (false, s2) =>
        (* the else clause runs on normal exhaustion; break/continue in it belong to the enclosing loop *)
        match acts epre s2 with
        | inr a => ORaise a
        | inl s3 => exec f orelse s3
        end
      end
    end
  end.

(* ---------- block-by-block interpretation of a graph (property C08) ---------- *)
Definition findb (G : list blk) (i : Z) : option blk := find (fun b => Z.eqb (b_idx b) i) G.

Inductive rres := RGo (s : state) (lastb : option bool) | RHalt (o : outcome).

Fixpoint run_ins (l : list instr) (s : state) : rres :=
  match l with
  | [] => RGo s None
  | IAct a :: r => match act a s with Some s' => run_ins r s' | None => RHalt (ORaise a) end
  | IPass _ :: r | IBrk _ :: r | ICnt _ :: r => run_ins r s
  | IRet a :: _ => match act a s with Some s' => RHalt (ORet a s') | None => RHalt (ORaise a) end
  | ITest c :: r =>
    match test c s with
    | None => RHalt (ORaise c)
    | Some (b, s') => match r with [] => RGo s' (Some b) | _ => run_ins r s' end
    end
  end.

Fixpoint run (G : list blk) (fuel : nat) (pc : Z) (s : state) : outcome :=
  match fuel with
  | O => OFuel
  | S f =>
    match findb G pc with
    | None => OStuck
    | Some b =>
      match run_ins (b_ins b) s with
      | RHalt o => o
      | RGo s' lastb =>
        match b_jt b, lastb with
        | [t], _ => run G f t s'
        | [t1; t2], Some true => run G f t1 s'
        | [t1; t2], Some false => run G f t2 s'
        | _, _ => OStuck
        end
      end
    end
  end.
End Semantics.

Arguments ONormal {state}. Arguments OBreak {state}. Arguments OCont {state}.
Arguments ORet {state}. Arguments ORaise {state}. Arguments OFuel {state}. Arguments OStuck {state}.

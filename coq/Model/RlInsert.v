(* RlInsert.v — an insertion in front of ONE successor seen on the RESOLVED LEAF GRAPHS: whatever the edit did to
   the hierarchy (predecessors that are regions: the region block and, recursively, its exiting block are
   re-targeted), if the resolved leaf graph of the result is, lookup for lookup, the flat insertion
   (Edits.insert_block) into the resolved leaf graph of the hierarchy before - in front of the block the
   successor resolves to, for the blocks the predecessors are left through - then every flat walk is kept.
   Flatten.flatten_walk twice, IbPath.insert_block_one_keeps_walks in between; no model of the edit on
   hierarchies is needed, the comparison of the two leaf graphs is evaluated (rl_ins_okb) by the extracted
   checker on the hierarchy the implementation produced. *)
From Coq Require Import List ZArith Bool Lia.
Import ListNotations.
From V Require Import Valid.Hier Valid.Walk Valid.FlatRegion Model.Graph Model.Edits Model.Edits2 Model.Refine Model.IbPath
     Model.JoinPath Model.Extract Model.LoopHier Model.Flatten Model.LoopHierPath Model.LoopHierApplic Model.Total2
     Model.LoopHierRun Model.HierEquiv Model.UniHierRun.
Local Open Scope Z_scope.

Lemma efind_not_key (g : egraph) x : ~ In x (ekeys g) -> efind g x = None.
Proof. intros H. destruct (efind g x) as [b|] eqn:E; [|reflexivity]. exfalso. apply H. eapply efind_keys; eauto. Qed.

Definition eblk_eqb' (a b : eblk) : bool :=
  list_eqb (e_jt a) (e_jt b) && list_eqb (e_be a) (e_be b) && ekind_eqb (e_kind a) (e_kind b).

Lemma eblk_eqb'_eq a b : eblk_eqb' a b = true -> a = b.
Proof.
  unfold eblk_eqb'. intros H. apply andb_true_iff in H as [H H3]. apply andb_true_iff in H as [H1 H2].
  apply list_eqb_eq in H1, H2. apply ekind_eqb_eq in H3. destruct a, b. cbn in *. subst. reflexivity.
Qed.

(* the same lookups *)
Definition lookups_eqb (g1 g2 : egraph) : bool :=
  forallb (fun x => match efind g1 x, efind g2 x with
                    | Some a, Some b => eblk_eqb' a b
                    | None, None => true
                    | _, _ => false end) (ekeys g1 ++ ekeys g2).

Lemma lookups_eqb_sound g1 g2 : lookups_eqb g1 g2 = true -> forall x, efind g1 x = efind g2 x.
Proof.
  unfold lookups_eqb. intros H x. rewrite forallb_forall in H.
  destruct (in_dec Z.eq_dec x (ekeys g1 ++ ekeys g2)) as [Hi|Hn].
  - specialize (H x Hi). destruct (efind g1 x) as [a|], (efind g2 x) as [b|]; try discriminate; [|reflexivity].
    apply eblk_eqb'_eq in H. congruence.
  - rewrite (efind_not_key g1 x), (efind_not_key g2 x); [reflexivity| |]; intros Hi; apply Hn; apply in_or_app; auto.
Qed.

Theorem rl_insertion_keeps_walks h h' top new t P cls G' strict :
  flat_okb h top true = true -> flat_okb h' top true = true ->
  insert_block (RL h) new P [t] cls = Ok G' ->
  (forall x, efind (RL h') x = efind G' x) ->
  NoDup P -> ~ In new P ->
  (forall p b, In p P -> efind (RL h) p = Some b ->
     NoDup (e_jt b) /\ ~ In new (e_jt b) /\ (forall c w tb, e_kind b = EBranch c w tb -> NoDup (map fst tb))) ->
  efind (RL h) new = None -> new <> top -> cls <> 100 -> In t (ekeys (RL h)) ->
  orig_keptb h h' = true ->
  forall n e e' ds tr st,
    (exists b p, find h n = Some b /\ n_kind b = KOrig p) -> E Fn e e' ->
    WTrace h (resolve_flat h) strict n e ds tr st -> WTrace h' (resolve_flat h') strict n e' ds tr st.
Proof.
  intros Fh Fh' Hib Hlk Hnd Hnew Hpjt Hfresh Htop Hcls Ht Hkept n e e' ds tr st Hn He W.
  destruct (flat_okb_sound h top true Fh) as [A1 [A2 [A3 [A4 A5]]]].
  destruct (flat_okb_sound h' top true Fh') as [B1 [B2 [B3 [B4 B5]]]].
  destruct Hn as [bn [pn [Hbn Hkn]]].
  destruct (orig_keptb_sound h h' Hkept n bn pn Hbn Hkn) as [bn' [pn' [Hbn' Hkn']]].
  apply (proj1 (flatten_walk h top strict A1 A2 A3 A4 A5 n e ds tr st (ex_intro _ bn (ex_intro _ pn (conj Hbn Hkn))))) in W.
  assert (HnG : exists b, efind (RL h) n = Some b /\ e_kind b = EPlain 100).
  { exists (rl h bn). split; [rewrite (efind_RL' h n A1), Hbn; unfold is_region; rewrite Hkn; reflexivity|]. unfold rl. cbn. rewrite Hkn. reflexivity. }
  assert (W2 : WTrace (ehier top G') (resolve_flat (ehier top G')) strict n e' ds tr st).
  { eapply (insert_block_one_keeps_walks (RL h) top new t P cls G' strict Hib).
    - split; assumption.
    - exact Hpjt.
    - repeat split; assumption.
    - intros Hi. apply A2. apply ekeys_RL. exact Hi.
    - exact Ht.
    - intros x b t0 Hb Ht0. destruct (efind (RL h) t0) as [bt|] eqn:Et; [eapply efind_keys; eauto|].
      exfalso. exact (RL_closed h A1 A4 x b t0 Hb Ht0 Et).
    - exact HnG.
    - exact He.
    - exact W. }
  assert (W3 : WTrace (ehier top (RL h')) (resolve_flat (ehier top (RL h'))) strict n e' ds tr st).
  { assert (HnG' : exists b, efind (RL h') n = Some b /\ e_kind b = EPlain 100).
    { exists (rl h' bn'). split; [rewrite (efind_RL' h' n B1), Hbn'; unfold is_region; rewrite Hkn'; reflexivity|].
      unfold rl. cbn. rewrite Hkn'. reflexivity. }
    apply (proj2 (ehier_congr (RL h') G' top strict Hlk (fun Hi => B2 (ekeys_RL h' top Hi)) (RL_closed h' B1 B4) n e' ds tr st HnG')).
    exact W2. }
  exact (proj2 (flatten_walk h' top strict B1 B2 B3 B4 B5 n e' ds tr st (ex_intro _ bn' (ex_intro _ pn' (conj Hbn' Hkn')))) W3).
Qed.

Theorem rl_insertion_keeps_ctrace h h' top new t P cls G' strict :
  flat_okb h top true = true -> flat_okb h' top true = true ->
  insert_block (RL h) new P [t] cls = Ok G' ->
  (forall x, efind (RL h') x = efind G' x) ->
  NoDup P -> ~ In new P ->
  (forall p b, In p P -> efind (RL h) p = Some b ->
     NoDup (e_jt b) /\ ~ In new (e_jt b) /\ (forall c w tb, e_kind b = EBranch c w tb -> NoDup (map fst tb))) ->
  efind (RL h) new = None -> new <> top -> cls <> 100 -> In t (ekeys (RL h)) ->
  orig_keptb h h' = true ->
  forall n e e' ds,
    (exists b p, find h n = Some b /\ n_kind b = KOrig p) -> E Fn e e' ->
    CTrace h (resolve_flat h) strict n e ds -> CTrace h' (resolve_flat h') strict n e' ds.
Proof.
  intros Fh Fh' Hib Hlk Hnd Hnew Hpjt Hfresh Htop Hcls Ht Hkept n e e' ds Hn He W.
  destruct (flat_okb_sound h top true Fh) as [A1 [A2 [A3 [A4 A5]]]].
  destruct (flat_okb_sound h' top true Fh') as [B1 [B2 [B3 [B4 B5]]]].
  destruct Hn as [bn [pn [Hbn Hkn]]].
  destruct (orig_keptb_sound h h' Hkept n bn pn Hbn Hkn) as [bn' [pn' [Hbn' Hkn']]].
  apply (proj1 (flatten_ctrace h top strict A1 A2 A3 A4 A5 n e ds (ex_intro _ bn (ex_intro _ pn (conj Hbn Hkn))))) in W.
  assert (HnG : exists b, efind (RL h) n = Some b /\ e_kind b = EPlain 100).
  { exists (rl h bn). split; [rewrite (efind_RL' h n A1), Hbn; unfold is_region; rewrite Hkn; reflexivity|]. unfold rl. cbn. rewrite Hkn. reflexivity. }
  assert (W2 : CTrace (ehier top G') (resolve_flat (ehier top G')) strict n e' ds).
  { eapply (insert_block_one_keeps_ctrace (RL h) top new t P cls G' strict Hib).
    - split; assumption.
    - exact Hpjt.
    - repeat split; assumption.
    - intros Hi. apply A2. apply ekeys_RL. exact Hi.
    - exact Ht.
    - intros x b t0 Hb Ht0. destruct (efind (RL h) t0) as [bt|] eqn:Et; [eapply efind_keys; eauto|].
      exfalso. exact (RL_closed h A1 A4 x b t0 Hb Ht0 Et).
    - exact HnG.
    - exact He.
    - exact W. }
  assert (W3 : CTrace (ehier top (RL h')) (resolve_flat (ehier top (RL h'))) strict n e' ds).
  { assert (HnG' : exists b, efind (RL h') n = Some b /\ e_kind b = EPlain 100).
    { exists (rl h' bn'). split; [rewrite (efind_RL' h' n B1), Hbn'; unfold is_region; rewrite Hkn'; reflexivity|].
      unfold rl. cbn. rewrite Hkn'. reflexivity. }
    apply (proj2 (ehier_congr_c (RL h') G' top strict Hlk (fun Hi => B2 (ekeys_RL h' top Hi)) (RL_closed h' B1 B4) n e' ds HnG')).
    exact W2. }
  exact (proj2 (flatten_ctrace h' top strict B1 B2 B3 B4 B5 n e' ds (ex_intro _ bn' (ex_intro _ pn' (conj Hbn' Hkn')))) W3).
Qed.

(* the block a predecessor is left through: a region's exiting block, recursively *)
Fixpoint exit_leaf (h : hier) (fuel : nat) (p : name) : name :=
  match fuel with
  | 0%nat => p
  | Datatypes.S f =>
    match find h p with
    | Some n => match n_kind n with KRegion _ _ ex _ _ _ => exit_leaf h f ex | _ => p end
    | None => p
    end
  end.

Definition rl_ins_okb (h ha : hier) (top new t : name) (P : list name) (cls : Z) : bool :=
  flat_okb h top true && flat_okb ha top true &&
  match insert_block (RL h) new P [t] cls with
  | Ok G' => lookups_eqb (RL ha) G'
  | _ => false
  end &&
  nodupb P && negb (zmem new P) &&
  forallb (fun p => match efind (RL h) p with
                    | Some b => nodupb (e_jt b) && negb (zmem new (e_jt b)) &&
                                match e_kind b with EBranch _ _ tb => nodupb (map fst tb) | _ => true end
                    | None => true end) P &&
  is_none (efind (RL h) new) && negb (Z.eqb new top) && negb (Z.eqb cls 100) && zmem t (ekeys (RL h)) &&
  orig_keptb h ha.

Theorem rl_insertion_keeps_walks_b h ha top new t P cls strict :
  rl_ins_okb h ha top new t P cls = true ->
  forall n e e' ds tr st,
    (exists b p, find h n = Some b /\ n_kind b = KOrig p) -> E Fn e e' ->
    WTrace h (resolve_flat h) strict n e ds tr st -> WTrace ha (resolve_flat ha) strict n e' ds tr st.
Proof.
  unfold rl_ins_okb. intros H.
  apply andb_true_iff in H as [H Bk]. apply andb_true_iff in H as [H Bt]. apply andb_true_iff in H as [H Bc].
  apply andb_true_iff in H as [H Bn]. apply andb_true_iff in H as [H Bf]. apply andb_true_iff in H as [H Bp].
  apply andb_true_iff in H as [H Bnp]. apply andb_true_iff in H as [H Bnd]. apply andb_true_iff in H as [H Bi].
  apply andb_true_iff in H as [Fh Fha].
  destruct (insert_block (RL h) new P [t] cls) as [G'| |] eqn:Hib; try discriminate.
  apply (rl_insertion_keeps_walks h ha top new t P cls G' strict Fh Fha Hib (lookups_eqb_sound _ _ Bi)).
  - apply nodupb_sound. exact Bnd.
  - apply negb_true_iff in Bnp. apply zmem_false in Bnp. exact Bnp.
  - intros p b Hp Hb. rewrite forallb_forall in Bp. specialize (Bp p Hp). rewrite Hb in Bp.
    apply andb_true_iff in Bp as [X X3]. apply andb_true_iff in X as [X1 X2].
    split; [apply nodupb_sound; exact X1|]. split; [apply negb_true_iff in X2; apply zmem_false in X2; exact X2|].
    intros c w tb Ek. rewrite Ek in X3. apply nodupb_sound. exact X3.
  - destruct (efind (RL h) new); [discriminate|reflexivity].
  - apply negb_true_iff in Bn. apply Z.eqb_neq in Bn. exact Bn.
  - apply negb_true_iff in Bc. apply Z.eqb_neq in Bc. exact Bc.
  - apply zmem_In. exact Bt.
  - exact Bk.
Qed.

Theorem rl_insertion_keeps_ctrace_b h ha top new t P cls strict :
  rl_ins_okb h ha top new t P cls = true ->
  forall n e e' ds,
    (exists b p, find h n = Some b /\ n_kind b = KOrig p) -> E Fn e e' ->
    CTrace h (resolve_flat h) strict n e ds -> CTrace ha (resolve_flat ha) strict n e' ds.
Proof.
  unfold rl_ins_okb. intros H.
  apply andb_true_iff in H as [H Bk]. apply andb_true_iff in H as [H Bt]. apply andb_true_iff in H as [H Bc].
  apply andb_true_iff in H as [H Bn]. apply andb_true_iff in H as [H Bf]. apply andb_true_iff in H as [H Bp].
  apply andb_true_iff in H as [H Bnp]. apply andb_true_iff in H as [H Bnd]. apply andb_true_iff in H as [H Bi].
  apply andb_true_iff in H as [Fh Fha].
  destruct (insert_block (RL h) new P [t] cls) as [G'| |] eqn:Hib; try discriminate.
  apply (rl_insertion_keeps_ctrace h ha top new t P cls G' strict Fh Fha Hib (lookups_eqb_sound _ _ Bi)).
  - apply nodupb_sound. exact Bnd.
  - apply negb_true_iff in Bnp. apply zmem_false in Bnp. exact Bnp.
  - intros p b Hp Hb. rewrite forallb_forall in Bp. specialize (Bp p Hp). rewrite Hb in Bp.
    apply andb_true_iff in Bp as [X X3]. apply andb_true_iff in X as [X1 X2].
    split; [apply nodupb_sound; exact X1|]. split; [apply negb_true_iff in X2; apply zmem_false in X2; exact X2|].
    intros c w tb Ek. rewrite Ek in X3. apply nodupb_sound. exact X3.
  - destruct (efind (RL h) new); [discriminate|reflexivity].
  - apply negb_true_iff in Bn. apply Z.eqb_neq in Bn. exact Bn.
  - apply negb_true_iff in Bc. apply Z.eqb_neq in Bc. exact Bc.
  - apply zmem_In. exact Bt.
  - exact Bk.
Qed.

(* the column for an insertion in front of one successor with a region among the predecessors: 7 when the
   implementation's hierarchy is the flat insertion on the leaf graphs *)
Definition ins_rl_col_of (h ha : hier) (new e0 : name) (preds : list name) (cls : Z) : Z :=
  if rl_ins_okb h ha TOP new (rho h e0) (map (exit_leaf h (S (length h))) preds) cls then 7 else 2.

Theorem ins_rl_col_sound h ha new e0 preds cls strict :
  ins_rl_col_of h ha new e0 preds cls = 7 ->
  forall n e e' ds tr st,
    (exists b p, find h n = Some b /\ n_kind b = KOrig p) -> E Fn e e' ->
    WTrace h (resolve_flat h) strict n e ds tr st -> WTrace ha (resolve_flat ha) strict n e' ds tr st.
Proof.
  unfold ins_rl_col_of.
  destruct (rl_ins_okb h ha TOP new (rho h e0) (map (exit_leaf h (S (length h))) preds) cls) eqn:E0; [|discriminate].
  intros _. exact (rl_insertion_keeps_walks_b h ha TOP new (rho h e0) _ cls strict E0).
Qed.

Theorem ins_rl_col_sound_c h ha new e0 preds cls strict :
  ins_rl_col_of h ha new e0 preds cls = 7 ->
  forall n e e' ds,
    (exists b p, find h n = Some b /\ n_kind b = KOrig p) -> E Fn e e' ->
    CTrace h (resolve_flat h) strict n e ds -> CTrace ha (resolve_flat ha) strict n e' ds.
Proof.
  unfold ins_rl_col_of.
  destruct (rl_ins_okb h ha TOP new (rho h e0) (map (exit_leaf h (S (length h))) preds) cls) eqn:E0; [|discriminate].
  intros _. exact (rl_insertion_keeps_ctrace_b h ha TOP new (rho h e0) _ cls strict E0).
Qed.

(* Graph.v — one level of an SCFG as the graph algorithms see it: an
   insertion-ordered dictionary from names to (jump targets, back edges), plus
   a verified reachability closure used by the reference definitions. *)
From Coq Require Import List ZArith Bool Lia Sorting.Sorted.
Import ListNotations.
From V Require Import Valid.Hier.
Local Open Scope Z_scope.

Record blk := mkBlk { b_jt : list name; b_be : list name }.
Definition graph := list (name * blk).

Definition keys (g : graph) : list name := map fst g.

Definition gfind (g : graph) (x : name) : option blk := zassoc x g.

(* BasicBlock.jump_targets: targets that are not declared back edges *)
Definition jts (b : blk) : list name := filter (fun t => negb (zmem t (b_be b))) (b_jt b).

Lemma gfind_In g x b : gfind g x = Some b -> In (x, b) g.
Proof. apply zassoc_In. Qed.

Lemma gfind_keys g x : In x (keys g) -> exists b, gfind g x = Some b.
Proof.
  unfold gfind, keys. induction g as [|[k b] r IH]; simpl; [intros []|].
  intros [<-|Hin]; [rewrite Z.eqb_refl; eauto|].
  destruct (Z.eqb x k); [eauto|auto].
Qed.

Lemma gfind_some_keys g x b : gfind g x = Some b -> In x (keys g).
Proof. intros H. apply gfind_In in H. unfold keys. apply in_map_iff. exists (x, b). auto. Qed.

(* ---------- sorted(set(...)) ---------- *)
Fixpoint zinsert (x : Z) (l : list Z) : list Z :=
  match l with
  | [] => [x]
  | y :: r => if Z.ltb x y then x :: l else if Z.eqb x y then l else y :: zinsert x r
  end.

Definition zsort (l : list Z) : list Z := fold_right zinsert [] l.

Lemma zinsert_In x l y : In y (zinsert x l) <-> y = x \/ In y l.
Proof.
  induction l as [|z r IH]; simpl; [intuition|].
  destruct (Z.ltb x z); simpl; [intuition|].
  destruct (Z.eqb x z) eqn:E; simpl.
  - apply Z.eqb_eq in E. subst. intuition.
  - rewrite IH. intuition.
Qed.

Lemma zsort_In l y : In y (zsort l) <-> In y l.
Proof.
  induction l as [|x r IH]; simpl; [intuition|]. rewrite zinsert_In, IH. intuition.
Qed.

Lemma zinsert_sorted x l : StronglySorted Z.lt l -> StronglySorted Z.lt (zinsert x l).
Proof.
  induction 1 as [|y r Hs IH Hall]; simpl; [repeat constructor|].
  destruct (Z.ltb x y) eqn:E1.
  - apply Z.ltb_lt in E1. constructor; [constructor; assumption|].
    constructor; [exact E1|]. rewrite Forall_forall in *. intros z Hz. specialize (Hall z Hz). lia.
  - destruct (Z.eqb x y) eqn:E2; [constructor; assumption|].
    apply Z.ltb_ge in E1. apply Z.eqb_neq in E2.
    constructor; [exact IH|]. rewrite Forall_forall in *. intros z Hz.
    apply zinsert_In in Hz as [->|Hz]; [lia|auto].
Qed.

Lemma zsort_sorted l : StronglySorted Z.lt (zsort l).
Proof. induction l; simpl; [constructor|apply zinsert_sorted; assumption]. Qed.

(* ---------- reachability closure ---------- *)
Section Closure.
Variable succ : name -> list name.

Inductive Reach : name -> name -> Prop :=
| R_refl x : Reach x x
| R_step x y z : Reach x y -> In z (succ y) -> Reach x z.

Definition zadd (x : Z) (l : list Z) : list Z := if zmem x l then l else l ++ [x].
Definition zunion (a b : list Z) : list Z := fold_left (fun acc x => zadd x acc) b a.

Lemma zadd_In x l y : In y (zadd x l) <-> y = x \/ In y l.
Proof.
  unfold zadd. destruct (zmem x l) eqn:E.
  - apply zmem_In in E. split; [auto|]. intros [->|H]; auto.
  - rewrite in_app_iff. simpl. intuition.
Qed.

Lemma zunion_In b : forall a y, In y (zunion a b) <-> In y a \/ In y b.
Proof.
  induction b as [|x r IH]; intros a y; simpl; [intuition|].
  unfold zunion in *. simpl. rewrite IH, zadd_In. intuition.
Qed.

Fixpoint grow (fuel : nat) (S : list name) : list name :=
  match fuel with
  | O => S
  | Datatypes.S f =>
    let S' := zunion S (flat_map succ S) in
    if Nat.eqb (length S') (length S) then S else grow f S'
  end.

Definition closedb (S : list name) : bool :=
  forallb (fun x => forallb (fun y => zmem y S) (succ x)) S.

Definition closure (fuel : nat) (start : list name) : option (list name) :=
  let S := grow fuel (zunion [] start) in
  if closedb S then Some S else None.

Lemma grow_incl fuel : forall S x, In x S -> In x (grow fuel S).
Proof.
  induction fuel as [|f IH]; intros S x Hx; simpl; [exact Hx|].
  destruct (Nat.eqb _ _); [exact Hx|]. apply IH. apply zunion_In. left; exact Hx.
Qed.

Lemma grow_sound fuel (P : name -> Prop) :
  (forall x y, P x -> In y (succ x) -> P y) ->
  forall S, (forall x, In x S -> P x) -> forall x, In x (grow fuel S) -> P x.
Proof.
  intros Hstep. induction fuel as [|f IH]; intros S HS x Hx; simpl in Hx; [auto|].
  destruct (Nat.eqb _ _); [auto|]. apply (IH (zunion S (flat_map succ S))); [|exact Hx].
  intros y Hy. apply zunion_In in Hy as [Hy|Hy]; [auto|].
  apply in_flat_map in Hy as [w [Hw Hy]]. eapply Hstep; eauto.
Qed.

Theorem closure_spec fuel start S :
  closure fuel start = Some S ->
  forall y, In y S <-> exists x, In x start /\ Reach x y.
Proof.
  unfold closure. destruct (closedb _) eqn:Hc; [|discriminate]. intros [= <-] y. split.
  - apply (grow_sound fuel (fun y => exists x, In x start /\ Reach x y)).
    + intros a b [x [Hx Hr]] Hb. exists x. split; [exact Hx|]. eapply R_step; eauto.
    + intros x Hx. apply zunion_In in Hx as [[]|Hx]. exists x. split; [exact Hx|apply R_refl].
  - intros [x [Hx Hr]].
    set (S := grow fuel (zunion [] start)) in *.
    assert (Hx' : In x S) by (apply grow_incl; apply zunion_In; right; exact Hx).
    induction Hr as [x|x y0 z Hr IH Hz]; [exact Hx'|].
    specialize (IH Hx Hx'). unfold closedb in Hc. rewrite forallb_forall in Hc.
    specialize (Hc _ IH). rewrite forallb_forall in Hc. apply zmem_In. apply Hc. exact Hz.
Qed.

End Closure.

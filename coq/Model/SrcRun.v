(* SrcRun.v — correspondence driver for the front-end model (Src.v): the skeleton of a
   function (token stream) is compiled by the model and the blocks are compared, in
   creation order, with the blocks the implementation built (unpruned).

   rows: 140                                  marker
         141 tokens..                         the function body: a statement list
              list  := k stmt*k
              stmt  := 1 a | 2 a | 3 a | 4 a | 5 a            act, pass, return, break, continue
                     | 6 c list list | 7 c list list          if, while
                     | 8 tgt itr list list                     for
         142 idx N (kind id)*N J jt*J          block of the implementation, dictionary order
              kind: 1 act 2 pass 3 return 4 break 5 continue 6 test
         143 idx N (kind id)*N J jt*J          block after the three pruning passes, dictionary order
         144 status entry                      0: pruned, entry = first key;  1: pruning raised IndexError
   answer: [decoded; blocks equal; for-loop header indices consistent; block indices distinct;
            pruned blocks and entry equal (or both fail)] *)
From Coq Require Import List ZArith Bool.
Import ListNotations.
From V Require Import Valid.Hier Valid.FlatRegion Model.Src Model.SrcPrune.
Local Open Scope Z_scope.

Fixpoint parse_stmt (fuel : nat) (l : list Z) : option (stmt * list Z) :=
  match fuel with
  | O => None
  | S f =>
    match l with
    | 1 :: a :: r => Some (SAct a, r)
    | 2 :: a :: r => Some (SPass a, r)
    | 3 :: a :: r => Some (SRet a, r)
    | 4 :: a :: r => Some (SBreak a, r)
    | 5 :: a :: r => Some (SContinue a, r)
    | 6 :: c :: r =>
      match parse_list f r with
      | Some (t, r1) => match parse_list f r1 with Some (e, r2) => Some (SIf c t e, r2) | None => None end
      | None => None end
    | 7 :: c :: r =>
      match parse_list f r with
      | Some (b, r1) => match parse_list f r1 with Some (o, r2) => Some (SWhile c b o, r2) | None => None end
      | None => None end
    | 8 :: tg :: it :: r =>
      match parse_list f r with
      | Some (b, r1) => match parse_list f r1 with Some (o, r2) => Some (SFor 0 tg it b o, r2) | None => None end
      | None => None end
    | _ => None
    end
  end
with parse_list (fuel : nat) (l : list Z) : option (stmts * list Z) :=
  match fuel with
  | O => None
  | S f =>
    match l with
    | k :: r => if Z.ltb k 0 then None else parse_n f (Z.to_nat k) r
    | [] => None
    end
  end
with parse_n (fuel : nat) (k : nat) (l : list Z) : option (stmts * list Z) :=
  match fuel with
  | O => None
  | S f =>
    match k with
    | O => Some (SNil, l)
    | S k' =>
      match parse_stmt f l with
      | Some (x, r) => match parse_n f k' r with Some (xs, r2) => Some (SCons x xs, r2) | None => None end
      | None => None
      end
    end
  end.

(* fill in the header index of every for-loop: the index allocation of the transformer
   is static (3 per if, 4 per loop, in statement order; nothing after a jump in a suite) *)
Fixpoint an_stmt (x : stmt) (n : Z) {struct x} : stmt * Z :=
  match x with
  | SIf c t e => let '(t', n1) := an_stmts t (n + 3) in let '(e', n2) := an_stmts e n1 in (SIf c t' e', n2)
  | SWhile c b o => let '(b', n1) := an_stmts b (n + 4) in let '(o', n2) := an_stmts o n1 in (SWhile c b' o', n2)
  | SFor _ tg it b o => let '(b', n1) := an_stmts b (n + 4) in let '(o', n2) := an_stmts o n1 in (SFor n tg it b' o', n2)
  | _ => (x, n)
  end
with an_stmts (l : stmts) (n : Z) {struct l} : stmts * Z :=
  match l with
  | SNil => (SNil, n)
  | SCons x r => let '(x', n1) := an_stmt x n in
                 if is_jump x then (SCons x' r, n1)
                 else let '(r', n2) := an_stmts r n1 in (SCons x' r', n2)
  end.

Definition instr_code (i : instr) : Z * Z :=
  match i with IAct a => (1, a) | IPass a => (2, a) | IRet a => (3, a) | IBrk a => (4, a)
             | ICnt a => (5, a) | ITest c => (6, c) end.

Definition decode_blk (r : list Z) : option (Z * list (Z * Z) * list Z) :=
  match r with
  | idx :: r0 =>
    match take_pairs r0 with
    | Some (ins, r1) => match take_list r1 with Some (jt, []) => Some (idx, ins, jt) | _ => None end
    | None => None end
  | [] => None
  end.

Definition pairs_eq (a b : list (Z * Z)) : bool :=
  list_eqb (map fst a) (map fst b) && list_eqb (map snd a) (map snd b).

Fixpoint blocks_eq (m : list blk) (e : list (list Z)) : bool :=
  match m, e with
  | [], [] => true
  | b :: m', r :: e' =>
    match decode_blk r with
    | Some (idx, ins, jt) =>
      Z.eqb (b_idx b) idx && pairs_eq (map instr_code (b_ins b)) ins && list_eqb (b_jt b) jt && blocks_eq m' e'
    | None => false
    end
  | _, _ => false
  end.

Definition rows_of (rows : list (list Z)) (tag : Z) : list (list Z) :=
  flat_map (fun r => match r with t :: rest => if Z.eqb t tag then [rest] else [] | [] => [] end) rows.

Definition program_of (rows : list (list Z)) : option stmts :=
  match rows_of rows 141 with
  | [toks] => match parse_list (S (S (length toks))) toks with
              | Some (p, []) => Some (fst (an_stmts p 1))
              | _ => None end
  | _ => None
  end.

Definition b2z (b : bool) : Z := if b then 1 else 0.

Definition run_src (rows : list (list Z)) : list Z :=
  match program_of rows with
  | None => [0; 0; 0; 0; 0]
  | Some p =>
    let G := build p in
    [1; b2z (blocks_eq G (rows_of rows 142)); b2z (fors_ok p); b2z (nodupb (map b_idx G));
     match rows_of rows 144, sprune G 0 with
     | [[0; e]], Some (G', e') => b2z (blocks_eq G' (rows_of rows 143) && Z.eqb e e')
     | [[1; _]], None => 1
     | _, _ => 0
     end]
  end.

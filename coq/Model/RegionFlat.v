(* RegionFlat.v — the two walk disciplines of property C01 agree.
   The region-by-region resolution (leave through exiting blocks, enter through
   headers that are children) can only be MORE restrictive than the flat one
   (global lookup, a region stands for its header): whenever it resolves an arc,
   the flat one resolves it to the same block — for every hierarchy, no
   hypothesis.  Hence, on a hierarchy where the region discipline resolves every
   arc of every block (a boolean, arcs_resolve), a walk in one discipline IS a
   walk in the other: every theorem about the flat walk transfers. *)
From Coq Require Import List ZArith Bool Lia.
Import ListNotations.
From V Require Import Valid.Hier Valid.Walk Valid.FlatRegion Model.Refine.
Local Open Scope Z_scope.

Lemma leave_same h : forall f isbe x t t', leave h f isbe x t = Some t' -> t' = t.
Proof.
  induction f as [|f IH]; intros isbe x t t' H; [discriminate|]. cbn [leave] in H.
  destruct (find h x) as [nx|]; [|discriminate].
  destruct (find h (n_parent nx)) as [p|]; [|discriminate].
  destruct (n_kind p) as [| | | |rk hd ex ch pd ok]; try discriminate.
  destruct (zmem t ch); [injection H as <-; reflexivity|].
  destruct (Z.eqb x ex && (isbe || zmem t (n_jt p))); [|discriminate].
  eapply IH; eauto.
Qed.

Lemma enter_region_flat h : forall f t c, enter_region h f t = Some c -> enter_flat h f t = Some c.
Proof.
  induction f as [|f IH]; intros t c H; [discriminate|]. cbn [enter_region enter_flat] in *.
  destruct (find h t) as [n|]; [|discriminate].
  destruct (n_kind n) as [| | | |rk hd ex ch pd ok]; try exact H.
  destruct (zmem hd ch); [|discriminate]. apply IH. exact H.
Qed.

(* an arc the region discipline resolves is resolved by the flat one to the same block *)
Theorem resolve_region_flat h cur t c : resolve_region h cur t = Some c -> resolve_flat h cur t = Some c.
Proof.
  unfold resolve_region, resolve_flat.
  destruct (leave h (S (length h)) _ cur t) as [t'|] eqn:El; [|discriminate].
  apply leave_same in El. subst t'. apply enter_region_flat.
Qed.

(* ---------- walks depend on the resolution only through the arcs of the blocks they visit ---------- *)
Section Congr.
Variable h : hier.
Variables r r' : name -> name -> option name.
Variable strict : bool.
Hypothesis Hagree : forall cur b t, find h cur = Some b -> is_region b = false -> In t (n_jt b) -> r cur t = r' cur t.

Lemma leaf_of_kind b : (forall rk hd ex ch pd ok, n_kind b <> KRegion rk hd ex ch pd ok) -> is_region b = false.
Proof. unfold is_region. destruct (n_kind b); try reflexivity. intros H. exfalso. eapply H; eauto. Qed.

Lemma SRun_congr c e o : SRun h r strict c e o -> SRun h r' strict c e o.
Proof.
  induction 1 as [cur e b p Hb Hk|cur e b c0 Hb Hk Hj|cur e b c0 t nx o Hb Hk Hj Hr _ IH
                 |cur e b a t nx o Hb Hk Hj Hr _ IH
                 |cur e b c0 v tbl z rs t nx o Hb Hk Hl Hz Hm Hs Hr _ IH
                 |cur e b c0 v tbl z rs t nx o Hb Hk Hl Hz Hm Hs Hrs Hr _ IH].
  - eapply SR_orig; eauto.
  - eapply SR_stop; eauto.
  - eapply SR_plain; eauto. rewrite <- (Hagree cur b t Hb); [exact Hr| |rewrite Hj; left; reflexivity].
    unfold is_region. rewrite Hk. reflexivity.
  - eapply SR_assign; eauto. rewrite <- (Hagree cur b t Hb); [exact Hr| |rewrite Hj; left; reflexivity].
    unfold is_region. rewrite Hk. reflexivity.
  - eapply SR_branch; eauto. rewrite <- (Hagree cur b t Hb); [exact Hr| |apply zmem_In; exact Hm].
    unfold is_region. rewrite Hk. reflexivity.
  - eapply SR_branch_strict; eauto. rewrite <- (Hagree cur b t Hb); [exact Hr| |apply zmem_In; exact Hm].
    unfold is_region. rewrite Hk. reflexivity.
Qed.
End Congr.

Section Both.
Variable h : hier.
Variables r r' : name -> name -> option name.
Variable strict : bool.
Hypothesis Hagree : forall cur b t, find h cur = Some b -> is_region b = false -> In t (n_jt b) -> r cur t = r' cur t.

Lemma Hagree_sym : forall cur b t, find h cur = Some b -> is_region b = false -> In t (n_jt b) -> r' cur t = r cur t.
Proof. intros. symmetry. eapply Hagree; eauto. Qed.

Lemma SRun_iff c e o : SRun h r strict c e o <-> SRun h r' strict c e o.
Proof. split; [apply SRun_congr; exact Hagree|apply SRun_congr; exact Hagree_sym]. Qed.

Lemma jt_leaf n l : jt_of h n = Some l -> exists b, find h n = Some b /\ l = n_jt b.
Proof. unfold jt_of. destruct (find h n) as [b|]; [intros [= <-]; eauto|discriminate]. Qed.

Lemma WTrace_congr : forall n e ds tr st,
  (exists b, find h n = Some b /\ is_region b = false) ->
  WTrace h r strict n e ds tr st -> WTrace h r' strict n e ds tr st.
Proof.
  intros n e ds tr st Hleaf W. induction W as [n e ds Hj|n e ds t c Hj Hr Hs|n e l Hj Hne Hno|n e d ds l Hj Hne Hno Hnth
                                               |n e d ds l t c m e' tr st Hj Hnth Hr Hs _ IH].
  - apply WT_halt0. exact Hj.
  - destruct Hleaf as [b [Hb Hl]]. destruct (jt_leaf _ _ Hj) as [b' [Hb' El]]. rewrite Hb in Hb'. injection Hb' as <-.
    eapply WT_halt1; [exact Hj| |apply SRun_iff; exact Hs].
    rewrite <- (Hagree n b t Hb Hl); [exact Hr|rewrite <- El; left; reflexivity].
  - destruct Hleaf as [b [Hb Hl]]. destruct (jt_leaf _ _ Hj) as [b' [Hb' El]]. rewrite Hb in Hb'. injection Hb' as <-.
    eapply WT_more; eauto. intros t c E Hr Hs. apply (Hno t c E).
    + rewrite (Hagree n b t Hb Hl); [exact Hr|rewrite <- El, E; left; reflexivity].
    + apply SRun_iff. exact Hs.
  - destruct Hleaf as [b [Hb Hl]]. destruct (jt_leaf _ _ Hj) as [b' [Hb' El]]. rewrite Hb in Hb'. injection Hb' as <-.
    eapply WT_bad; eauto. intros t c E Hr Hs. apply (Hno t c E).
    + rewrite (Hagree n b t Hb Hl); [exact Hr|rewrite <- El, E; left; reflexivity].
    + apply SRun_iff. exact Hs.
  - destruct Hleaf as [b [Hb Hl]]. destruct (jt_leaf _ _ Hj) as [b' [Hb' El]]. rewrite Hb in Hb'. injection Hb' as <-.
    eapply WT_step; [exact Hj|exact Hnth| |apply SRun_iff; exact Hs|].
    + rewrite <- (Hagree n b t Hb Hl); [exact Hr|rewrite <- El; eapply nth_error_In; exact Hnth].
    + apply IH. destruct (SRun_reached_orig h r strict c e m e' Hs) as [bm [p [Hbm Hk]]].
      exists bm. split; [exact Hbm|]. unfold is_region. rewrite Hk. reflexivity.
Qed.

Lemma CTrace_congr : forall n e ds,
  (exists b, find h n = Some b /\ is_region b = false) ->
  CTrace h r strict n e ds -> CTrace h r' strict n e ds.
Proof.
  intros n e ds Hleaf C. induction C as [n e|n e d ds l Hj Hnth|n e d ds l t c Hj Hnth Hr Hs|n e d ds l t c m e' Hj Hnth Hr Hs _ IH].
  - constructor.
  - eapply CT_bad; eauto.
  - destruct Hleaf as [b [Hb Hl]]. destruct (jt_leaf _ _ Hj) as [b' [Hb' El]]. rewrite Hb in Hb'. injection Hb' as <-.
    eapply CT_stop; [exact Hj|exact Hnth| |apply SRun_iff; exact Hs].
    rewrite <- (Hagree n b t Hb Hl); [exact Hr|rewrite <- El; eapply nth_error_In; exact Hnth].
  - destruct Hleaf as [b [Hb Hl]]. destruct (jt_leaf _ _ Hj) as [b' [Hb' El]]. rewrite Hb in Hb'. injection Hb' as <-.
    eapply CT_step; [exact Hj|exact Hnth| |apply SRun_iff; exact Hs|].
    + rewrite <- (Hagree n b t Hb Hl); [exact Hr|rewrite <- El; eapply nth_error_In; exact Hnth].
    + apply IH. destruct (SRun_reached_orig h r strict c e m e' Hs) as [bm [p [Hbm Hk]]].
      exists bm. split; [exact Hbm|]. unfold is_region. rewrite Hk. reflexivity.
Qed.
End Both.

(* ---------- the decidable condition and the transfer ---------- *)
Definition arcs_resolve (h : hier) : bool :=
  forallb (fun b => is_region b ||
                    forallb (fun t => match resolve_region h (n_name b) t with Some _ => true | None => false end) (n_jt b)) h.

Lemma arcs_resolve_agree h : arcs_resolve h = true ->
  forall cur b t, find h cur = Some b -> is_region b = false -> In t (n_jt b) ->
    resolve_region h cur t = resolve_flat h cur t.
Proof.
  unfold arcs_resolve. rewrite forallb_forall. intros H cur b t Hb Hl Ht.
  destruct (find_In _ _ _ Hb) as [Hin Hname]. specialize (H b Hin). rewrite Hl in H. cbn [orb] in H.
  rewrite forallb_forall in H. specialize (H t Ht). rewrite Hname in H.
  destruct (resolve_region h cur t) as [c|] eqn:E; [|discriminate].
  symmetry. apply resolve_region_flat. exact E.
Qed.

Theorem region_walk_is_flat_walk h strict : arcs_resolve h = true ->
  forall n e ds tr st,
    (exists b, find h n = Some b /\ is_region b = false) ->
    (WTrace h (resolve_region h) strict n e ds tr st <-> WTrace h (resolve_flat h) strict n e ds tr st).
Proof.
  intros Ha n e ds tr st Hleaf. split.
  - apply WTrace_congr; [apply arcs_resolve_agree; exact Ha|exact Hleaf].
  - apply WTrace_congr; [|exact Hleaf]. intros cur b t Hb Hl Ht. symmetry. apply (arcs_resolve_agree h Ha cur b t Hb Hl Ht).
Qed.

Theorem region_ctrace_is_flat_ctrace h strict : arcs_resolve h = true ->
  forall n e ds,
    (exists b, find h n = Some b /\ is_region b = false) ->
    (CTrace h (resolve_region h) strict n e ds <-> CTrace h (resolve_flat h) strict n e ds).
Proof.
  intros Ha n e ds Hleaf. split.
  - apply CTrace_congr; [apply arcs_resolve_agree; exact Ha|exact Hleaf].
  - apply CTrace_congr; [|exact Hleaf]. intros cur b t Hb Hl Ht. symmetry. apply (arcs_resolve_agree h Ha cur b t Hb Hl Ht).
Qed.

(* any statement "every flat walk of h is a flat walk of h'" is also true of the region walks, when both
   hierarchies resolve every arc region-wise *)
Theorem flat_preservation_transfers h h' strict (Rel : env -> env -> Prop) :
  arcs_resolve h = true -> arcs_resolve h' = true ->
  forall n,
    (exists b, find h n = Some b /\ is_region b = false) ->
    (exists b, find h' n = Some b /\ is_region b = false) ->
    (forall e e' ds tr st, Rel e e' ->
       WTrace h (resolve_flat h) strict n e ds tr st -> WTrace h' (resolve_flat h') strict n e' ds tr st) ->
    forall e e' ds tr st, Rel e e' ->
      WTrace h (resolve_region h) strict n e ds tr st -> WTrace h' (resolve_region h') strict n e' ds tr st.
Proof.
  intros Ha Ha' n Hl Hl' Hflat e e' ds tr st Hr W.
  apply (region_walk_is_flat_walk h' strict Ha' n e' ds tr st Hl').
  apply (Hflat e e' ds tr st Hr).
  apply (region_walk_is_flat_walk h strict Ha n e ds tr st Hl). exact W.
Qed.

(* CbPath.v — property C01 / C14 for header unification, universally:
   insert_block_and_control_blocks keeps every walk.  For EVERY flat graph of
   original and synthetic blocks whose targets exist, every choice of
   predecessors (not branching synthetic blocks), successors, fresh names and a
   fresh control variable: from every original block, under every decision list
   and every environment, the walk of the edited graph visits the same original
   blocks in the same order and ends the same way (Valid/Walk.v, flat walk).
   Built from the positional specification of the edit (Model/Edits3.v) and the
   generic refinement theorem (Model/Refine.v): a rerouted arc p -> s becomes the
   bridge p -> assignment block -> head -> s, which only touches the new
   control variable. *)
From Coq Require Import List ZArith Bool Lia.
Import ListNotations.
From V Require Import Valid.Hier Valid.Walk Valid.FlatRegion Model.Graph Model.Edits Model.Edits2 Model.Edits3
                      Model.JoinPath Model.Refine Model.TableSpec.
Local Open Scope Z_scope.

Lemma enter_flat_leaf h t n f : find h t = Some n -> is_region n = false -> enter_flat h (S f) t = Some t.
Proof.
  intros Hf Hr. cbn [enter_flat]. rewrite Hf. unfold is_region in Hr. destruct (n_kind n); try reflexivity. discriminate.
Qed.

Lemma kind_of_not_region b : match kind_of b with KRegion _ _ _ _ _ _ => False | _ => True end.
Proof. unfold kind_of. destruct (e_kind b) as [c| |]; [destruct (Z.eqb c 100)|..]; exact I. Qed.

Lemma replace_jt_kind b jt b' : replace_jt b jt = Some b' ->
  match e_kind b with
  | EBranch c v t => exists t', table_rewrite t (e_jt b) jt (e_jt b) 0%nat [] = Some t' /\ e_kind b' = EBranch c v t'
  | k => e_kind b' = k
  end.
Proof.
  unfold replace_jt. destruct (e_kind b) as [c|a|c v t] eqn:Ek; intros H.
  - injection H as <-. reflexivity.
  - injection H as <-. reflexivity.
  - destruct (table_rewrite t (e_jt b) jt (e_jt b) 0%nat []) as [t'|]; [|discriminate]. injection H as <-. eauto.
Qed.

Section CbPath.
Variables (g : egraph) (top new var : Z) (preds Ss names : list name) (cls : Z) (g' : egraph).
Variable strict : bool.   (* false: the reading of C01; true: the reading of C06 (a branching block reads its variable once per assignment) *)

Hypothesis Hpreds : NoDup preds /\ ~ In new preds.
Hypothesis Hnames : NoDup names /\
  forall a, In a names -> efind g a = None /\ a <> new /\ ~ In a preds /\ ~ In a Ss /\ a <> top.
Hypothesis Hpjt : forall p b, In p preds -> efind g p = Some b ->
  NoDup (e_jt b) /\ (forall a, In a names -> ~ In a (e_jt b)) /\ (forall c v t, e_kind b = EBranch c v t -> NoDup (map fst t)).
Hypothesis Htop : ~ In top (ekeys g) /\ top <> new.
Hypothesis Hnew : efind g new = None.
Hypothesis Hclosed : forall x b t, efind g x = Some b -> In t (e_jt b) -> In t (ekeys g).
Hypothesis HSs : forall s, In s Ss -> In s (ekeys g).
Hypothesis Hvar : forall x b, efind g x = Some b ->
  match e_kind b with
  | EAssign a => forall p, In p a -> fst p <> var
  | EBranch _ v _ => v <> var
  | EPlain _ => True
  end.
Hypothesis Hcb : insert_cb g new var preds Ss names cls = Ok g'.

Let h := ehier top g.
Let h' := ehier top g'.
Let r := resolve_flat h.
Let r' := resolve_flat h'.
Definition Fv (v : Z) : Prop := v = var.
Definition Oldb (x : name) : Prop := In x (ekeys g).

Lemma spec : exists tbl,
    efind g' new = Some (mkE Ss [] (EBranch cls var tbl)) /\
    (forall p, In p preds -> exists b b', efind g p = Some b /\ efind g' p = Some b' /\
       length (e_jt b) = length (e_jt b') /\ e_be b' = e_be b /\ replace_jt b (e_jt b') = Some b' /\ NoDup (e_jt b') /\
       forall k s t', nth_error (e_jt b) k = Some s -> nth_error (e_jt b') k = Some t' ->
         (~ In s Ss -> t' = s) /\
         (In s Ss -> In t' names /\
            exists i, efind g' t' = Some (mkE [new] [] (EAssign [(var, i)])) /\ zassoc i tbl = Some s)) /\
    (forall x, x <> new -> ~ In x preds -> ~ In x names -> efind g' x = efind g x).
Proof.
  destruct Hpreds as [A B]. destruct Hnames as [C D].
  destruct (insert_cb_reroutes g new var preds Ss names cls g' A B C) as [tbl [H1 [H2 [_ H4]]]].
  - intros a Ha. destruct (D a Ha) as [X1 [X2 [X3 [X4 _]]]]. auto.
  - intros p b Hp Hb. destruct (Hpjt p b Hp Hb) as [X1 [X2 _]]. auto.
  - exact Hcb.
  - exists tbl. auto.
Qed.

Lemma ne_top_old x : Oldb x -> x <> top.
Proof. intros Hx ->. apply (proj1 Htop). exact Hx. Qed.

Lemma old_not_name x : Oldb x -> ~ In x names.
Proof.
  intros Hx Hn. destruct (proj2 Hnames x Hn) as [Hnone _]. destruct (keys_efind g x Hx) as [b Hb]. congruence.
Qed.

Lemma old_not_new x : Oldb x -> x <> new.
Proof. intros Hx ->. destruct (keys_efind g new Hx) as [b Hb]. congruence. Qed.

Lemma find_h x b : efind g x = Some b -> find h x = Some (node_of top (x, b)).
Proof.
  intros Hb. unfold h. rewrite find_ehier by (apply ne_top_old; eapply efind_keys; eauto). rewrite Hb. reflexivity.
Qed.

Lemma find_h' x b' : x <> top -> efind g' x = Some b' -> find h' x = Some (node_of top (x, b')).
Proof. intros Hne Hb. unfold h'. rewrite find_ehier by exact Hne. rewrite Hb. reflexivity. Qed.

Lemma node_leaf x b : is_region (node_of top (x, b)) = false.
Proof.
  unfold is_region, node_of. cbn. pose proof (kind_of_not_region b). destruct (kind_of b); try reflexivity. contradiction.
Qed.

(* an old block is still a block of the edited graph *)
Lemma old_in_g' x : Oldb x -> exists b', efind g' x = Some b'.
Proof.
  intros Hx. destruct spec as [tbl [_ [Hp Ho]]]. destruct (in_dec Z.eq_dec x preds) as [Hin|Hnin].
  - destruct (Hp x Hin) as [b [b' [_ [H2 _]]]]. eauto.
  - rewrite (Ho x (old_not_new x Hx) Hnin (old_not_name x Hx)). apply keys_efind. exact Hx.
Qed.

Lemma resolve_old x t : Oldb t -> r x t = Some t.
Proof.
  intros Ht. destruct (keys_efind g t Ht) as [b Hb]. unfold r, resolve_flat.
  eapply enter_flat_leaf; [apply find_h; exact Hb|apply node_leaf].
Qed.

Lemma resolve_old' x t : Oldb t -> r' x t = Some t.
Proof.
  intros Ht. destruct (old_in_g' t Ht) as [b' Hb']. unfold r', resolve_flat.
  eapply enter_flat_leaf; [apply find_h'; [apply ne_top_old; exact Ht|exact Hb']|apply node_leaf].
Qed.

(* an arc that was not rerouted *)
Lemma edge_same x t : Oldb t -> Edge h' r r' strict Fv Oldb x t t.
Proof.
  intros Ht e e' He. exists t, t, 0%nat, e'. split; [apply resolve_old; exact Ht|]. split; [exact Ht|].
  split; [apply resolve_old'; exact Ht|]. split; [exact He|]. intros fuel. reflexivity.
Qed.

(* a rerouted arc: through its assignment block and the head *)
Lemma edge_bridge tbl x s a i :
  efind g' new = Some (mkE Ss [] (EBranch cls var tbl)) ->
  In s Ss -> In a names ->
  efind g' a = Some (mkE [new] [] (EAssign [(var, i)])) -> zassoc i tbl = Some s ->
  Edge h' r r' strict Fv Oldb x s a.
Proof.
  intros Hhead HsS Ha Hasg Htab e e' He.
  assert (Hs : Oldb s) by (apply HSs; exact HsS).
  destruct (proj2 Hnames a Ha) as [_ [_ [_ [_ Hat]]]].
  exists s, a, 2%nat, (if strict then eread var i [] new (eupd [(var, i)] e') else eupd [(var, i)] e').
  split; [apply resolve_old; exact Hs|]. split; [exact Hs|].
  assert (Hfa : find h' a = Some (node_of top (a, mkE [new] [] (EAssign [(var, i)])))) by (apply find_h'; assumption).
  assert (Hfn : find h' new = Some (node_of top (new, mkE Ss [] (EBranch cls var tbl)))).
  { apply find_h'; [intros E0; apply (proj2 Htop); symmetry; exact E0|exact Hhead]. }
  split; [unfold r', resolve_flat; eapply enter_flat_leaf; [exact Hfa|apply node_leaf]|].
  split.
  - intros v Hv. unfold Fv in Hv.
    assert (Hupd : elook v (eupd [(var, i)] e') = elook v e').
    { rewrite elook_eupd. cbn. destruct (Z.eqb v var) eqn:E0; [apply Z.eqb_eq in E0; contradiction|reflexivity]. }
    destruct strict.
    + rewrite elook_eread. destruct (Z.eqb v var) eqn:E0; [apply Z.eqb_eq in E0; contradiction|].
      rewrite Hupd. apply He. exact Hv.
    + rewrite Hupd. apply He. exact Hv.
  - intros fuel. cbn [Nat.add srun]. rewrite Hfa. cbn [node_of n_kind n_jt fst snd kind_of e_kind e_jt].
    assert (Hrn : r' a new = Some new) by (unfold r', resolve_flat; eapply enter_flat_leaf; [exact Hfn|apply node_leaf]).
    rewrite Hrn. cbn [srun]. rewrite Hfn. cbn [node_of n_kind n_jt fst snd kind_of e_kind e_jt].
    rewrite elook_eupd. cbn [map fst snd zassoc]. rewrite Z.eqb_refl. rewrite Htab.
    assert (zmem s Ss = true) as -> by (apply zmem_In; exact HsS).
    rewrite (resolve_old' new s Hs). destruct strict; reflexivity.
Qed.

Lemma nth_in_keys x b k t : efind g x = Some b -> nth_error (e_jt b) k = Some t -> Oldb t.
Proof. intros Hb Hn. eapply Hclosed; [exact Hb|eapply nth_error_In; exact Hn]. Qed.

(* every block of the old graph is compatible with what it became *)
Lemma hold : forall x, Oldb x -> exists b b', find h x = Some b /\ find h' x = Some b' /\
  Compat h' r r' strict Fv Oldb x b b'.
Proof.
  intros x Hx. destruct (keys_efind g x Hx) as [b Hb]. destruct spec as [tbl [Hhead [Hp Ho]]].
  destruct (in_dec Z.eq_dec x preds) as [Hin|Hnin].
  - (* a predecessor: same kind, successors position by position *)
    destruct (Hp x Hin) as [b0 [b' [H1 [H2 [Hlen [_ [Hrj [_ Hpos]]]]]]]]. rewrite Hb in H1. injection H1 as <-.
    destruct (Hpjt x b Hin Hb) as [Hndjt [Hnojt Hkeys]].
    pose proof (replace_jt_kind b _ b' Hrj) as Hkind.
    exists (node_of top (x, b)), (node_of top (x, b')).
    split; [apply find_h; exact Hb|]. split; [apply find_h'; [apply ne_top_old; exact Hx|exact H2]|].
    assert (Hedge : forall k t t', nth_error (e_jt b) k = Some t -> nth_error (e_jt b') k = Some t' ->
                                   Edge h' r r' strict Fv Oldb x t t').
    { intros k t t' Ht Ht'. destruct (Hpos k t t' Ht Ht') as [Q1 Q2].
      destruct (in_dec Z.eq_dec t Ss) as [HS|HS].
      - destruct (Q2 HS) as [Ha [i [Hasg Htab]]]. eapply edge_bridge; eauto.
      - rewrite (Q1 HS). apply edge_same. eapply nth_in_keys; eauto. }
    unfold Compat, node_of. cbn [n_kind n_jt fst snd]. unfold kind_of.
    pose proof (Hvar x b Hb) as Hv.
    destruct (e_kind b) as [c|a|c v t] eqn:Ek.
    + rewrite Hkind. destruct (Z.eqb c 100).
      * split; [exact Hlen|exact Hedge].
      * destruct (e_jt b) as [|t1 [|t2 r1]] eqn:Ej; destruct (e_jt b') as [|t1' [|t2' r2]] eqn:Ej'; try discriminate.
        -- left. auto.
        -- right. left. exists t1, t1'. split; [reflexivity|]. split; [reflexivity|]. apply (Hedge 0%nat); reflexivity.
        -- right. right. exists t1, t2, r1, t1', t2', r2. auto.
    + rewrite Hkind. split; [reflexivity|]. split; [intros p Hpa; unfold Fv; apply Hv; exact Hpa|].
      destruct (e_jt b) as [|t1 [|t2 r1]] eqn:Ej; destruct (e_jt b') as [|t1' [|t2' r2]] eqn:Ej'; try discriminate.
      * right. cbn. split; discriminate.
      * left. exists t1, t1'. split; [reflexivity|]. split; [reflexivity|]. apply (Hedge 0%nat); reflexivity.
      * right. cbn. split; discriminate.
    + (* a branching synthetic predecessor: its table follows the successors position by position *)
      destruct Hkind as [t' [Htr ->]].
      split; [reflexivity|]. split; [unfold Fv; exact Hv|]. intros z.
      assert (Hposr : forall k s0 t0, nth_error (e_jt b) k = Some s0 -> nth_error (e_jt b') k = Some t0 ->
                                      t0 = s0 \/ ~ In t0 (e_jt b)).
      { intros k s0 t0 Hs0 Ht0. destruct (Hpos k s0 t0 Hs0 Ht0) as [Q1 Q2].
        destruct (in_dec Z.eq_dec s0 Ss) as [HS|HS]; [right|left; apply Q1; exact HS].
        destruct (Q2 HS) as [Ha _]. apply Hnojt. exact Ha. }
      pose proof (table_rewrite_lookup t (e_jt b) (e_jt b') (Hkeys c v t eq_refl) (eq_sym Hlen) Hposr Hndjt t' Htr z) as Hz.
      unfold proceed. cbn [n_jt].
      destruct (zassoc z t) as [t0|] eqn:Hzt.
      * destruct Hz as [Hin0 Hout0]. destruct (zmem t0 (e_jt b)) eqn:Hm.
        -- apply zmem_In in Hm. apply In_nth_error in Hm as [k Hk].
           rewrite (Hin0 k Hk).
           destruct (nth_error (e_jt b') k) as [t0'|] eqn:Hk'.
           ++ assert (zmem t0' (e_jt b') = true) as -> by (apply zmem_In; eapply nth_error_In; eauto).
              eapply Hedge; eauto.
           ++ exfalso. apply nth_error_None in Hk'. assert (k < length (e_jt b))%nat. { apply nth_error_Some. intros Hc. pose proof (eq_trans (eq_sym Hc) Hk) as X. discriminate X. } lia.
        -- apply zmem_false in Hm. rewrite (Hout0 Hm). exact I.
      * rewrite Hz. exact I.
  - (* any other block is untouched *)
    assert (Hb' : efind g' x = Some b) by (rewrite (Ho x (old_not_new x Hx) Hnin (old_not_name x Hx)); exact Hb).
    exists (node_of top (x, b)), (node_of top (x, b)).
    split; [apply find_h; exact Hb|]. split; [apply find_h'; [apply ne_top_old; exact Hx|exact Hb']|].
    assert (Hedge : forall t, In t (e_jt b) -> Edge h' r r' strict Fv Oldb x t t).
    { intros t Ht. apply edge_same. eapply Hclosed; eauto. }
    unfold Compat, node_of. cbn [n_kind n_jt fst snd]. unfold kind_of.
    pose proof (Hvar x b Hb) as Hv.
    destruct (e_kind b) as [c|a|c v t] eqn:Ek.
    + destruct (Z.eqb c 100).
      * split; [reflexivity|]. intros d t t' Ht Ht'. rewrite Ht in Ht'. injection Ht' as <-.
        apply Hedge. eapply nth_error_In; eauto.
      * destruct (e_jt b) as [|t1 [|t2 r1]] eqn:Ej.
        -- left. auto.
        -- right. left. exists t1, t1. split; [reflexivity|]. split; [reflexivity|]. apply Hedge. left. reflexivity.
        -- right. right. exists t1, t2, r1, t1, t2, r1. auto.
    + split; [reflexivity|]. split; [intros p Hpa; unfold Fv; apply Hv; exact Hpa|].
      destruct (e_jt b) as [|t1 [|t2 r1]] eqn:Ej.
      * right. cbn. split; discriminate.
      * left. exists t1, t1. split; [reflexivity|]. split; [reflexivity|]. apply Hedge. left. reflexivity.
      * right. cbn. split; discriminate.
    + split; [reflexivity|]. split; [unfold Fv; exact Hv|]. intros z. unfold proceed. cbn [n_jt].
      destruct (zassoc z t) as [t0|]; [|exact I]. destruct (zmem t0 (e_jt b)) eqn:Hm; [|exact I].
      apply Hedge. apply zmem_In. exact Hm.
Qed.

Theorem insert_cb_keeps_walks : forall n e e' ds tr st,
  (exists b, efind g n = Some b /\ e_kind b = EPlain 100) ->
  E Fv e e' ->
  WTrace h r strict n e ds tr st -> WTrace h' r' strict n e' ds tr st.
Proof.
  intros n e e' ds tr st [b [Hb Hk]] He Hw.
  apply (walk_refines h h' r r' strict Fv Oldb hold n e ds tr st Hw e').
  - eapply efind_keys; eauto.
  - exists (node_of top (n, b)), 1. split; [apply find_h; exact Hb|]. unfold node_of, kind_of. cbn. rewrite Hk. reflexivity.
  - exact He.
Qed.

Theorem insert_cb_keeps_ctrace : forall n e e' ds,
  (exists b, efind g n = Some b /\ e_kind b = EPlain 100) ->
  E Fv e e' ->
  CTrace h r strict n e ds -> CTrace h' r' strict n e' ds.
Proof.
  intros n e e' ds [b [Hb Hk]] He Hw.
  apply (ctrace_refines h h' r r' strict Fv Oldb hold n e ds Hw e').
  - eapply efind_keys; eauto.
  - exists (node_of top (n, b)), 1. split; [apply find_h; exact Hb|]. unfold node_of, kind_of. cbn. rewrite Hk. reflexivity.
  - exact He.
Qed.
End CbPath.

(* BackRun.v — correspondence driver for the code generator model (Back.v) and the
   census of the generated tree computed in Coq.

   rows: the exported hierarchy (tags 1..6 of Hier.v), then
         150 name lastret N ids..      statements of original block `name`, by identity, in order
         152 status                    0 a tree was generated; 1 NotImplementedError 2 KeyError
                                       3 AssertionError 4 IndexError 5 AttributeError 9 anything else
         153 tokens..                  the generated function body
              list := k stmt*k
              stmt := 1 id | 2 id | 3 var val | 4 | 5 | 6 k | 7 k var
                    | 8 id list list | 9 var N vals.. list list | 10 k list
   answer: [decoded; same tree (or same kind of error); statements once each;
            control-variable assignments once each; tests once each as if-conditions;
            the tree, laid out as a graph, follows the input graph under every decision list] *)
From Coq Require Import List ZArith Bool.
Import ListNotations.
From V Require Import Valid.Hier Valid.FlatRegion Model.Graph Model.IterHier Model.Prune Model.Back Model.BackSem.
Local Open Scope Z_scope.

Fixpoint parse_ast (fuel : nat) (l : list Z) : option (ast * list Z) :=
  match fuel with
  | O => None
  | S f =>
    match l with
    | 1 :: id :: r => Some (AOrig id, r)
    | 2 :: id :: r => Some (ARetAssign id, r)
    | 3 :: v :: z :: r => Some (AAssign v z, r)
    | 4 :: r => Some (APass, r)
    | 5 :: r => Some (AReturn, r)
    | 6 :: k :: r => Some (ACont k, r)
    | 7 :: k :: v :: r => Some (ALatch k v, r)
    | 8 :: id :: r =>
      match parse_asts f r with
      | Some (t, r1) => match parse_asts f r1 with Some (e, r2) => Some (AIfTest id t e, r2) | None => None end
      | None => None end
    | 9 :: v :: r =>
      match take_list r with
      | Some (vals, r0) =>
        match parse_asts f r0 with
        | Some (t, r1) => match parse_asts f r1 with Some (e, r2) => Some (AIfIn v vals t e, r2) | None => None end
        | None => None end
      | None => None end
    | 10 :: k :: r =>
      match parse_asts f r with Some (b, r1) => Some (AWhile k b, r1) | None => None end
    | _ => None
    end
  end
with parse_asts (fuel : nat) (l : list Z) : option (list ast * list Z) :=
  match fuel with
  | O => None
  | S f =>
    match l with
    | k :: r => if Z.ltb k 0 then None else parse_n f (Z.to_nat k) r
    | [] => None
    end
  end
with parse_n (fuel : nat) (k : nat) (l : list Z) : option (list ast * list Z) :=
  match fuel with
  | O => None
  | S f =>
    match k with
    | O => Some ([], l)
    | S k' =>
      match parse_ast f l with
      | Some (x, r) => match parse_n f k' r with Some (xs, r2) => Some (x :: xs, r2) | None => None end
      | None => None
      end
    end
  end.

Fixpoint ast_eqb (fuel : nat) (a b : ast) : bool :=
  match fuel with
  | O => false
  | S f =>
    let fix all2 (x y : list ast) : bool :=
      match x, y with
      | [], [] => true
      | p :: x', q :: y' => ast_eqb f p q && all2 x' y'
      | _, _ => false
      end in
    match a, b with
    | AOrig i, AOrig j | ACont i, ACont j => Z.eqb i j
    | ARetAssign i, ARetAssign j => Z.eqb j (-1) || Z.eqb i j   (* a bare return's value has no identity *)
    | AAssign v z, AAssign v' z' | ALatch v z, ALatch v' z' => Z.eqb v v' && Z.eqb z z'
    | APass, APass | AReturn, AReturn => true
    | AIfTest i t e, AIfTest j t' e' => Z.eqb i j && all2 t t' && all2 e e'
    | AIfIn v vs t e, AIfIn v' vs' t' e' => Z.eqb v v' && list_eqb vs vs' && all2 t t' && all2 e e'
    | AWhile k b0, AWhile k' b1 => Z.eqb k k' && all2 b0 b1
    | _, _ => false
    end
  end.

Fixpoint asts_eqb (fuel : nat) (x y : list ast) : bool :=
  match x, y with
  | [], [] => true
  | p :: x', q :: y' => ast_eqb fuel p q && asts_eqb fuel x' y'
  | _, _ => false
  end.

Fixpoint split_back (rows : list (list Z)) : list (list Z) * list (list Z) :=
  match rows with
  | [] => ([], [])
  | row :: rest =>
    let '(hr, br) := split_back rest in
    match row with
    | t :: _ => if Z.leb 150 t && Z.leb t 153 then (hr, row :: br) else (row :: hr, br)
    | [] => (hr, br)
    end
  end.

Definition rows_tagged (rows : list (list Z)) (tag : Z) : list (list Z) :=
  flat_map (fun r => match r with t :: rest => if Z.eqb t tag then [rest] else [] | [] => [] end) rows.

Definition decode_info (rows : list (list Z)) : list (name * oinfo) :=
  flat_map (fun r => match r with
                     | nm :: lr :: r1 => match take_list r1 with
                                         | Some (ids, []) => [(nm, mkOI ids (Z.eqb lr 1))]
                                         | _ => [] end
                     | _ => [] end) (rows_tagged rows 150).

Definition cerr_code (e : cerr) : Z :=
  match e with CNotImpl => 1 | CKey => 2 | CAssert => 3 | CIndex => 4 | CAttr => 5 | CFuel => 8 end.

Definition b2z (b : bool) : Z := if b then 1 else 0.

(* what the hierarchy holds *)
Definition want_stmts (h : hier) (info : list (name * oinfo)) : list Z :=
  flat_map (fun n => match n_kind n, zassoc (n_name n) info with
                     | KOrig _, Some oi =>
                       match jump_targets n with
                       | [_; _] => removelast (oi_ids oi)
                       | _ => oi_ids oi end
                     | _, _ => [] end) h.
Definition want_tests (h : hier) (info : list (name * oinfo)) : list Z :=
  flat_map (fun n => match n_kind n, zassoc (n_name n) info with
                     | KOrig _, Some oi =>
                       match jump_targets n with
                       | [_; _] => match rev (oi_ids oi) with t :: _ => [t] | [] => [] end
                       | _ => [] end
                     | _, _ => [] end) h.
Definition pair_code (p : Z * Z) : Z := fst p * 1000003 + snd p.
Definition want_assigns (h : hier) : list Z :=
  flat_map (fun n => match n_kind n with KAssign a => map pair_code a | _ => [] end) h.

Definition run_back (rows : list (list Z)) : list Z :=
  let '(hr, br) := split_back rows in
  match decode hr with
  | None => [0; 0; 0; 0; 0; 0]
  | Some (g, h) =>
    match top_region h, rows_tagged br 152 with
    | Some top, [st] :: _ =>
      let info := decode_info br in
      let got := transform h info (n_name top) in
      match got with
      | CErr e => [1; b2z (Z.eqb st (cerr_code e)); 1; 1; 1; 1]
      | COk tree =>
        let fuel := S (S (length h + length (concat br))) in
        let same := match rows_tagged br 153 with
                    | [toks] => match parse_asts (S (length toks)) toks with
                                | Some (exp, []) => Z.eqb st 0 && asts_eqb fuel tree exp
                                | _ => false end
                    | _ => false end in
        [1; b2z same;
         b2z (census_check (want_stmts h info) (census_stmts fuel tree));
         b2z (census_check (want_assigns h) (map pair_code (census_assigns fuel tree)));
         b2z (census_check (want_tests h info) (census_tests fuel tree));
         b2z (back_check g info tree)]
      end
    | _, _ => [0; 0; 0; 0; 0; 0]
    end
  end.

(* JoinPath.v — property C01 for the first stage, universally: closing the graph
   (SCFG.join_returns, model Edits.join_returns, tied to the code by the
   order-exact correspondence of C14 and by the pipeline model) keeps every
   execution path.  For EVERY graph of original blocks with distinct names whose
   targets exist and which has a unique entry, the flat walk of the result passes
   through the original blocks exactly as the input does, under every decision
   list — no bound on the size of the graph. *)
From Coq Require Import List ZArith Bool Lia Permutation.
Import ListNotations.
From V Require Import Valid.Hier Valid.Walk Valid.FlatRegion Valid.Cons Valid.Wf Model.Graph Model.Edits.
Local Open Scope Z_scope.

Definition kind_of (b : eblk) : nkind :=
  match e_kind b with
  | EPlain c => if Z.eqb c 100 then KOrig 1 else KPlain c
  | EAssign a => KAssign a
  | EBranch c v t => KBranch c v t
  end.

Definition node_of (top : name) (p : name * eblk) : node :=
  mkNode (fst p) top (e_jt (snd p)) (e_be (snd p)) (kind_of (snd p)).

(* the hierarchy of a flat graph: the top region and its blocks *)
Definition ehier (top : name) (g : egraph) : hier :=
  mkNode top 0 [] [] (KRegion 1 0 0 (ekeys g) 0 true) :: map (node_of top) g.

Definition og (g : egraph) : ograph := map (fun p => mkO (fst p) 1 (e_jt (snd p))) g.

Record Input (g : egraph) (top fresh : name) : Prop := {
  in_nodup : NoDup (ekeys g);
  in_orig : forall x b, In (x, b) g -> e_kind b = EPlain 100 /\ e_be b = [];
  in_closed : forall x b t, In (x, b) g -> In t (e_jt b) -> In t (ekeys g);
  in_top : ~ In top (ekeys g) /\ top <> 0 /\ fresh <> top;
  in_fresh : ~ In fresh (ekeys g) }.

(* ---------- lookups ---------- *)
Lemma efind_In g x b : efind g x = Some b -> In (x, b) g.
Proof. unfold efind. apply zassoc_In. Qed.

Lemma In_efind g x b : NoDup (ekeys g) -> In (x, b) g -> efind g x = Some b.
Proof.
  unfold efind, ekeys. induction g as [|[k v] r IH]; intros Hnd Hin; [destruct Hin|].
  cbn in Hnd. inversion Hnd as [|? ? Hn Hnd']; subst. cbn.
  destruct Hin as [[= -> ->]|Hin]; [rewrite Z.eqb_refl; reflexivity|].
  destruct (Z.eqb x k) eqn:E.
  - apply Z.eqb_eq in E. subst. exfalso. apply Hn. apply in_map_iff. exists (k, b). auto.
  - apply IH; assumption.
Qed.

Lemma efind_keys g x b : efind g x = Some b -> In x (ekeys g).
Proof. intros H. apply efind_In in H. unfold ekeys. apply in_map_iff. exists (x, b). auto. Qed.

Lemma keys_efind g x : In x (ekeys g) -> exists b, efind g x = Some b.
Proof.
  unfold ekeys, efind. induction g as [|[k v] r IH]; intros H; [destruct H|]. cbn in *.
  destruct (Z.eqb x k) eqn:E; [eauto|]. destruct H as [H|H]; [subst; rewrite Z.eqb_refl in E; discriminate|auto].
Qed.

Lemma find_ehier_top top g : find (ehier top g) top = Some (mkNode top 0 [] [] (KRegion 1 0 0 (ekeys g) 0 true)).
Proof. cbn. rewrite Z.eqb_refl. reflexivity. Qed.

Lemma find_ehier top g x : x <> top -> find (ehier top g) x = option_map (fun b => node_of top (x, b)) (efind g x).
Proof.
  intros Hne. cbn [ehier find n_name]. destruct (Z.eqb top x) eqn:E; [apply Z.eqb_eq in E; congruence|].
  unfold efind. induction g as [|[k v] r IH]; [reflexivity|]. cbn.
  rewrite (Z.eqb_sym k x). destruct (Z.eqb x k) eqn:E2; [apply Z.eqb_eq in E2; subst; reflexivity|exact IH].
Qed.

Lemma ofind_og g x : ofind (og g) x = option_map (fun b => mkO x 1 (e_jt b)) (efind g x).
Proof.
  unfold og, efind. induction g as [|[k v] r IH]; [reflexivity|]. cbn.
  rewrite (Z.eqb_sym k x). destruct (Z.eqb x k) eqn:E; [apply Z.eqb_eq in E; subst; reflexivity|exact IH].
Qed.

(* ---------- what closing the graph does to a graph of original blocks ---------- *)
Lemma replace_jt_plain b jt c : e_kind b = EPlain c -> replace_jt b jt = Some (mkE jt (e_be b) (EPlain c)).
Proof. intros H. unfold replace_jt. rewrite H. reflexivity. Qed.

Definition AllPlain (g : egraph) : Prop := forall x b, efind g x = Some b -> exists c, e_kind b = EPlain c.

Lemma insert_preds_kinds new S : forall preds g g',
  insert_preds g new S preds = Ok g' ->
  forall x b', efind g' x = Some b' -> exists b, efind g x = Some b /\ (forall c, e_kind b = EPlain c -> e_kind b' = EPlain c).
Proof.
  induction preds as [|p rest IH]; intros g g' H x b' Hf.
  - cbn in H. injection H as <-. exists b'. auto.
  - cbn [insert_preds] in H. destruct (dpop g p) as [[b g1]|] eqn:Ep; [|discriminate].
    destruct (replace_jt b (retarget new S (e_jt b))) as [bn|] eqn:Er; [|discriminate].
    destruct (IH _ _ H x b' Hf) as [b1 [Hf1 Hk1]]. unfold efind in Hf1. rewrite zassoc_dset in Hf1.
    destruct (Z.eqb x p) eqn:E.
    + apply Z.eqb_eq in E. subst x. injection Hf1 as <-. exists b. split; [eapply dpop_value; eauto|].
      intros c Hc. apply Hk1. rewrite (replace_jt_plain b _ c Hc) in Er. injection Er as <-. reflexivity.
    + apply Z.eqb_neq in E. exists b1. split; [|exact Hk1].
      unfold efind. rewrite <- (zassoc_dpop g p b g1 x Ep E). exact Hf1.
Qed.

Lemma dpop_keys {A} (g : list (Z * A)) k v r : dpop g k = Some (v, r) -> Permutation (map fst g) (k :: map fst r).
Proof.
  revert r. induction g as [|[k' v'] g' IH]; intros r; cbn; [discriminate|].
  destruct (Z.eqb k k') eqn:E.
  - apply Z.eqb_eq in E. subst. intros [= <- <-]. reflexivity.
  - destruct (dpop g' k) as [[v0 r0]|]; [|discriminate]. intros [= <- <-]. cbn.
    rewrite (IH r0 eq_refl). apply perm_swap.
Qed.

Lemma dset_keys_new {A} (g : list (Z * A)) k v : ~ In k (map fst g) -> map fst (dset g k v) = map fst g ++ [k].
Proof.
  induction g as [|[k' v'] r IH]; intros Hn; [reflexivity|]. cbn in *.
  destruct (Z.eqb k k') eqn:E; [apply Z.eqb_eq in E; subst; exfalso; apply Hn; left; reflexivity|].
  cbn. rewrite IH; [reflexivity|]. intros H. apply Hn. right. exact H.
Qed.

Lemma insert_preds_keys new S : forall preds g g',
  NoDup (ekeys g) -> insert_preds g new S preds = Ok g' -> Permutation (ekeys g) (ekeys g').
Proof.
  induction preds as [|p rest IH]; intros g g' Hnd H.
  - cbn in H. injection H as <-. reflexivity.
  - cbn [insert_preds] in H. destruct (dpop g p) as [[b g1]|] eqn:Ep; [|discriminate].
    destruct (replace_jt b (retarget new S (e_jt b))) as [bn|]; [|discriminate].
    pose proof (dpop_keys g p b g1 Ep) as Hp. unfold ekeys in *.
    assert (Hn1 : NoDup (p :: map fst g1)) by (eapply Permutation_NoDup; eauto).
    inversion Hn1 as [|? ? Hni Hnd1]; subst.
    assert (Hk : map fst (dset g1 p bn) = map fst g1 ++ [p]) by (apply dset_keys_new; exact Hni).
    assert (Hnd2 : NoDup (map fst (dset g1 p bn))).
    { rewrite Hk. eapply Permutation_NoDup; [|exact Hn1]. apply Permutation_cons_append. }
    eapply Permutation_trans; [exact Hp|]. eapply Permutation_trans; [|apply (IH _ _ Hnd2 H)].
    assert (HH : Permutation (p :: map fst g1) (map fst (dset g1 p bn))).
    { rewrite (dset_keys_new g1 p bn Hni). apply Permutation_cons_append. }
    exact HH.
Qed.

Lemma NoDup_snoc {A} (l : list A) x : NoDup l -> ~ In x l -> NoDup (l ++ [x]).
Proof.
  intros H Hn. eapply Permutation_NoDup; [apply Permutation_cons_append|]. constructor; assumption.
Qed.

(* the result of closing a graph of original blocks *)
Record Closed (g g' : egraph) (fresh : name) : Prop := {
  cl_keys : forall x, In x (ekeys g') <-> In x (ekeys g) \/ (x = fresh /\ In fresh (ekeys g'));
  cl_nodup : NoDup (ekeys g');
  cl_orig : forall x b, efind g x = Some b ->
              exists b', efind g' x = Some b' /\ e_kind b' = EPlain 100 /\ e_be b' = [] /\
                         (e_jt b' = e_jt b \/ (e_jt b = [] /\ e_jt b' = [fresh] /\
                                               efind g' fresh = Some (mkE [] [] (EPlain 3))));
  cl_fresh : forall b, efind g' fresh = Some b -> b = mkE [] [] (EPlain 3);
  cl_targeted : In fresh (ekeys g') -> exists x b', In x (ekeys g) /\ efind g' x = Some b' /\ In fresh (e_jt b') }.

Lemma exits_of_spec g x : NoDup (ekeys g) ->
  (In x (exits_of g) <-> exists b, efind g x = Some b /\ ejts b = []).
Proof.
  intros Hnd. unfold exits_of. rewrite in_map_iff. split.
  - intros [[k b] [Hk Hin]]. cbn in Hk. subst k. apply filter_In in Hin as [Hin Hj]. cbn in Hj.
    exists b. split; [apply In_efind; assumption|]. destruct (ejts b); [reflexivity|discriminate].
  - intros [b [Hf Hj]]. exists (x, b). split; [reflexivity|]. apply filter_In. split; [apply efind_In; exact Hf|].
    cbn. rewrite Hj. reflexivity.
Qed.

Lemma ejts_nobe b : e_be b = [] -> ejts b = e_jt b.
Proof.
  intros H. unfold ejts. rewrite H. induction (e_jt b) as [|t r IH]; [reflexivity|].
  simpl. f_equal. exact IH.
Qed.

Theorem join_returns_closed g top fresh g' :
  Input g top fresh -> join_returns g fresh 3 = Ok g' -> Closed g g' fresh.
Proof.
  intros [Hnd Horig Hclosed Htop Hfresh] H.
  destruct (le_lt_dec (length (exits_of g)) 1) as [Hle|Hgt].
  - (* at most one exit: nothing happens *)
    rewrite (join_returns_noop g fresh 3 Hle) in H. injection H as <-. constructor.
    + intros x. split; [auto|]. intros [Hx|[-> Hx]]; exact Hx.
    + exact Hnd.
    + intros x b Hf. exists b. destruct (Horig x b (efind_In _ _ _ Hf)) as [Hk Hb]. auto.
    + intros b Hf. exfalso. apply Hfresh. eapply efind_keys; eauto.
    + intros Hin. contradiction.
  - destruct (join_returns_spec g fresh 3 g' Hnd Hfresh Hgt H) as [A [B C]].
    assert (Hperm : Permutation (ekeys g ++ [fresh]) (ekeys g')).
    { unfold join_returns in H. destruct (exits_of g) as [|a [|b r]] eqn:E; cbn in Hgt; try lia.
      unfold insert_block in H.
      assert (Hk0 : ekeys (dset g fresh (mkE [] [] (EPlain 3))) = ekeys g ++ [fresh]) by (apply dset_keys_new; exact Hfresh).
      rewrite <- Hk0. apply (insert_preds_keys fresh [] (a :: b :: r)); [|exact H].
      rewrite Hk0. apply NoDup_snoc; assumption. }
    constructor.
    + intros x. split.
      * intros Hx. apply (Permutation_in _ (Permutation_sym Hperm)) in Hx. apply in_app_or in Hx as [Hx|[<-|[]]]; [auto|].
        right. split; [reflexivity|]. eapply efind_keys; eauto.
      * intros [Hx|[-> Hx]]; [|exact Hx]. apply (Permutation_in _ Hperm). apply in_or_app. auto.
    + eapply Permutation_NoDup; [exact Hperm|]. apply NoDup_snoc; assumption.
    + intros x b Hf. destruct (Horig x b (efind_In _ _ _ Hf)) as [Hk Hb].
      assert (Hxf : x <> fresh) by (intros ->; apply Hfresh; eapply efind_keys; eauto).
      destruct (in_dec Z.eq_dec x (exits_of g)) as [Hex|Hnex].
      * destruct (C x Hex) as [b0 [b' [Hf0 [Hf' [Hj Hbe]]]]]. rewrite Hf in Hf0. injection Hf0 as <-.
        exists b'. split; [exact Hf'|].
        apply (exits_of_spec g x Hnd) in Hex as [b1 [Hf1 Hj1]]. rewrite Hf in Hf1. injection Hf1 as <-.
        rewrite (ejts_nobe b Hb) in Hj1.
        assert (Hkb : e_kind b' = EPlain 100).
        { unfold join_returns in H. destruct (exits_of g) as [|a0 [|b0 r0]]; cbn in Hgt; try lia.
          unfold insert_block in H.
          destruct (insert_preds_kinds fresh [] _ _ _ H x b' Hf') as [b2 [Hf2 Hk2]].
          unfold efind in Hf2. rewrite zassoc_dset in Hf2.
          destruct (Z.eqb x fresh) eqn:E; [apply Z.eqb_eq in E; contradiction|].
          fold (efind g x) in Hf2. rewrite Hf in Hf2. injection Hf2 as <-. apply Hk2. exact Hk. }
        split; [exact Hkb|]. split; [rewrite Hbe; exact Hb|]. right.
        split; [exact Hj1|]. split; [rewrite Hj, Hj1; reflexivity|exact A].
      * exists b. rewrite (B x Hnex Hxf). auto.
    + intros b Hf. rewrite A in Hf. injection Hf as <-. reflexivity.
    + intros _. destruct (exits_of g) as [|a r] eqn:E; [cbn in Hgt; lia|].
      destruct (C a (or_introl eq_refl)) as [b0 [b' [Hf0 [Hf' [Hj _]]]]].
      exists a, b'. split; [eapply efind_keys; eauto|]. split; [exact Hf'|]. rewrite Hj. apply in_or_app. right. left. reflexivity.
Qed.

(* ---------- the walk of the closed graph ---------- *)
Lemma filter_none {A} (P : A -> bool) (l : list A) : (forall y, In y l -> P y = false) -> filter P l = [].
Proof.
  induction l as [|a r IH]; intros H; [reflexivity|]. cbn. rewrite (H a (or_introl eq_refl)).
  apply IH. intros y Hy. apply H. right. exact Hy.
Qed.

Lemma filter_singleton {A} (P : A -> bool) (l : list A) x :
  NoDup l -> In x l -> P x = true -> (forall y, In y l -> P y = true -> y = x) -> filter P l = [x].
Proof.
  induction l as [|a r IH]; intros Hnd Hin Hx Hu; [destruct Hin|].
  inversion Hnd as [|? ? Hn Hnd']; subst. cbn.
  destruct (P a) eqn:Pa.
  - assert (a = x) by (apply Hu; [left; reflexivity|exact Pa]). subst a. f_equal.
    apply filter_none. intros y Hy. destruct (P y) eqn:Py; [|reflexivity].
    exfalso. apply Hn. rewrite <- (Hu y (or_intror Hy) Py). exact Hy.
  - destruct Hin as [->|Hin]; [congruence|]. apply IH; auto.
    intros y Hy Py. apply Hu; [right; exact Hy|exact Py].
Qed.

Section WalkClosed.
Variables (g g' : egraph) (top fresh en : name).
Hypothesis Hin : Input g top fresh.
Hypothesis Hcl : Closed g g' fresh.
Hypothesis Hen : oentry (og g) = Some en.

Let h := ehier top g'.
Let rs := resolve_flat h.

Lemma names_h : names h = top :: ekeys g'.
Proof. unfold h, ehier, names, ekeys. cbn. f_equal. rewrite map_map. reflexivity. Qed.

Lemma top_not_in_g' : ~ In top (ekeys g').
Proof.
  destruct Hin as [_ _ _ [Ht [_ Hft]] _]. intros H. apply (cl_keys _ _ _ Hcl) in H as [H|[H _]]; [contradiction|congruence].
Qed.

Lemma ne_top x : In x (ekeys g') -> x <> top.
Proof. intros H ->. exact (top_not_in_g' H). Qed.

(* a block of the input is, in the result, an original block with the same successors,
   or - if it was an exit and the graph was closed - with the new common exit as only successor *)
Lemma node_of_orig x b : efind g x = Some b ->
  exists jt, find h x = Some (mkNode x top jt [] (KOrig 1)) /\
             (jt = e_jt b \/ (e_jt b = [] /\ jt = [fresh] /\
                               find h fresh = Some (mkNode fresh top [] [] (KPlain 3)))).
Proof.
  intros Hf. destruct (cl_orig _ _ _ Hcl x b Hf) as [b' [Hf' [Hk [Hb Hj]]]].
  assert (Hx : x <> top) by (apply ne_top; eapply efind_keys; eauto).
  exists (e_jt b'). split.
  - unfold h. rewrite (find_ehier top g' x Hx), Hf'. cbn. unfold node_of, kind_of. cbn. rewrite Hk, Hb. reflexivity.
  - destruct Hj as [Hj|[Hj0 [Hj1 Hff]]]; [left; exact Hj|right].
    split; [exact Hj0|]. split; [exact Hj1|].
    assert (Hft : fresh <> top) by (destruct Hin as [_ _ _ [_ [_ Hft]] _]; exact Hft).
    unfold h. rewrite (find_ehier top g' fresh Hft), Hff. reflexivity.
Qed.

Lemma enter_orig x b : efind g x = Some b -> forall f, enter_flat h (S f) x = Some x.
Proof.
  intros Hf f. destruct (node_of_orig x b Hf) as [jt [Hfh _]]. cbn [enter_flat]. rewrite Hfh. reflexivity.
Qed.

Lemma srun_orig x b e : efind g x = Some b -> SRun h rs false x e (Reached x e).
Proof.
  intros Hf. destruct (node_of_orig x b Hf) as [jt [Hfh _]]. eapply SR_orig; [exact Hfh|reflexivity].
Qed.

Lemma closed_target x b t : efind g x = Some b -> In t (e_jt b) -> exists bt, efind g t = Some bt.
Proof.
  intros Hf Ht. destruct Hin as [_ _ Hc _ _]. apply keys_efind. eapply Hc; [apply efind_In; exact Hf|exact Ht].
Qed.

Lemma walk_all : forall ds x b e, efind g x = Some b ->
  WTrace h rs false x e ds (fst (otrace (og g) x ds)) (snd (otrace (og g) x ds)).
Proof.
  induction ds as [|d ds IH]; intros x b e Hf;
    destruct (node_of_orig x b Hf) as [jt [Hfh Hjt]];
    assert (Hj : jt_of h x = Some jt) by (unfold jt_of; rewrite Hfh; reflexivity);
    cbn [otrace]; rewrite ofind_og, Hf; cbn [option_map o_succ].
  - destruct (e_jt b) as [|s0 l0] eqn:Es.
    + cbn [fst snd]. destruct Hjt as [->|[_ [-> Hff]]].
      * eapply WT_halt0; exact Hj.
      * eapply WT_halt1; [exact Hj| |].
        -- unfold rs, resolve_flat. cbn [enter_flat]. rewrite Hff. reflexivity.
        -- eapply SR_stop; [exact Hff|reflexivity|reflexivity].
    + cbn [fst snd]. destruct Hjt as [->|[Habs _]]; [|discriminate].
      eapply WT_more; [exact Hj|discriminate|].
      intros t c Ht Hr Hstop. injection Ht as -> ->.
      destruct (closed_target x b t Hf) as [bt Hbt]; [rewrite Es; left; reflexivity|].
      unfold rs, resolve_flat in Hr. rewrite (enter_orig t bt Hbt) in Hr. injection Hr as <-.
      pose proof (SRun_det h rs false t e _ (srun_orig t bt e Hbt) _ Hstop). discriminate.
  - destruct (e_jt b) as [|s0 l0] eqn:Es.
    + cbn [fst snd]. destruct Hjt as [->|[_ [-> Hff]]].
      * eapply WT_halt0; exact Hj.
      * eapply WT_halt1; [exact Hj| |].
        -- unfold rs, resolve_flat. cbn [enter_flat]. rewrite Hff. reflexivity.
        -- eapply SR_stop; [exact Hff|reflexivity|reflexivity].
    + destruct Hjt as [->|[Habs _]]; [|discriminate].
      destruct (nth_error (s0 :: l0) d) as [t|] eqn:En.
      * destruct (closed_target x b t Hf) as [bt Hbt]; [rewrite Es; eapply nth_error_In; eauto|].
        cbn [fst snd]. eapply WT_step; [exact Hj|exact En| | |].
        -- unfold rs, resolve_flat. apply (enter_orig t bt Hbt).
        -- apply (srun_orig t bt e Hbt).
        -- apply (IH t bt e Hbt).
      * cbn [fst snd]. eapply WT_bad; [exact Hj|discriminate| |exact En].
        intros t c Ht Hr Hstop. injection Ht as -> ->.
        destruct (closed_target x b t Hf) as [bt Hbt]; [rewrite Es; left; reflexivity|].
        unfold rs, resolve_flat in Hr. rewrite (enter_orig t bt Hbt) in Hr. injection Hr as <-.
        pose proof (SRun_det h rs false t e _ (srun_orig t bt e Hbt) _ Hstop). discriminate.
Qed.


Lemma en_in_g : exists b, efind g en = Some b /\
  (forall c bc, efind g c = Some bc -> ~ In en (e_jt bc)) /\
  (forall y by_, efind g y = Some by_ -> y <> en -> exists c bc, efind g c = Some bc /\ In y (e_jt bc)).
Proof.
  destruct Hin as [Hnd _ _ _ _].
  unfold oentry in Hen.
  destruct (filter (fun b => negb (existsb (fun c => zmem (o_name b) (o_succ c)) (og g))) (og g)) as [|b0 [|b1 r]] eqn:Ef;
    try discriminate.
  injection Hen as Hname.
  assert (Hb0 : In b0 (filter (fun b => negb (existsb (fun c => zmem (o_name b) (o_succ c)) (og g))) (og g)))
    by (rewrite Ef; left; reflexivity).
  apply filter_In in Hb0 as [Hb0in Hb0p].
  unfold og in Hb0in. apply in_map_iff in Hb0in as [[k v] [Hkv Hkin]]. subst b0. cbn in Hname. subst k.
  exists v. split; [apply In_efind; assumption|]. split.
  - intros c bc Hc Hin'. apply negb_true_iff in Hb0p. cbn [o_name fst] in Hb0p.
    assert (Hex : existsb (fun c0 => zmem en (o_succ c0)) (og g) = true).
    { apply existsb_exists. exists (mkO c 1 (e_jt bc)). split.
      - unfold og. apply in_map_iff. exists (c, bc). split; [reflexivity|apply efind_In; exact Hc].
      - apply zmem_In. exact Hin'. }
    congruence.
  - intros y by_ Hy Hne.
    assert (Hyin : In (mkO y 1 (e_jt by_)) (og g)).
    { unfold og. apply in_map_iff. exists (y, by_). split; [reflexivity|apply efind_In; exact Hy]. }
    destruct (existsb (fun c => zmem y (o_succ c)) (og g)) eqn:Ex.
    + apply existsb_exists in Ex as [oc [Hoc Hz]]. unfold og in Hoc. apply in_map_iff in Hoc as [[c bc] [<- Hcin]].
      cbn in Hz. apply zmem_In in Hz. exists c, bc. split; [apply In_efind; assumption|exact Hz].
    + exfalso. assert (Hyf : In (mkO y 1 (e_jt by_))
                 (filter (fun b => negb (existsb (fun c => zmem (o_name b) (o_succ c)) (og g))) (og g))).
      { apply filter_In. split; [exact Hyin|]. cbn [o_name]. rewrite Ex. reflexivity. }
      rewrite Ef in Hyf. destruct Hyf as [Heq|[]]. injection Heq as Heq _. congruence.
Qed.

Lemma nodup_names_h : NoDup (names h).
Proof. rewrite names_h. constructor; [apply top_not_in_g'|apply (cl_nodup _ _ _ Hcl)]. Qed.

Lemma top_region_h : top_region h = Some (mkNode top 0 [] [] (KRegion 1 0 0 (ekeys g') 0 true)).
Proof.
  unfold top_region, h, ehier. cbn [filter n_parent]. rewrite Z.eqb_refl.
  assert (Hf : filter (fun n => Z.eqb (n_parent n) 0) (map (node_of top) g') = []).
  { apply filter_none. intros y Hy. apply in_map_iff in Hy as [p [<- _]]. cbn.
    destruct Hin as [_ _ _ [_ [Ht0 _]] _]. apply Z.eqb_neq. exact Ht0. }
  rewrite Hf. reflexivity.
Qed.

Lemma jump_targets_nobe n : n_be n = [] -> jump_targets n = n_jt n.
Proof.
  intros H. unfold jump_targets. rewrite H. induction (n_jt n) as [|t r IH]; [reflexivity|]. simpl. f_equal. exact IH.
Qed.

Lemma find_h_g' c : In c (ekeys g') -> exists b', efind g' c = Some b' /\ find h c = Some (node_of top (c, b')).
Proof.
  intros Hc. destruct (keys_efind g' c Hc) as [b' Hb']. exists b'. split; [exact Hb'|].
  unfold h. rewrite (find_ehier top g' c (ne_top c Hc)), Hb'. reflexivity.
Qed.

Lemma graph_head_h : graph_head h (ekeys g') = Some en.
Proof.
  destruct en_in_g as [ben [Hfen [Hnot Hall]]].
  unfold graph_head.
  set (P := fun x => negb (existsb (fun c => match find h c with
                                             | Some n => zmem x (jump_targets n)
                                             | None => false end) (ekeys g'))).
  assert (Hs : filter P (ekeys g') = [en]).
  { apply filter_singleton.
    - apply (cl_nodup _ _ _ Hcl).
    - apply (cl_keys _ _ _ Hcl). left. eapply efind_keys; eauto.
    - (* en is not targeted *)
      unfold P. apply negb_true_iff. apply not_true_is_false. intros Hex.
      apply existsb_exists in Hex as [c [Hc Hz]].
      destruct (find_h_g' c Hc) as [b' [Hb' Hfc]]. rewrite Hfc in Hz.
      apply (cl_keys _ _ _ Hcl) in Hc as [Hc|[-> Hc]].
      + destruct (keys_efind g c Hc) as [bc Hbc].
        destruct (cl_orig _ _ _ Hcl c bc Hbc) as [b2 [Hf2 [_ [Hbe Hj]]]]. rewrite Hb' in Hf2. injection Hf2 as <-.
        rewrite jump_targets_nobe in Hz by (cbn; exact Hbe). cbn in Hz. apply zmem_In in Hz.
        destruct Hj as [Hj|[_ [Hj _]]]; rewrite Hj in Hz.
        * exact (Hnot c bc Hbc Hz).
        * destruct Hz as [Hz|[]]. destruct Hin as [_ _ _ _ Hfr]. apply Hfr. rewrite Hz. eapply efind_keys; eauto.
      + rewrite (cl_fresh _ _ _ Hcl b' Hb') in Hz. cbn in Hz. discriminate.
    - (* everything else is targeted *)
      intros y Hy Py. destruct (Z.eq_dec y en) as [->|Hne]; [reflexivity|]. exfalso.
      unfold P in Py. apply negb_true_iff in Py.
      assert (Hex : existsb (fun c => match find h c with
                                      | Some n => zmem y (jump_targets n)
                                      | None => false end) (ekeys g') = true); [|congruence].
      apply existsb_exists.
      apply (cl_keys _ _ _ Hcl) in Hy as [Hy|[-> Hy]].
      + destruct (keys_efind g y Hy) as [by_ Hby]. destruct (Hall y by_ Hby Hne) as [c [bc [Hbc Hyc]]].
        assert (Hc' : In c (ekeys g')) by (apply (cl_keys _ _ _ Hcl); left; eapply efind_keys; eauto).
        exists c. split; [exact Hc'|].
        destruct (cl_orig _ _ _ Hcl c bc Hbc) as [b2 [Hf2 [_ [Hbe Hj]]]].
        unfold h. rewrite (find_ehier top g' c (ne_top c Hc')), Hf2. cbn [option_map].
        rewrite jump_targets_nobe by (cbn; exact Hbe). cbn. apply zmem_In.
        destruct Hj as [Hj|[Hj0 _]]; [rewrite Hj; exact Hyc|rewrite Hj0 in Hyc; destruct Hyc].
      + destruct (cl_targeted _ _ _ Hcl Hy) as [x [b' [Hxg [Hfx Hfr]]]].
        assert (Hx' : In x (ekeys g')) by (apply (cl_keys _ _ _ Hcl); left; exact Hxg).
        exists x. split; [exact Hx'|].
        unfold h. rewrite (find_ehier top g' x (ne_top x Hx')), Hfx. cbn [option_map].
        destruct (keys_efind g x Hxg) as [bx Hbx].
        destruct (cl_orig _ _ _ Hcl x bx Hbx) as [b2 [Hf2 [_ [Hbe _]]]]. rewrite Hfx in Hf2. injection Hf2 as <-.
        rewrite jump_targets_nobe by (cbn; exact Hbe). cbn. apply zmem_In. exact Hfr. }
  fold P. rewrite Hs. reflexivity.
Qed.

Theorem closed_path_eq : PathEq false (og g) h.
Proof.
  destruct en_in_g as [ben [Hfen _]].
  split; [exact nodup_names_h|]. exists en. split; [exact Hen|]. split.
  - unfold start_of. rewrite top_region_h. cbn [n_kind]. rewrite graph_head_h.
    apply (enter_orig en ben Hfen).
  - intros ds. apply (walk_all ds en ben [] Hfen).
Qed.

Lemma onames_og : onames (og g) = ekeys g.
Proof. unfold onames, og, ekeys. rewrite map_map. reflexivity. Qed.

(* C05 for the first stage: every input block is kept once, as an original block with the same
   successors in the same positions - an exit may gain the single edge to the common exit *)
Theorem closed_conserved : Conserved (og g) h.
Proof.
  constructor.
  - exact nodup_names_h.
  - rewrite onames_og. destruct Hin as [Hnd _ _ _ _]. exact Hnd.
  - intros ob Hob. unfold og in Hob. apply in_map_iff in Hob as [[x b] [<- Hxb]]. cbn [o_name o_payload o_succ fst snd].
    destruct Hin as [Hnd Horig Hclosed Htop Hfresh].
    assert (Hf : efind g x = Some b) by (apply In_efind; assumption).
    destruct (node_of_orig x b Hf) as [jt [Hfh Hjt]].
    exists (mkNode x top jt [] (KOrig 1)). split; [exact Hfh|]. split; [reflexivity|]. cbn [n_jt].
    unfold SuccOk. destruct Hjt as [->|[Hj0 [-> Hff]]].
    + split; [left; reflexivity|]. intros i t Hnth. split.
      * rewrite names_h. right. apply (cl_keys _ _ _ Hcl). left.
        eapply Hclosed; [exact Hxb|]. eapply nth_error_In; eauto.
      * left. exact Hnth.
    + rewrite Hj0. split; [right; split; [reflexivity|exists fresh; reflexivity]|].
      intros [|i] t Hnth; cbn in Hnth; [|destruct i; discriminate]. injection Hnth as <-. split.
      * rewrite names_h. right. pose proof (find_In _ _ _ Hff) as [Hinh _].
        unfold h, ehier in Hinh. destruct Hinh as [Heq|Hinh].
        -- exfalso. injection Heq as Heq _. destruct Htop as [_ [_ Hft]]. congruence.
        -- apply in_map_iff in Hinh as [[k v] [Hkv Hk]]. unfold node_of in Hkv. injection Hkv as <- _ _ _.
           unfold ekeys. apply in_map_iff. exists (k, v). auto.
      * right. split; [rewrite onames_og; exact Hfresh|]. intros s0 Hs0. discriminate Hs0.
  - intros n p Hn Hk. unfold h, ehier in Hn. destruct Hn as [<-|Hn]; [discriminate|].
    apply in_map_iff in Hn as [[x b'] [<- Hxb']]. unfold node_of in Hk. cbn in Hk |- *.
    rewrite onames_og.
    assert (Hx' : In x (ekeys g')) by (unfold ekeys; apply in_map_iff; exists (x, b'); auto).
    apply (cl_keys _ _ _ Hcl) in Hx' as [Hx'|[-> Hx']]; [exact Hx'|].
    exfalso. assert (Hfb : efind g' fresh = Some b') by (apply In_efind; [apply (cl_nodup _ _ _ Hcl)|exact Hxb']).
    rewrite (cl_fresh _ _ _ Hcl b' Hfb) in Hk. unfold kind_of in Hk. cbn in Hk. discriminate.
Qed.

(* C04 for the first stage: a flat hierarchy - every block a child of the top region, every target a sibling *)
Lemma node_in_h n : In n h -> n = mkNode top 0 [] [] (KRegion 1 0 0 (ekeys g') 0 true) \/
  exists x b', In (x, b') g' /\ n = node_of top (x, b').
Proof.
  unfold h, ehier. intros [<-|Hn]; [left; reflexivity|]. right.
  apply in_map_iff in Hn as [[x b'] [<- Hxb]]. exists x, b'. auto.
Qed.

Lemma target_in_g' x b' t : In (x, b') g' -> In t (e_jt b' ++ e_be b') -> In t (ekeys g').
Proof.
  intros Hxb Ht. destruct Hin as [Hnd Horig Hclosed Htop Hfresh].
  assert (Hfx : efind g' x = Some b') by (apply In_efind; [apply (cl_nodup _ _ _ Hcl)|exact Hxb]).
  assert (Hx' : In x (ekeys g')) by (eapply efind_keys; eauto).
  apply (cl_keys _ _ _ Hcl) in Hx' as [Hx|[-> Hx]].
  - destruct (keys_efind g x Hx) as [b Hb].
    destruct (cl_orig _ _ _ Hcl x b Hb) as [b2 [Hf2 [_ [Hbe Hj]]]]. rewrite Hfx in Hf2. injection Hf2 as <-.
    rewrite Hbe, app_nil_r in Ht. destruct Hj as [Hj|[_ [Hj Hff]]]; rewrite Hj in Ht.
    + apply (cl_keys _ _ _ Hcl). left. eapply Hclosed; [apply efind_In; exact Hb|exact Ht].
    + destruct Ht as [<-|[]]. eapply efind_keys; eauto.
  - rewrite (cl_fresh _ _ _ Hcl b' Hfx) in Ht. destruct Ht.
Qed.

Theorem closed_wf : WfHier h.
Proof.
  assert (Ht0 : top <> 0) by (destruct Hin as [_ _ _ [_ [H _]] _]; exact H).
  constructor.
  - exact nodup_names_h.
  - eexists. split; [exact top_region_h|reflexivity].
  - intros n Hn Hp. destruct (node_in_h n Hn) as [->|[x [b' [Hxb ->]]]]; [cbn in Hp; congruence|].
    cbn [n_parent node_of]. do 7 eexists. split; [unfold h; apply find_ehier_top|]. split; [reflexivity|].
    cbn. unfold ekeys. apply in_map_iff. exists (x, b'). auto.
  - intros p rk hd ex ch pd ok Hp Hk. destruct (node_in_h p Hp) as [->|[x [b' [Hxb ->]]]].
    + cbn in Hk. injection Hk as <- <- <- <- <- <-. split; [apply (cl_nodup _ _ _ Hcl)|].
      intros c Hc. destruct (find_h_g' c Hc) as [bc [_ Hfc]]. eexists. split; [exact Hfc|reflexivity].
    + exfalso. unfold node_of, kind_of in Hk. cbn in Hk. destruct (e_kind b') as [c|a|c v t]; [destruct (Z.eqb c 100)| |]; discriminate.
  - intros p rk hd ex ch pd ok Hp Hk Hpar. destruct (node_in_h p Hp) as [->|[x [b' [Hxb ->]]]]; [cbn in Hpar; congruence|].
    exfalso. unfold node_of, kind_of in Hk. cbn in Hk. destruct (e_kind b') as [c|a|c v t]; [destruct (Z.eqb c 100)| |]; discriminate.
  - intros n t Hn Hp Ht. destruct (node_in_h n Hn) as [->|[x [b' [Hxb ->]]]]; [cbn in Hp; congruence|].
    cbn [n_name node_of n_jt n_be fst snd] in *.
    assert (Hx' : In x (ekeys g')) by (unfold ekeys; apply in_map_iff; exists (x, b'); auto).
    destruct (find_h_g' x Hx') as [b2 [Hf2 Hfx]].
    eapply Vis_sib; [exact Hfx|cbn [n_parent node_of]; unfold h; apply find_ehier_top|reflexivity|].
    eapply target_in_g'; eauto.
  - intros p rk hd ex ch pd ok Hp Hk Hpar. destruct (node_in_h p Hp) as [->|[x [b' [Hxb ->]]]]; [cbn in Hpar; congruence|].
    exfalso. unfold node_of, kind_of in Hk. cbn in Hk. destruct (e_kind b') as [c|a|c v t]; [destruct (Z.eqb c 100)| |]; discriminate.
  - intros p rk hd ex ch pd ok Hp Hk Hpar. destruct (node_in_h p Hp) as [->|[x [b' [Hxb ->]]]]; [cbn in Hpar; congruence|].
    exfalso. unfold node_of, kind_of in Hk. cbn in Hk. destruct (e_kind b') as [c|a|c v t]; [destruct (Z.eqb c 100)| |]; discriminate.
Qed.

(* C06 for the first stage: no branching on control variables at all; every decision list can be walked *)
Lemma srun_orig_strict x b e : efind g x = Some b -> SRun h rs true x e (Reached x e).
Proof.
  intros Hf. destruct (node_of_orig x b Hf) as [jt [Hfh _]]. eapply SR_orig; [exact Hfh|reflexivity].
Qed.

Lemma ctrace_all : forall ds x b e, efind g x = Some b -> CTrace h rs true x e ds.
Proof.
  induction ds as [|d ds IH]; intros x b e Hf; [constructor|].
  destruct (node_of_orig x b Hf) as [jt [Hfh Hjt]].
  assert (Hj : jt_of h x = Some jt) by (unfold jt_of; rewrite Hfh; reflexivity).
  destruct (nth_error jt d) as [t|] eqn:En; [|eapply CT_bad; eauto].
  destruct Hjt as [->|[_ [-> Hff]]].
  - destruct (closed_target x b t Hf) as [bt Hbt]; [eapply nth_error_In; eauto|].
    eapply CT_step; [exact Hj|exact En| | |].
    + unfold rs, resolve_flat. apply (enter_orig t bt Hbt).
    + apply (srun_orig_strict t bt e Hbt).
    + apply (IH t bt e Hbt).
  - destruct d as [|d]; [|destruct d; discriminate]. injection En as <-.
    eapply CT_stop; [exact Hj|reflexivity| |].
    + unfold rs, resolve_flat. cbn [enter_flat]. rewrite Hff. reflexivity.
    + eapply SR_stop; [exact Hff|reflexivity|reflexivity].
Qed.

Theorem closed_ctrl : CtrlSafe h.
Proof.
  destruct en_in_g as [ben [Hfen _]].
  split; [exact nodup_names_h|]. split.
  - intros n c v tbl Hn Hk. exfalso. destruct (node_in_h n Hn) as [->|[x [b' [Hxb ->]]]]; [discriminate|].
    assert (Hfx : efind g' x = Some b') by (apply In_efind; [apply (cl_nodup _ _ _ Hcl)|exact Hxb]).
    assert (Hx' : In x (ekeys g')) by (eapply efind_keys; eauto).
    unfold node_of, kind_of in Hk. cbn in Hk.
    apply (cl_keys _ _ _ Hcl) in Hx' as [Hx|[-> Hx]].
    + destruct (keys_efind g x Hx) as [b Hb]. destruct (cl_orig _ _ _ Hcl x b Hb) as [b2 [Hf2 [Hk2 _]]].
      rewrite Hfx in Hf2. injection Hf2 as <-. rewrite Hk2 in Hk. discriminate.
    + rewrite (cl_fresh _ _ _ Hcl b' Hfx) in Hk. discriminate.
  - exists en. split.
    + unfold start_of. rewrite top_region_h. cbn [n_kind]. rewrite graph_head_h. apply (enter_orig en ben Hfen).
    + intros ds. apply (ctrace_all ds en ben [] Hfen).
Qed.

End WalkClosed.

(* ---------- C01, first stage, for all graphs ---------- *)
Theorem join_returns_path_eq g top fresh en g' :
  Input g top fresh -> oentry (og g) = Some en -> join_returns g fresh 3 = Ok g' ->
  PathEq false (og g) (ehier top g').
Proof.
  intros Hi He Hj. apply (closed_path_eq g g' top fresh en Hi (join_returns_closed g top fresh g' Hi Hj) He).
Qed.

Theorem join_returns_conserved g top fresh en g' :
  Input g top fresh -> oentry (og g) = Some en -> join_returns g fresh 3 = Ok g' ->
  Conserved (og g) (ehier top g').
Proof.
  intros Hi He Hj. apply (closed_conserved g g' top fresh Hi (join_returns_closed g top fresh g' Hi Hj)).
Qed.

Theorem join_returns_wf g top fresh en g' :
  Input g top fresh -> oentry (og g) = Some en -> join_returns g fresh 3 = Ok g' -> WfHier (ehier top g').
Proof.
  intros Hi He Hj. apply (closed_wf g g' top fresh Hi (join_returns_closed g top fresh g' Hi Hj)).
Qed.

Theorem join_returns_ctrl g top fresh en g' :
  Input g top fresh -> oentry (og g) = Some en -> join_returns g fresh 3 = Ok g' -> CtrlSafe (ehier top g').
Proof.
  intros Hi He Hj. apply (closed_ctrl g g' top fresh en Hi (join_returns_closed g top fresh g' Hi Hj) He).
Qed.

(* Applic.v — the hypotheses of the universal path theorems for the two
   hierarchy-level edits as BOOLEANS (walk_pre_cbh, walk_pre_extract), proved to
   imply them.  The extracted checker evaluates them on every call of
   insert_block_and_control_blocks and extract_region the pipeline makes: so the
   check reports on how many real calls the universal theorems apply as stated
   (not only on the examples in Props). *)
From Coq Require Import List ZArith Bool Lia.
Import ListNotations.
From V Require Import Valid.Hier Valid.Walk Valid.FlatRegion Model.Graph Model.Edits Model.Extract
     Model.ExtractPath Model.CbHier Model.CbHierPath Model.Refine Model.Total2.
Local Open Scope Z_scope.

(* ---------- the nesting is a tree: depths along the parent pointers ---------- *)
Fixpoint climb (h : hier) (fuel : nat) (x : name) : option nat :=
  match fuel with
  | 0%nat => None
  | S f =>
    match find h x with
    | None => Some 0%nat
    | Some n => option_map S (climb h f (n_parent n))
    end
  end.

Lemma climb_S h f x : climb h (S f) x =
  match find h x with None => Some 0%nat | Some n => option_map S (climb h f (n_parent n)) end.
Proof. reflexivity. Qed.

Lemma climb_mono h : forall f x d, climb h f x = Some d -> climb h (S f) x = Some d.
Proof.
  induction f as [|f IH]; intros x d H; [discriminate|]. rewrite climb_S in H. rewrite climb_S.
  destruct (find h x) as [n|]; [|exact H].
  destruct (climb h f (n_parent n)) as [k|] eqn:E; [|discriminate].
  rewrite (IH _ _ E). exact H.
Qed.

Lemma climb_le h : forall f x d, climb h f x = Some d -> (d <= f)%nat.
Proof.
  induction f as [|f IH]; intros x d H; [discriminate|]. rewrite climb_S in H.
  destruct (find h x) as [n|]; [|injection H as <-; lia].
  destruct (climb h f (n_parent n)) as [k|] eqn:E; [|discriminate]. injection H as <-.
  specialize (IH _ _ E). lia.
Qed.

Definition depth_okb (h : hier) : bool :=
  forallb (fun n => match climb h (S (length h)) (n_name n) with Some _ => true | None => false end) h.

Definition depth (h : hier) (x : name) : nat :=
  match climb h (S (length h)) x with Some d => d | None => 0%nat end.

Lemma depth_step h x n : depth_okb h = true -> find h x = Some n ->
  depth h x = S (depth h (n_parent n)).
Proof.
  intros Hok Hx. unfold depth_okb in Hok. rewrite forallb_forall in Hok.
  destruct (find_In _ _ _ Hx) as [Hin Hname]. specialize (Hok n Hin). rewrite Hname in Hok.
  unfold depth. destruct (climb h (S (length h)) x) as [d|] eqn:E; [|discriminate].
  rewrite climb_S in E. rewrite Hx in E.
  destruct (climb h (length h) (n_parent n)) as [k|] eqn:Ek; [|discriminate]. injection E as <-.
  rewrite (climb_mono _ _ _ _ Ek). reflexivity.
Qed.

Lemma depth_rank h : depth_okb h = true ->
  exists rank : name -> nat, forall x n, find h x = Some n -> (rank (n_parent n) < rank x)%nat.
Proof.
  intros Hok. exists (depth h). intros x n Hx. rewrite (depth_step h x n Hok Hx). lia.
Qed.

(* ---------- header unification at any level ---------- *)
Definition leaf_okb (names : list name) (var : Z) (n : node) : bool :=
  is_region n ||
  (nodupb (n_jt n) && forallb (fun a => negb (zmem a (n_jt n))) names &&
   match n_kind n with
   | KBranch _ v tbl => nodupb (map fst tbl) && negb (Z.eqb v var)
   | KAssign a => forallb (fun p => negb (Z.eqb (fst p) var)) a
   | _ => true
   end).

Definition resolves (h : hier) (t : name) : bool :=
  match enter_flat h (S (length h)) t with Some _ => true | None => false end.

Definition walk_pre_cbh (h : hier) (lvl new : name) (var : Z) (preds Ss names : list name) : bool :=
  depth_okb h &&
  match find h lvl with Some nl => is_region nl | None => false end &&
  forallb (fun p => negb (Z.eqb p lvl) &&
                    match find h p with Some n0 => Z.eqb (n_parent n0) lvl | None => false end) preds &&
  nodupb names &&
  forallb (fun a => match find h a with None => true | Some _ => false end && negb (zmem a Ss) && negb (Z.eqb a new)) names &&
  match find h new with None => true | Some _ => false end &&
  forallb (leaf_okb names var) h &&
  forallb (fun n => is_region n || forallb (resolves h) (n_jt n)) h &&
  forallb (resolves h) Ss.

Lemma find_forallb h (f : node -> bool) : forallb f h = true -> forall x n, find h x = Some n -> f n = true.
Proof. rewrite forallb_forall. intros H x n Hx. apply H. apply (find_In _ _ _ Hx). Qed.

(* the universal theorem with boolean premises only *)
Theorem insert_cb_h_keeps_walks_b h lvl new var preds Ss names h' strict :
  insert_cb_h h lvl new var preds Ss names = XOk h' ->
  walk_pre_cbh h lvl new var preds Ss names = true ->
  forall n e e' ds tr st,
    (exists b p, find h n = Some b /\ n_kind b = KOrig p) ->
    E (Fc var) e e' ->
    WTrace h (resolve_flat h) strict n e ds tr st -> WTrace h' (resolve_flat h') strict n e' ds tr st.
Proof.
  intros Hcb Hpre. unfold walk_pre_cbh in Hpre.
  repeat (apply andb_true_iff in Hpre as [Hpre ?]).
  match goal with H : forallb (resolves h) Ss = true |- _ => rename H into HS end.
  match goal with H : forallb (fun n => is_region n || forallb (resolves h) (n_jt n)) h = true |- _ => rename H into HR end.
  match goal with H : forallb (leaf_okb names var) h = true |- _ => rename H into HL end.
  match goal with H : match find h new with None => true | Some _ => false end = true |- _ => rename H into Hnew end.
  match goal with H : nodupb names = true |- _ => rename H into Hnd end.
  match goal with H : match find h lvl with Some nl => is_region nl | None => false end = true |- _ => rename H into Hlvl end.
  match goal with H : forallb _ preds = true |- _ => rename H into Hpreds end.
  match goal with H : forallb _ names = true |- _ => rename H into Hnames end.
  apply (insert_cb_h_keeps_walks h lvl new var preds Ss names h' strict Hcb).
  - apply depth_rank. exact Hpre.
  - destruct (find h lvl) as [nl|]; [eauto|discriminate].
  - intros p Hp. rewrite forallb_forall in Hpreds. specialize (Hpreds p Hp).
    apply andb_true_iff in Hpreds as [H1 H2]. apply negb_true_iff in H1. apply Z.eqb_neq in H1. split; [exact H1|].
    destruct (find h p) as [n0|]; [|discriminate]. apply Z.eqb_eq in H2. eauto.
  - split; [apply nodupb_sound; exact Hnd|]. intros a Ha. rewrite forallb_forall in Hnames. specialize (Hnames a Ha).
    apply andb_true_iff in Hnames as [H12 H3]. apply andb_true_iff in H12 as [H1 H2].
    split; [destruct (find h a); [discriminate|reflexivity]|]. split.
    + apply negb_true_iff in H2. apply zmem_false in H2. exact H2.
    + apply negb_true_iff in H3. apply Z.eqb_neq in H3. exact H3.
  - destruct (find h new); [discriminate|reflexivity].
  - intros x n0 Hx Hl. pose proof (find_forallb h _ HL x n0 Hx) as H. unfold leaf_okb in H. rewrite Hl in H. cbn [orb] in H.
    apply andb_true_iff in H as [H12 H3]. apply andb_true_iff in H12 as [H1 H2].
    split; [apply nodupb_sound; exact H1|]. split.
    + intros a Ha. rewrite forallb_forall in H2. specialize (H2 a Ha). apply negb_true_iff in H2. apply zmem_false in H2. exact H2.
    + split.
      * intros c v tbl Ek. rewrite Ek in H3. apply andb_true_iff in H3 as [A B]. split; [apply nodupb_sound; exact A|].
        apply negb_true_iff in B. apply Z.eqb_neq in B. exact B.
      * intros a Ek p Hp. rewrite Ek in H3. rewrite forallb_forall in H3. specialize (H3 p Hp).
        apply negb_true_iff in H3. apply Z.eqb_neq in H3. exact H3.
  - intros x n0 t Hx Hl Ht. pose proof (find_forallb h _ HR x n0 Hx) as H. cbv beta in H. rewrite Hl in H. cbn [orb] in H.
    rewrite forallb_forall in H. specialize (H t Ht). unfold resolves in H.
    destruct (enter_flat h (S (length h)) t); [discriminate|discriminate].
  - intros s Hs. rewrite forallb_forall in HS. specialize (HS s Hs). unfold resolves in HS.
    destruct (enter_flat h (S (length h)) s); [discriminate|discriminate].
Qed.

Theorem insert_cb_h_keeps_ctrace_b h lvl new var preds Ss names h' strict :
  insert_cb_h h lvl new var preds Ss names = XOk h' ->
  walk_pre_cbh h lvl new var preds Ss names = true ->
  forall n e e' ds,
    (exists b p, find h n = Some b /\ n_kind b = KOrig p) ->
    E (Fc var) e e' ->
    CTrace h (resolve_flat h) strict n e ds -> CTrace h' (resolve_flat h') strict n e' ds.
Proof.
  intros Hcb Hpre. unfold walk_pre_cbh in Hpre.
  repeat (apply andb_true_iff in Hpre as [Hpre ?]).
  match goal with H : forallb (resolves h) Ss = true |- _ => rename H into HS end.
  match goal with H : forallb (fun n => is_region n || forallb (resolves h) (n_jt n)) h = true |- _ => rename H into HR end.
  match goal with H : forallb (leaf_okb names var) h = true |- _ => rename H into HL end.
  match goal with H : match find h new with None => true | Some _ => false end = true |- _ => rename H into Hnew end.
  match goal with H : nodupb names = true |- _ => rename H into Hnd end.
  match goal with H : match find h lvl with Some nl => is_region nl | None => false end = true |- _ => rename H into Hlvl end.
  match goal with H : forallb _ preds = true |- _ => rename H into Hpreds end.
  match goal with H : forallb _ names = true |- _ => rename H into Hnames end.
  apply (insert_cb_h_keeps_ctrace h lvl new var preds Ss names h' strict Hcb).
  - apply depth_rank. exact Hpre.
  - destruct (find h lvl) as [nl|]; [eauto|discriminate].
  - intros p Hp. rewrite forallb_forall in Hpreds. specialize (Hpreds p Hp).
    apply andb_true_iff in Hpreds as [H1 H2]. apply negb_true_iff in H1. apply Z.eqb_neq in H1. split; [exact H1|].
    destruct (find h p) as [n0|]; [|discriminate]. apply Z.eqb_eq in H2. eauto.
  - split; [apply nodupb_sound; exact Hnd|]. intros a Ha. rewrite forallb_forall in Hnames. specialize (Hnames a Ha).
    apply andb_true_iff in Hnames as [H12 H3]. apply andb_true_iff in H12 as [H1 H2].
    split; [destruct (find h a); [discriminate|reflexivity]|]. split.
    + apply negb_true_iff in H2. apply zmem_false in H2. exact H2.
    + apply negb_true_iff in H3. apply Z.eqb_neq in H3. exact H3.
  - destruct (find h new); [discriminate|reflexivity].
  - intros x n0 Hx Hl. pose proof (find_forallb h _ HL x n0 Hx) as H. unfold leaf_okb in H. rewrite Hl in H. cbn [orb] in H.
    apply andb_true_iff in H as [H12 H3]. apply andb_true_iff in H12 as [H1 H2].
    split; [apply nodupb_sound; exact H1|]. split.
    + intros a Ha. rewrite forallb_forall in H2. specialize (H2 a Ha). apply negb_true_iff in H2. apply zmem_false in H2. exact H2.
    + split.
      * intros c v tbl Ek. rewrite Ek in H3. apply andb_true_iff in H3 as [A B]. split; [apply nodupb_sound; exact A|].
        apply negb_true_iff in B. apply Z.eqb_neq in B. exact B.
      * intros a Ek p Hp. rewrite Ek in H3. rewrite forallb_forall in H3. specialize (H3 p Hp).
        apply negb_true_iff in H3. apply Z.eqb_neq in H3. exact H3.
  - intros x n0 t Hx Hl Ht. pose proof (find_forallb h _ HR x n0 Hx) as H. cbv beta in H. rewrite Hl in H. cbn [orb] in H.
    rewrite forallb_forall in H. specialize (H t Ht). unfold resolves in H.
    destruct (enter_flat h (S (length h)) t); [discriminate|discriminate].
  - intros s Hs. rewrite forallb_forall in HS. specialize (HS s Hs). unfold resolves in HS.
    destruct (enter_flat h (S (length h)) s); [discriminate|discriminate].
Qed.

(* ---------- region extraction ---------- *)
Definition good_b (hd rname : name) (n : node) : bool :=
  is_region n ||
  (nodupb (n_jt n) && (negb (zmem rname (n_jt n)) || negb (zmem hd (n_jt n))) &&
   match n_kind n with KBranch _ _ tbl => nodupb (map fst tbl) | _ => true end).

Definition header_below (h : hier) (n : node) : bool :=
  match n_kind n with
  | KRegion _ h0 _ _ _ _ =>
    match find h h0 with None => true | Some nh => Z.eqb (n_parent nh) (n_name n) end
  | _ => true
  end.

Definition walk_pre_extract (h : hier) (lvl hd rname : name) : bool :=
  negb (Z.eqb rname hd) &&
  match find h rname with None => true | Some _ => false end &&
  forallb (good_b hd rname) h &&
  match find h lvl with Some nl => is_region nl | None => false end &&
  depth_okb h && forallb (header_below h) h &&
  match find h hd with None => true | Some nh => Z.eqb (n_parent nh) lvl end &&
  forallb (fun n => is_region n || forallb (resolves h) (n_jt n)) h.

Lemma depth_le h x : (depth h x <= S (length h))%nat.
Proof. unfold depth. destruct (climb h (S (length h)) x) as [d|] eqn:E; [apply (climb_le _ _ _ _ E)|lia]. Qed.

Theorem extract_keeps_walks_b hd rname h lvl blocks entries ex rk h' strict :
  extract h lvl blocks entries hd ex rk rname = XOk h' ->
  walk_pre_extract h lvl hd rname = true ->
  forall n e e' ds tr st,
    (exists b p, find h n = Some b /\ n_kind b = KOrig p) ->
    E Fx e e' ->
    WTrace h (resolve_flat h) strict n e ds tr st -> WTrace h' (resolve_flat h') strict n e' ds tr st.
Proof.
  intros Hx Hpre. unfold walk_pre_extract in Hpre.
  repeat (apply andb_true_iff in Hpre as [Hpre ?]).
  match goal with H : forallb (fun n => is_region n || forallb (resolves h) (n_jt n)) h = true |- _ => rename H into HR end.
  match goal with H : match find h hd with None => true | Some nh => Z.eqb (n_parent nh) lvl end = true |- _ => rename H into Hhd end.
  match goal with H : forallb (header_below h) h = true |- _ => rename H into HB end.
  match goal with H : depth_okb h = true |- _ => rename H into Hok end.
  match goal with H : match find h lvl with Some nl => is_region nl | None => false end = true |- _ => rename H into Hlvl end.
  match goal with H : forallb (good_b hd rname) h = true |- _ => rename H into HG end.
  match goal with H : match find h rname with None => true | Some _ => false end = true |- _ => rename H into Hfr end.
  apply negb_true_iff in Hpre. apply Z.eqb_neq in Hpre.
  apply (extract_keeps_walks hd rname Hpre h lvl blocks entries ex rk h' strict Hx).
  - destruct (find h rname); [discriminate|reflexivity].
  - intros x n0 Hx0 Hl. pose proof (find_forallb h _ HG x n0 Hx0) as H. unfold good_b in H. rewrite Hl in H. cbn [orb] in H.
    apply andb_true_iff in H as [H12 H3]. apply andb_true_iff in H12 as [H1 H2].
    split; [apply nodupb_sound; exact H1|]. split.
    + apply orb_true_iff in H2 as [H2|H2]; apply negb_true_iff in H2; apply zmem_false in H2; [left|right]; exact H2.
    + intros c v tbl Ek. rewrite Ek in H3. apply nodupb_sound. exact H3.
  - destruct (find h lvl) as [nl|]; [eauto|discriminate].
  - (* rank: unfound names lowest, a found name the higher the closer to the top *)
    set (M := S (S (length h))).
    exists (fun x => match find h x with None => 0%nat | Some _ => (M - depth h x)%nat end). split.
    + intros x n0 rk0 h0 e0 c0 p0 o0 Hx0 Hk. rewrite Hx0.
      pose proof (depth_le h x) as Hdx.
      destruct (find h h0) as [nh|] eqn:Eh0; [|unfold M; lia].
      pose proof (find_forallb h _ HB x n0 Hx0) as H. unfold header_below in H. rewrite Hk, Eh0 in H.
      apply Z.eqb_eq in H. rewrite (depth_step h h0 nh Hok Eh0), H.
      rewrite (find_name _ _ _ Hx0). unfold M. lia.
    + destruct (find h lvl) as [nl|] eqn:El; [|discriminate].
      pose proof (depth_le h lvl) as Hdl.
      destruct (find h hd) as [nh|] eqn:Ehd; [|unfold M; lia].
      apply Z.eqb_eq in Hhd. rewrite (depth_step h hd nh Hok Ehd), Hhd. unfold M. lia.
  - intros x n0 t Hx0 Hl Ht. pose proof (find_forallb h _ HR x n0 Hx0) as H. cbv beta in H. rewrite Hl in H. cbn [orb] in H.
    rewrite forallb_forall in H. specialize (H t Ht). unfold resolves in H.
    destruct (enter_flat h (S (length h)) t); [discriminate|discriminate].
Qed.

Theorem extract_keeps_ctrace_b hd rname h lvl blocks entries ex rk h' strict :
  extract h lvl blocks entries hd ex rk rname = XOk h' ->
  walk_pre_extract h lvl hd rname = true ->
  forall n e e' ds,
    (exists b p, find h n = Some b /\ n_kind b = KOrig p) ->
    E Fx e e' ->
    CTrace h (resolve_flat h) strict n e ds -> CTrace h' (resolve_flat h') strict n e' ds.
Proof.
  intros Hx Hpre. unfold walk_pre_extract in Hpre.
  repeat (apply andb_true_iff in Hpre as [Hpre ?]).
  match goal with H : forallb (fun n => is_region n || forallb (resolves h) (n_jt n)) h = true |- _ => rename H into HR end.
  match goal with H : match find h hd with None => true | Some nh => Z.eqb (n_parent nh) lvl end = true |- _ => rename H into Hhd end.
  match goal with H : forallb (header_below h) h = true |- _ => rename H into HB end.
  match goal with H : depth_okb h = true |- _ => rename H into Hok end.
  match goal with H : match find h lvl with Some nl => is_region nl | None => false end = true |- _ => rename H into Hlvl end.
  match goal with H : forallb (good_b hd rname) h = true |- _ => rename H into HG end.
  match goal with H : match find h rname with None => true | Some _ => false end = true |- _ => rename H into Hfr end.
  apply negb_true_iff in Hpre. apply Z.eqb_neq in Hpre.
  apply (extract_keeps_ctrace hd rname Hpre h lvl blocks entries ex rk h' strict Hx).
  - destruct (find h rname); [discriminate|reflexivity].
  - intros x n0 Hx0 Hl. pose proof (find_forallb h _ HG x n0 Hx0) as H. unfold good_b in H. rewrite Hl in H. cbn [orb] in H.
    apply andb_true_iff in H as [H12 H3]. apply andb_true_iff in H12 as [H1 H2].
    split; [apply nodupb_sound; exact H1|]. split.
    + apply orb_true_iff in H2 as [H2|H2]; apply negb_true_iff in H2; apply zmem_false in H2; [left|right]; exact H2.
    + intros c v tbl Ek. rewrite Ek in H3. apply nodupb_sound. exact H3.
  - destruct (find h lvl) as [nl|]; [eauto|discriminate].
  - (* rank: unfound names lowest, a found name the higher the closer to the top *)
    set (M := S (S (length h))).
    exists (fun x => match find h x with None => 0%nat | Some _ => (M - depth h x)%nat end). split.
    + intros x n0 rk0 h0 e0 c0 p0 o0 Hx0 Hk. rewrite Hx0.
      pose proof (depth_le h x) as Hdx.
      destruct (find h h0) as [nh|] eqn:Eh0; [|unfold M; lia].
      pose proof (find_forallb h _ HB x n0 Hx0) as H. unfold header_below in H. rewrite Hk, Eh0 in H.
      apply Z.eqb_eq in H. rewrite (depth_step h h0 nh Hok Eh0), H.
      rewrite (find_name _ _ _ Hx0). unfold M. lia.
    + destruct (find h lvl) as [nl|] eqn:El; [|discriminate].
      pose proof (depth_le h lvl) as Hdl.
      destruct (find h hd) as [nh|] eqn:Ehd; [|unfold M; lia].
      apply Z.eqb_eq in Hhd. rewrite (depth_step h hd nh Hok Ehd), Hhd. unfold M. lia.
  - intros x n0 t Hx0 Hl Ht. pose proof (find_forallb h _ HR x n0 Hx0) as H. cbv beta in H. rewrite Hl in H. cbn [orb] in H.
    rewrite forallb_forall in H. specialize (H t Ht). unfold resolves in H.
    destruct (enter_flat h (S (length h)) t); [discriminate|discriminate].
Qed.

(* InsHierApplic.v — the hypotheses of InsHierPath.insert_block_h_keeps_walks as one boolean (walk_pre_ins),
   proved to imply them; evaluated by the extracted checker on every single-successor insertion the pipeline
   makes. *)
From Coq Require Import List ZArith Bool Lia.
Import ListNotations.
From V Require Import Valid.Hier Valid.Walk Valid.FlatRegion Model.Graph Model.Edits Model.Edits2 Model.Edits3
     Model.JoinPath Model.Refine Model.CbPath Model.ExtractPath Model.LoopEdit Model.LoopSpec Model.IbPath
     Model.Extract Model.CbHier Model.LoopHier Model.Flatten Model.LoopRename Model.InsRename Model.LoopHierPath
     Model.InsHierPath Model.Total2 Model.Applic Model.LoopHierApplic.
Local Open Scope Z_scope.

Definition kind_keptb (a b : ekind) : bool :=
  match a, b with
  | EBranch c v _, EBranch c' v' _ => Z.eqb c' c && Z.eqb v' v
  | EBranch _ _ _, _ => false
  | _, EBranch _ _ _ => false
  | k, k' => ekind_eqb k' k
  end.

Lemma kind_keptb_sound a b : kind_keptb a b = true ->
  match a, b with EBranch c v _, EBranch c' v' _ => c' = c /\ v' = v | k, k' => k' = k end.
Proof.
  destruct a, b; cbn; try discriminate; try (intros H; apply ekind_eqb_eq; exact H).
  intros H. apply andb_true_iff in H as [H1 H2]. apply Z.eqb_eq in H1, H2. auto.
Qed.

Definition walk_pre_ins (h : hier) (lvl top new e0 : name) (preds : list name) (cls : Z) : bool :=
  match find h lvl with
  | None => false
  | Some nl =>
    is_region nl &&
    match collect h (children_h nl) with
    | None => false
    | Some g1 =>
      match insert_block g1 new preds [e0] cls with
      | Ok g1' =>
        let h' := write_back h lvl g1' in
        let rh := rho h in
        let dl := e0 :: new :: flat_map (fun p => match efind g1 p with Some b => e_jt b ++ tbl_targets (e_kind b) | None => [] end) preds in
        flat_okb h top false && flat_okb h' top true &&
        nodupb (ekeys g1') && is_none (efind g1' lvl) &&
        forallb (fun p => negb (is_none (efind g1' p))) preds &&
        forallb (fun p => match efind g1 p, efind g1' p with
                          | Some b, Some b' => kind_keptb (e_kind b) (e_kind b')
                          | _, _ => true end) preds &&
        forallb (fun x => match efind g1' x with
                          | Some b => forallb (fun t => resolves h t || is_none (find h t)) (blk_targets b)
                          | None => true end) (new :: preds) &&
        is_none (find h new) &&
        forallb (fun p => match find h p with
                          | Some n => negb (is_region n) && zmem p (children_h nl)
                          | None => false end) preds &&
        nodupb preds &&
        forallb (fun a => forallb (fun b => negb (Z.eqb (rh a) (rh b)) || Z.eqb a b) dl) dl &&
        forallb (fun p => match efind (RL h) p with
                          | Some b => nodupb (e_jt b) && negb (zmem new (e_jt b)) &&
                                      match e_kind b with EBranch _ _ t => nodupb (map fst t) | _ => true end
                          | None => true end) preds &&
        negb (Z.eqb new top) && negb (Z.eqb cls 100) && zmem (rh e0) (ekeys (RL h))
      | _ => false
      end
    end
  end.

Theorem insert_block_h_keeps_walks_b h lvl top new e0 preds cls strict :
  walk_pre_ins h lvl top new e0 preds cls = true ->
  exists nl g1 g1',
    find h lvl = Some nl /\ collect h (children_h nl) = Some g1 /\
    insert_block g1 new preds [e0] cls = Ok g1' /\
    forall n e e' ds tr st,
      (exists b p, find h n = Some b /\ n_kind b = KOrig p) ->
      E Fn e e' ->
      WTrace h (resolve_flat h) strict n e ds tr st ->
      WTrace (write_back h lvl g1') (resolve_flat (write_back h lvl g1')) strict n e' ds tr st.
Proof.
  unfold walk_pre_ins. destruct (find h lvl) as [nl|] eqn:Hl; [|discriminate].
  intros H. apply andb_true_iff in H as [Hlr H].
  destruct (collect h (children_h nl)) as [g1|] eqn:HLG; [|discriminate].
  destruct (insert_block g1 new preds [e0] cls) as [g1'| |] eqn:Hins; try discriminate.
  exists nl, g1, g1'. split; [reflexivity|]. split; [exact HLG|]. split; [exact Hins|].
  cbv zeta in H.
  apply andb_true_iff in H as [H He0]. apply andb_true_iff in H as [H Hcls]. apply andb_true_iff in H as [H Hntop].
  apply andb_true_iff in H as [H HGp]. apply andb_true_iff in H as [H Hinjb]. apply andb_true_iff in H as [H Hndp].
  apply andb_true_iff in H as [H Hph]. apply andb_true_iff in H as [H Hfr]. apply andb_true_iff in H as [H Hrn].
  apply andb_true_iff in H as [H Hkd]. apply andb_true_iff in H as [H Hst]. apply andb_true_iff in H as [H Hlv].
  apply andb_true_iff in H as [H Hk']. apply andb_true_iff in H as [H Hf'].
  destruct (flat_okb_sound h top false H) as [F1 [F2 [F3 [F4 F5]]]].
  destruct (flat_okb_sound _ top true Hf') as [F1' [F2' [F3' [F4' F5']]]].
  apply (insert_block_h_keeps_walks h lvl top new e0 nl preds cls g1 g1' strict Hl Hlr HLG Hins F1 F2 F3 F4 F5 F1' F2' F3' F4' F5').
  - apply nodupb_sound. exact Hk'.
  - destruct (efind g1' lvl); [discriminate|reflexivity].
  - intros p Hp E. rewrite forallb_forall in Hst. specialize (Hst p Hp). rewrite E in Hst. discriminate.
  - intros p b b' Hp Hb Hb'. rewrite forallb_forall in Hkd. specialize (Hkd p Hp). rewrite Hb, Hb' in Hkd.
    generalize (kind_keptb_sound _ _ Hkd). destruct (e_kind b), (e_kind b'); cbn; auto.
  - intros x b t Hx Hb Ht. rewrite forallb_forall in Hrn.
    assert (Hi : In x (new :: preds)) by (destruct Hx as [Hx| ->]; [right; exact Hx|left; reflexivity]).
    specialize (Hrn x Hi). rewrite Hb in Hrn. rewrite forallb_forall in Hrn. specialize (Hrn t Ht).
    apply orb_true_iff in Hrn as [Hr|Hr].
    + left. unfold resolves in Hr. destruct (enter_flat h (S (length h)) t); [discriminate|discriminate].
    + right. destruct (find h t); [discriminate|reflexivity].
  - destruct (find h new); [discriminate|reflexivity].
  - intros p Hp. rewrite forallb_forall in Hph. specialize (Hph p Hp).
    destruct (find h p) as [n|]; [|discriminate]. apply andb_true_iff in Hph as [A B].
    exists n. split; [reflexivity|]. split; [apply negb_true_iff; exact A|exact B].
  - apply nodupb_sound. exact Hndp.
  - intros a b Ha Hb E. rewrite forallb_forall in Hinjb. specialize (Hinjb a Ha). rewrite forallb_forall in Hinjb. specialize (Hinjb b Hb).
    apply orb_true_iff in Hinjb as [Hn|Hn]; [apply negb_true_iff in Hn; apply Z.eqb_neq in Hn; contradiction|apply Z.eqb_eq; exact Hn].
  - intros p b Hp Hb. rewrite forallb_forall in HGp. specialize (HGp p Hp). rewrite Hb in HGp.
    apply andb_true_iff in HGp as [HGp C]. apply andb_true_iff in HGp as [A B].
    split; [apply nodupb_sound; exact A|]. split; [apply negb_true_iff in B; apply zmem_false in B; exact B|].
    intros c w t Ek. rewrite Ek in C. apply nodupb_sound. exact C.
  - apply negb_true_iff in Hntop, Hcls. apply Z.eqb_neq in Hntop, Hcls. auto.
  - apply zmem_In. exact He0.
Qed.

Theorem insert_block_h_keeps_ctrace_b h lvl top new e0 preds cls strict :
  walk_pre_ins h lvl top new e0 preds cls = true ->
  exists nl g1 g1',
    find h lvl = Some nl /\ collect h (children_h nl) = Some g1 /\
    insert_block g1 new preds [e0] cls = Ok g1' /\
    forall n e e' ds,
      (exists b p, find h n = Some b /\ n_kind b = KOrig p) ->
      E Fn e e' ->
      CTrace h (resolve_flat h) strict n e ds ->
      CTrace (write_back h lvl g1') (resolve_flat (write_back h lvl g1')) strict n e' ds.
Proof.
  unfold walk_pre_ins. destruct (find h lvl) as [nl|] eqn:Hl; [|discriminate].
  intros H. apply andb_true_iff in H as [Hlr H].
  destruct (collect h (children_h nl)) as [g1|] eqn:HLG; [|discriminate].
  destruct (insert_block g1 new preds [e0] cls) as [g1'| |] eqn:Hins; try discriminate.
  exists nl, g1, g1'. split; [reflexivity|]. split; [exact HLG|]. split; [exact Hins|].
  cbv zeta in H.
  apply andb_true_iff in H as [H He0]. apply andb_true_iff in H as [H Hcls]. apply andb_true_iff in H as [H Hntop].
  apply andb_true_iff in H as [H HGp]. apply andb_true_iff in H as [H Hinjb]. apply andb_true_iff in H as [H Hndp].
  apply andb_true_iff in H as [H Hph]. apply andb_true_iff in H as [H Hfr]. apply andb_true_iff in H as [H Hrn].
  apply andb_true_iff in H as [H Hkd]. apply andb_true_iff in H as [H Hst]. apply andb_true_iff in H as [H Hlv].
  apply andb_true_iff in H as [H Hk']. apply andb_true_iff in H as [H Hf'].
  destruct (flat_okb_sound h top false H) as [F1 [F2 [F3 [F4 F5]]]].
  destruct (flat_okb_sound _ top true Hf') as [F1' [F2' [F3' [F4' F5']]]].
  apply (insert_block_h_keeps_ctrace h lvl top new e0 nl preds cls g1 g1' strict Hl Hlr HLG Hins F1 F2 F3 F4 F5 F1' F2' F3' F4' F5').
  - apply nodupb_sound. exact Hk'.
  - destruct (efind g1' lvl); [discriminate|reflexivity].
  - intros p Hp E. rewrite forallb_forall in Hst. specialize (Hst p Hp). rewrite E in Hst. discriminate.
  - intros p b b' Hp Hb Hb'. rewrite forallb_forall in Hkd. specialize (Hkd p Hp). rewrite Hb, Hb' in Hkd.
    generalize (kind_keptb_sound _ _ Hkd). destruct (e_kind b), (e_kind b'); cbn; auto.
  - intros x b t Hx Hb Ht. rewrite forallb_forall in Hrn.
    assert (Hi : In x (new :: preds)) by (destruct Hx as [Hx| ->]; [right; exact Hx|left; reflexivity]).
    specialize (Hrn x Hi). rewrite Hb in Hrn. rewrite forallb_forall in Hrn. specialize (Hrn t Ht).
    apply orb_true_iff in Hrn as [Hr|Hr].
    + left. unfold resolves in Hr. destruct (enter_flat h (S (length h)) t); [discriminate|discriminate].
    + right. destruct (find h t); [discriminate|reflexivity].
  - destruct (find h new); [discriminate|reflexivity].
  - intros p Hp. rewrite forallb_forall in Hph. specialize (Hph p Hp).
    destruct (find h p) as [n|]; [|discriminate]. apply andb_true_iff in Hph as [A B].
    exists n. split; [reflexivity|]. split; [apply negb_true_iff; exact A|exact B].
  - apply nodupb_sound. exact Hndp.
  - intros a b Ha Hb E. rewrite forallb_forall in Hinjb. specialize (Hinjb a Ha). rewrite forallb_forall in Hinjb. specialize (Hinjb b Hb).
    apply orb_true_iff in Hinjb as [Hn|Hn]; [apply negb_true_iff in Hn; apply Z.eqb_neq in Hn; contradiction|apply Z.eqb_eq; exact Hn].
  - intros p b Hp Hb. rewrite forallb_forall in HGp. specialize (HGp p Hp). rewrite Hb in HGp.
    apply andb_true_iff in HGp as [HGp C]. apply andb_true_iff in HGp as [A B].
    split; [apply nodupb_sound; exact A|]. split; [apply negb_true_iff in B; apply zmem_false in B; exact B|].
    intros c w t Ek. rewrite Ek in C. apply nodupb_sound. exact C.
  - apply negb_true_iff in Hntop, Hcls. apply Z.eqb_neq in Hntop, Hcls. auto.
  - apply zmem_In. exact He0.
Qed.

(* BeOnly.v — the early return of loop_restructure_helper (the single latch is the single exiting
   block: only `declare_backedge` on it) keeps every flat walk, at any level.
   General fact: two hierarchies of the same size whose blocks agree on successors and class - they may
   differ in declared back edges, in the order of children - have the same flat walks. *)
From Coq Require Import List ZArith Bool Lia.
Import ListNotations.
From V Require Import Valid.Hier Valid.Walk Valid.FlatRegion Model.Graph Model.Edits Model.Edits2 Model.JoinPath
     Model.Refine Model.CbPath Model.ExtractPath Model.LoopEdit Model.Extract Model.CbHier Model.LoopHier
     Model.Flatten Model.LoopHierPath.
Local Open Scope Z_scope.

Definition SimN (n n' : node) : Prop :=
  n_jt n' = n_jt n /\
  match n_kind n with
  | KRegion rk hd ex ch pd ok => exists ch', n_kind n' = KRegion rk hd ex ch' pd ok
  | k => n_kind n' = k
  end.

Definition SimH (h h' : hier) : Prop :=
  length h' = length h /\
  forall x, match find h x, find h' x with
            | Some n, Some n' => SimN n n'
            | None, None => True
            | _, _ => False
            end.

Lemma enter_sim h h' : SimH h h' -> forall f t, enter_flat h' f t = enter_flat h f t.
Proof.
  intros [_ H]. induction f as [|f IH]; intros t; [reflexivity|]. cbn [enter_flat].
  specialize (H t). destruct (find h t) as [n|], (find h' t) as [n'|]; try contradiction; [|reflexivity].
  destruct H as [_ Hk]. destruct (n_kind n) as [p|c|a|c v tbl|rk hd ex ch pd ok]; try (rewrite Hk; reflexivity).
  destruct Hk as [ch' Hk]. rewrite Hk. apply IH.
Qed.

Lemma resolve_sim h h' : SimH h h' -> forall x t, resolve_flat h' x t = resolve_flat h x t.
Proof. intros H x t. unfold resolve_flat. rewrite (proj1 H). apply enter_sim. exact H. Qed.

Lemma compat_fields h' r r' strict (F : Z -> Prop) (Old : name -> Prop) x b b' :
  n_jt b' = n_jt b -> n_kind b' = n_kind b ->
  Compat h' r r' strict F Old x b b -> Compat h' r r' strict F Old x b b'.
Proof. intros Hj Hk. unfold Compat, proceed. rewrite Hk, Hj. auto. Qed.

Section Sim.
Variables (h h' : hier) (strict : bool).
Hypothesis HS : SimH h h'.
Hypothesis Hres : forall x n t, find h x = Some n -> is_region n = false -> In t (n_jt n) ->
  enter_flat h (S (length h)) t <> None.

Definition LeafS (x : name) : Prop := exists n, find h x = Some n /\ is_region n = false.

Lemma hold_sim : forall x, LeafS x -> exists b b', find h x = Some b /\ find h' x = Some b' /\
  Compat h' (resolve_flat h) (resolve_flat h') strict F0 LeafS x b b'.
Proof.
  intros x [n [Hn Hl]]. pose proof (proj2 HS x) as Hx. rewrite Hn in Hx.
  destruct (find h' x) as [n'|] eqn:Hn'; [|contradiction]. destruct Hx as [Hj Hk].
  assert (Hk' : n_kind n' = n_kind n).
  { unfold is_region in Hl. destruct (n_kind n); try exact Hk. discriminate. }
  exists n, n'. split; [exact Hn|]. split; [reflexivity|]. apply compat_fields; [exact Hj|exact Hk'|].
  apply compat_refl.
  - exact Hl.
  - intros t Ht. destruct (enter_flat h (S (length h)) t) as [c|] eqn:E; [|exfalso; exact (Hres x n t Hn Hl Ht E)].
    destruct (enter_flat_result h _ _ _ E) as [nc [Hc Hlc]].
    apply (edge0 h' _ _ strict F0 LeafS x t t c); [exact E|exists nc; auto|].
    rewrite (resolve_sim h h' HS). exact E.
  - intros a _ p _ [].
  - intros c v tbl _ [].
Qed.

Theorem sim_keeps_walks n e ds tr st :
  (exists b p, find h n = Some b /\ n_kind b = KOrig p) ->
  WTrace h (resolve_flat h) strict n e ds tr st -> WTrace h' (resolve_flat h') strict n e ds tr st.
Proof.
  intros [b [p [Hb Hk]]] W.
  apply (walk_refines h h' _ _ strict F0 LeafS hold_sim n e ds tr st W e).
  - exists b. split; [exact Hb|unfold is_region; rewrite Hk; reflexivity].
  - eauto.
  - intros v _. reflexivity.
Qed.

Theorem sim_keeps_ctrace n e ds :
  (exists b p, find h n = Some b /\ n_kind b = KOrig p) ->
  CTrace h (resolve_flat h) strict n e ds -> CTrace h' (resolve_flat h') strict n e ds.
Proof.
  intros [b [p [Hb Hk]]] W.
  apply (ctrace_refines h h' _ _ strict F0 LeafS hold_sim n e ds W e).
  - exists b. split; [exact Hb|unfold is_region; rewrite Hk; reflexivity].
  - eauto.
  - intros v _. reflexivity.
Qed.

(* the same with an environment that agrees with e on every variable *)
Theorem sim_keeps_walks_e n e e' ds tr st :
  (exists b p, find h n = Some b /\ n_kind b = KOrig p) -> E F0 e e' ->
  WTrace h (resolve_flat h) strict n e ds tr st -> WTrace h' (resolve_flat h') strict n e' ds tr st.
Proof.
  intros [b [p [Hb Hk]]] He W.
  apply (walk_refines h h' _ _ strict F0 LeafS hold_sim n e ds tr st W e').
  - exists b. split; [exact Hb|unfold is_region; rewrite Hk; reflexivity].
  - eauto.
  - exact He.
Qed.

Theorem sim_keeps_ctrace_e n e e' ds :
  (exists b p, find h n = Some b /\ n_kind b = KOrig p) -> E F0 e e' ->
  CTrace h (resolve_flat h) strict n e ds -> CTrace h' (resolve_flat h') strict n e' ds.
Proof.
  intros [b [p [Hb Hk]]] He W.
  apply (ctrace_refines h h' _ _ strict F0 LeafS hold_sim n e ds W e').
  - exists b. split; [exact Hb|unfold is_region; rewrite Hk; reflexivity].
  - eauto.
  - exact He.
Qed.
End Sim.

(* ---------- the early return ---------- *)
Lemma write_nodes_same_length lvl : forall g h, (forall x, In x (ekeys g) -> find h x <> None) ->
  length (write_nodes h lvl g) = length h.
Proof.
  induction g as [|[y b] r IH]; intros h Hk; [reflexivity|]. cbn [write_nodes].
  destruct (find h y) as [n|] eqn:Ey; [|exfalso; apply (Hk y); [left; reflexivity|exact Ey]].
  rewrite IH; [apply hset_length|]. intros x Hx.
  rewrite find_hset by (cbn [n_name]; rewrite Ey; discriminate). cbn [n_name].
  destruct (Z.eqb x y); [discriminate|]. apply Hk. right. exact Hx.
Qed.

Section Early.
Variables (h : hier) (lvl : name) (nl : node) (g1 g2 : egraph) (bb hd : name) (b b1 : eblk) (strict : bool).
Let g' := dset g2 bb b1.
Let h' := write_back h lvl g'.

Hypothesis Hl : find h lvl = Some nl.
Hypothesis Hlr : is_region nl = true.
Hypothesis HLG : collect h (children_h nl) = Some g1.
Hypothesis Hpop : dpop g1 bb = Some (b, g2).
Hypothesis Hdecl : declare_backedge b hd = Some b1.
Hypothesis Hkeys' : NoDup (ekeys g').
Hypothesis Hlvl1 : efind g1 lvl = None.
Hypothesis Hres : forall x n t, find h x = Some n -> is_region n = false -> In t (n_jt n) ->
  enter_flat h (S (length h)) t <> None.

Lemma decl_fields : e_jt b1 = e_jt b /\ e_kind b1 = e_kind b.
Proof.
  unfold declare_backedge in Hdecl. destruct (zmem hd (ejts b)).
  - destruct (e_be b); [injection Hdecl as <-; auto|discriminate].
  - injection Hdecl as <-. auto.
Qed.

Lemma efind_g' x : efind g' x = if Z.eqb x bb then Some b1 else efind g1 x.
Proof.
  unfold g', efind. rewrite zassoc_dset. destruct (Z.eqb_spec x bb); [reflexivity|].
  apply (zassoc_dpop _ _ _ _ _ Hpop). assumption.
Qed.

Lemma efind_g1e x : efind g1 x = if zmem x (children_h nl) then option_map eblk_of (find h x) else None.
Proof. apply (efind_collect h _ _ _ HLG). Qed.

Lemma bb_not_lvl : bb <> lvl.
Proof. intros E. pose proof (dpop_value _ _ _ _ Hpop) as Hv. unfold efind in Hlvl1. rewrite E in Hv. congruence. Qed.

Lemma efind_g'_lvl : efind g' lvl = None.
Proof. rewrite efind_g'. destruct (Z.eqb_spec lvl bb) as [E|_]; [exfalso; apply bb_not_lvl; auto|exact Hlvl1]. Qed.

Lemma keys_found x : In x (ekeys g') -> find h x <> None.
Proof.
  intros Hx. destruct (keys_efind g' x Hx) as [bx Hbx]. rewrite efind_g' in Hbx.
  destruct (Z.eqb_spec x bb) as [->|_].
  - pose proof (dpop_value _ _ _ _ Hpop) as Hv. fold (efind g1 bb) in Hv. rewrite efind_g1e in Hv.
    destruct (zmem bb (children_h nl)); [|discriminate]. destruct (find h bb); [discriminate|discriminate].
  - rewrite efind_g1e in Hbx. destruct (zmem x (children_h nl)); [|discriminate].
    destruct (find h x); [discriminate|discriminate].
Qed.

Lemma early_sim : SimH h h'.
Proof.
  split.
  - unfold h', write_back.
    assert (E : length (write_nodes h lvl g') = length h) by (apply write_nodes_same_length; exact keys_found).
    destruct (find (write_nodes h lvl g') lvl); [rewrite hset_length|]; exact E.
  - intros x. destruct (Z.eq_dec x lvl) as [->|Hx].
    + rewrite Hl. unfold h'. rewrite (find_write_back_lvl h lvl g' nl Hkeys' Hl efind_g'_lvl).
      unfold SimN, with_children. unfold is_region in Hlr. destruct (n_kind nl) eqn:Ek; try discriminate. cbn. split; [reflexivity|eauto].
    + unfold h'. rewrite (find_write_back h lvl g' x nl Hkeys' Hl efind_g'_lvl Hx). rewrite efind_g'.
      destruct (Z.eqb_spec x bb) as [->|Hxb].
      * pose proof (dpop_value _ _ _ _ Hpop) as Hv. fold (efind g1 bb) in Hv. rewrite efind_g1e in Hv.
        destruct (zmem bb (children_h nl)); [|discriminate]. destruct (find h bb) as [n|] eqn:Hn; [|discriminate].
        cbn [option_map] in Hv. injection Hv as Hbe. unfold node_back. rewrite Hn.
        destruct decl_fields as [Dj Dk]. rewrite <- Hbe in Dj, Dk. unfold SimN. cbn [n_jt n_kind]. rewrite Dj, Dk. cbn [eblk_of e_jt e_kind].
        rewrite kind_back_same. split; [reflexivity|]. destruct (n_kind n); eauto.
      * rewrite efind_g1e. destruct (zmem x (children_h nl)).
        -- destruct (find h x) as [n|] eqn:Hn; cbn [option_map]; [|exact I].
           unfold node_back. rewrite Hn. cbn [eblk_of e_jt e_be e_kind]. rewrite kind_back_same.
           unfold SimN. cbn [n_jt n_kind]. split; [reflexivity|]. destruct (n_kind n); eauto.
        -- destruct (find h x) as [n|]; [|exact I]. unfold SimN. split; [reflexivity|]. destruct (n_kind n); eauto.
Qed.

(* declaring the back edge of the single latch keeps every walk, at any level *)
Theorem early_return_keeps_walks n e ds tr st :
  (exists b0 p, find h n = Some b0 /\ n_kind b0 = KOrig p) ->
  WTrace h (resolve_flat h) strict n e ds tr st -> WTrace h' (resolve_flat h') strict n e ds tr st.
Proof. apply (sim_keeps_walks h h' strict early_sim Hres). Qed.

Theorem early_return_keeps_ctrace n e ds :
  (exists b0 p, find h n = Some b0 /\ n_kind b0 = KOrig p) ->
  CTrace h (resolve_flat h) strict n e ds -> CTrace h' (resolve_flat h') strict n e ds.
Proof. apply (sim_keeps_ctrace h h' strict early_sim Hres). Qed.

Theorem early_return_keeps_walks_e n e e' ds tr st :
  (exists b0 p, find h n = Some b0 /\ n_kind b0 = KOrig p) -> E F0 e e' ->
  WTrace h (resolve_flat h) strict n e ds tr st -> WTrace h' (resolve_flat h') strict n e' ds tr st.
Proof. apply (sim_keeps_walks_e h h' strict early_sim Hres). Qed.

Theorem early_return_keeps_ctrace_e n e e' ds :
  (exists b0 p, find h n = Some b0 /\ n_kind b0 = KOrig p) -> E F0 e e' ->
  CTrace h (resolve_flat h) strict n e ds -> CTrace h' (resolve_flat h') strict n e' ds.
Proof. apply (sim_keeps_ctrace_e h h' strict early_sim Hres). Qed.
End Early.

(* Prune.v — property C08 (census half): the three pruning passes of the source
   front end (ASTCFG.prune_unreachable / prune_noops / prune_empty), modelled
   line by line over a CFG whose instructions are opaque identifiers, and the
   theorems that they remove only unreachable blocks, no-op statements and
   empty blocks.  Also the census checker of property C10. *)
From Coq Require Import List ZArith Bool Lia Permutation.
Import ListNotations.
From V Require Import Valid.Hier Model.Graph Model.Edits.
Local Open Scope Z_scope.

(* an instruction: identifier, is it pass/break/continue *)
Record ablock := mkA { a_ins : list (Z * bool); a_jt : list name }.
Definition acfg := list (name * ablock).

Definition akeys (g : acfg) : list name := map fst g.
Definition afind (g : acfg) (x : name) : option ablock := zassoc x g.
Definition asucc (g : acfg) (x : name) : list name :=
  match afind g x with Some b => a_jt b | None => [] end.

(* ---------- prune_unreachable: keep what can be reached from the entry ---------- *)
Definition reachable (g : acfg) (entry : name) : option (list name) :=
  closure (asucc g) (S (length g + length (flat_map (fun p => a_jt (snd p)) g))) [entry].

Definition prune_unreachable (g : acfg) (entry : name) : option acfg :=
  match reachable g entry with
  | Some R => Some (filter (fun p => zmem (fst p) R) g)
  | None => None
  end.

Theorem prune_unreachable_spec g entry g' :
  prune_unreachable g entry = Some g' ->
  forall x b, In (x, b) g' <-> In (x, b) g /\ Reach (asucc g) entry x.
Proof.
  unfold prune_unreachable, reachable. destruct (closure _ _ _) as [R|] eqn:E; [|discriminate].
  intros [= <-] x b. rewrite filter_In. cbn [fst]. rewrite zmem_In.
  rewrite (closure_spec _ _ _ _ E). split.
  - intros [Hin [e [[<-|[]] Hr]]]. auto.
  - intros [Hin Hr]. split; [exact Hin|]. exists entry. split; [left; reflexivity|exact Hr].
Qed.

(* ---------- prune_noops ---------- *)
Definition prune_noops (g : acfg) : acfg :=
  map (fun p => (fst p, mkA (filter (fun i => negb (snd i)) (a_ins (snd p))) (a_jt (snd p)))) g.

Definition all_ins (g : acfg) : list (Z * bool) := flat_map (fun p => a_ins (snd p)) g.

Theorem prune_noops_spec g :
  all_ins (prune_noops g) = filter (fun i => negb (snd i)) (all_ins g) /\
  map (fun p => (fst p, a_jt (snd p))) (prune_noops g) = map (fun p => (fst p, a_jt (snd p))) g.
Proof.
  unfold all_ins, prune_noops. split.
  - induction g as [|[x b] r IH]; [reflexivity|]. cbn [map flat_map fst snd a_ins].
    rewrite IH. clear IH. induction (a_ins b) as [|i l IHl]; [reflexivity|].
    cbn [filter app]. destruct (negb (snd i)); cbn [app]; rewrite IHl; reflexivity.
  - induction g as [|[x b] r IH]; [reflexivity|]. cbn. rewrite IH. reflexivity.
Qed.

(* ---------- prune_empty ---------- *)
(* rewire every jump to [name] (a block being removed) to its single target [it] *)
Definition rewire (name it : name) (b : ablock) : ablock :=
  match a_jt b with
  | [t] => mkA (a_ins b) [if Z.eqb t name then it else t]
  | [t1; t2] => mkA (a_ins b) [if Z.eqb t1 name then it else t1; if Z.eqb t2 name then it else t2]
  | _ => b
  end.

(* None = IndexError (an empty block without a jump target) *)
Fixpoint prune_empty_loop (order : list name) (g : acfg) : option acfg :=
  match order with
  | [] => Some g
  | name :: rest =>
    match afind g name with
    | None => prune_empty_loop rest g
    | Some b =>
      match a_ins b with
      | _ :: _ => prune_empty_loop rest g
      | [] =>
        match a_jt b with
        | [] => None
        | it :: _ =>
          (* the entry block stays when its successor has other predecessors *)
          if Z.eqb name 0 &&
             existsb (fun p => negb (Z.eqb (fst p) name) && zmem it (a_jt (snd p))) g
          then prune_empty_loop rest g
          else
            let g1 := filter (fun p => negb (Z.eqb (fst p) name)) g in
            prune_empty_loop rest (map (fun p => (fst p, rewire name it (snd p))) g1)
        end
      end
    end
  end.

Definition collapse (b : ablock) : ablock :=
  match a_jt b with
  | [t1; t2] => if Z.eqb t1 t2 then mkA (a_ins b) [t1] else b
  | _ => b
  end.

Definition prune_empty (g : acfg) : option acfg :=
  match prune_empty_loop (akeys g) g with
  | Some g' => Some (map (fun p => (fst p, collapse (snd p))) g')
  | None => None
  end.

Lemma rewire_ins name it b : a_ins (rewire name it b) = a_ins b.
Proof. unfold rewire. destruct (a_jt b) as [|t1 [|t2 [|? ?]]]; reflexivity. Qed.

Lemma collapse_ins b : a_ins (collapse b) = a_ins b.
Proof.
  unfold collapse. destruct (a_jt b) as [|t1 [|t2 [|? ?]]]; try reflexivity.
  destruct (Z.eqb t1 t2); reflexivity.
Qed.

Lemma zassoc_unique {A} (g : list (Z * A)) x b b0 :
  NoDup (map fst g) -> zassoc x g = Some b -> In (x, b0) g -> b0 = b.
Proof.
  induction g as [|[k v] r IH]; intros Hnd Hz Hin; [destruct Hin|]. cbn in Hz, Hnd.
  inversion Hnd as [|? ? Hnk Hnd']; subst.
  destruct (Z.eqb x k) eqn:E.
  - apply Z.eqb_eq in E. subst k. injection Hz as <-. destruct Hin as [Hin|Hin]; [congruence|].
    exfalso. apply Hnk. apply in_map_iff. exists (x, b0). auto.
  - destruct Hin as [Hin|Hin]; [injection Hin as -> _; rewrite Z.eqb_refl in E; discriminate|].
    apply IH; assumption.
Qed.

Lemma keys_filter_map name it (g : acfg) :
  map fst (map (fun p => (fst p, rewire name it (snd p))) (filter (fun p => negb (Z.eqb (fst p) name)) g)) =
  filter (fun k => negb (Z.eqb k name)) (map fst g).
Proof.
  induction g as [|[x b] r IH]; [reflexivity|]. cbn [filter map fst].
  destruct (negb (Z.eqb x name)); cbn [map fst]; rewrite IH; reflexivity.
Qed.

(* only blocks without instructions disappear: the instructions of the graph are untouched *)
Lemma prune_empty_loop_ins : forall order g g', NoDup (akeys g) ->
  prune_empty_loop order g = Some g' -> all_ins g' = all_ins g /\ NoDup (akeys g').
Proof.
  induction order as [|name rest IH]; intros g g' Hnd H; cbn [prune_empty_loop] in H.
  - injection H as <-. auto.
  - destruct (afind g name) as [b|] eqn:Eb; [|apply IH; assumption].
    destruct (a_ins b) as [|i l] eqn:Ei; [|apply IH; assumption].
    destruct (a_jt b) as [|it r]; [discriminate|].
    destruct (_ && _); [apply IH; assumption|].
    assert (Hnd1 : NoDup (akeys (map (fun p => (fst p, rewire name it (snd p)))
                                     (filter (fun p => negb (Z.eqb (fst p) name)) g)))).
    { unfold akeys. rewrite keys_filter_map. apply NoDup_filter. exact Hnd. }
    destruct (IH _ _ Hnd1 H) as [Hins Hnd']. split; [|exact Hnd']. rewrite Hins. clear IH H Hins.
    unfold all_ins. unfold afind in Eb.
    assert (Hgen : forall h, (forall b0, In (name, b0) h -> a_ins b0 = []) ->
      flat_map (fun p => a_ins (snd p))
        (map (fun p => (fst p, rewire name it (snd p))) (filter (fun p => negb (Z.eqb (fst p) name)) h)) =
      flat_map (fun p => a_ins (snd p)) h).
    { induction h as [|[x bx] h' IHh]; intros Hn; [reflexivity|]. cbn [filter fst].
      destruct (Z.eqb x name) eqn:Ex; cbn [negb].
      - apply Z.eqb_eq in Ex. subst x. cbn [flat_map snd].
        rewrite (Hn bx (or_introl eq_refl)). cbn [app]. apply IHh. intros b0 Hb0. apply Hn. right. exact Hb0.
      - cbn [map flat_map fst snd]. rewrite rewire_ins. f_equal. apply IHh.
        intros b0 Hb0. apply Hn. right. exact Hb0. }
    apply Hgen. intros b0 Hb0. rewrite (zassoc_unique g name b b0 Hnd Eb Hb0). exact Ei.
Qed.

Theorem prune_empty_spec g g' : NoDup (akeys g) -> prune_empty g = Some g' -> all_ins g' = all_ins g.
Proof.
  unfold prune_empty. intros Hnd H.
  destruct (prune_empty_loop (akeys g) g) as [g1|] eqn:E; [|discriminate]. injection H as <-.
  destruct (prune_empty_loop_ins _ _ _ Hnd E) as [Hins _]. rewrite <- Hins.
  unfold all_ins. clear. induction g1 as [|[x b] r IH]; [reflexivity|]. cbn [map flat_map fst snd].
  rewrite collapse_ins. f_equal. exact IH.
Qed.

(* the three passes in the order transform() applies them *)
Definition prune (g : acfg) (entry : name) : option acfg :=
  match prune_unreachable g entry with
  | Some g1 => prune_empty (prune_noops g1)
  | None => None
  end.

Lemma keys_filter_nodup (g : acfg) f : NoDup (akeys g) -> NoDup (akeys (filter f g)).
Proof.
  unfold akeys. induction g as [|[x b] r IH]; intros Hnd; [constructor|]. cbn in Hnd.
  inversion Hnd as [|? ? Hn Hnd']; subst. cbn [filter]. destruct (f (x, b)); [|auto].
  cbn. constructor; [|auto]. intros Hin. apply Hn. apply in_map_iff in Hin as [[y c] [Hy Hin]].
  cbn in Hy. subst. apply filter_In in Hin as [Hin _]. apply in_map_iff. exists (x, c). auto.
Qed.

(* C08, census: exactly the non-no-op instructions of the blocks reachable from
   the entry survive, every one of them once and in its block's order *)
Theorem prune_census g entry g' : NoDup (akeys g) -> prune g entry = Some g' ->
  exists g1, (forall x b, In (x, b) g1 <-> In (x, b) g /\ Reach (asucc g) entry x) /\
             all_ins g' = filter (fun i => negb (snd i)) (all_ins g1).
Proof.
  unfold prune. intros Hnd H. destruct (prune_unreachable g entry) as [g1|] eqn:E1; [|discriminate].
  exists g1. split; [apply prune_unreachable_spec; exact E1|].
  assert (Hnd1 : NoDup (akeys g1)).
  { unfold prune_unreachable in E1. destruct (reachable g entry); [|discriminate]. injection E1 as <-.
    apply keys_filter_nodup. exact Hnd. }
  assert (Hnd2 : NoDup (akeys (prune_noops g1))).
  { unfold akeys, prune_noops. rewrite map_map. cbn [fst]. exact Hnd1. }
  rewrite (prune_empty_spec _ _ Hnd2 H). apply (proj1 (prune_noops_spec g1)).
Qed.

(* ---------- C10: census checker (multiset equality of identifiers) ---------- *)
Fixpoint minsert (x : Z) (l : list Z) : list Z :=
  match l with
  | [] => [x]
  | y :: r => if Z.leb x y then x :: l else y :: minsert x r
  end.
Definition msort (l : list Z) : list Z := fold_right minsert [] l.

Lemma minsert_perm x l : Permutation (x :: l) (minsert x l).
Proof.
  induction l as [|y r IH]; cbn; [apply Permutation_refl|].
  destruct (Z.leb x y); [apply Permutation_refl|].
  eapply Permutation_trans; [apply perm_swap|]. constructor. exact IH.
Qed.

Lemma msort_perm l : Permutation l (msort l).
Proof.
  induction l as [|x r IH]; cbn; [constructor|].
  eapply Permutation_trans; [|apply minsert_perm]. constructor. exact IH.
Qed.

Definition census_check (expected got : list Z) : bool := list_eqb (msort expected) (msort got).

Theorem census_check_sound expected got :
  census_check expected got = true -> Permutation expected got.
Proof.
  unfold census_check. intros H. apply list_eqb_eq in H.
  eapply Permutation_trans; [apply msort_perm|]. rewrite H. apply Permutation_sym. apply msort_perm.
Qed.

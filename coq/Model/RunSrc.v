(* RunSrc.v — correspondence drivers for the source front end (C08: pruning) and
   the census of regenerated code (C10). *)
From Coq Require Import List ZArith Bool.
Import ListNotations.
From V Require Import Valid.Hier Model.Graph Model.Prune.
Local Open Scope Z_scope.

(* rows: 120 name N (id noop).. J jt..   block of the unpruned CFG, in dictionary order
         121 name N (id noop).. J jt..   block of the pruned CFG
         122 status                      0 pruned, 1 raised
   block names are the front end's integer block indices; the entry is 0
   answer: [model prune = implementation] *)
Definition decode_ablock (r : list Z) : option (name * ablock) :=
  match r with
  | nm :: r0 =>
    match take_pairs r0 with
    | Some (ins, r1) =>
      match take_list r1 with
      | Some (jt, []) => Some (nm, mkA (map (fun p => (fst p, Z.eqb (snd p) 1)) ins) jt)
      | _ => None end
    | None => None end
  | [] => None
  end.

Record c08case := mkC8 { c8_before : acfg; c8_after : acfg; c8_status : Z; c8_bad : bool }.

Fixpoint decode_c08 (rows : list (list Z)) : c08case :=
  match rows with
  | [] => mkC8 [] [] 0 false
  | row :: rest =>
    let c := decode_c08 rest in
    match row with
    | 120 :: r => match decode_ablock r with
                  | Some b => mkC8 (b :: c8_before c) (c8_after c) (c8_status c) (c8_bad c)
                  | None => mkC8 [] [] 0 true end
    | 121 :: r => match decode_ablock r with
                  | Some b => mkC8 (c8_before c) (b :: c8_after c) (c8_status c) (c8_bad c)
                  | None => mkC8 [] [] 0 true end
    | [122; st] => mkC8 (c8_before c) (c8_after c) st (c8_bad c)
    | _ => mkC8 [] [] 0 true
    end
  end.

Definition ins_eqb (a b : list (Z * bool)) : bool :=
  list_eqb (map fst a) (map fst b) &&
  list_eqb (map (fun p : Z * bool => if snd p then 1 else 0) a)
           (map (fun p : Z * bool => if snd p then 1 else 0) b).

Fixpoint acfg_eqb (a b : acfg) : bool :=
  match a, b with
  | [], [] => true
  | (x, bx) :: a', (y, by_) :: b' =>
    Z.eqb x y && ins_eqb (a_ins bx) (a_ins by_) && list_eqb (a_jt bx) (a_jt by_) && acfg_eqb a' b'
  | _, _ => false
  end.

Definition run_c08 (rows : list (list Z)) : list Z :=
  let c := decode_c08 rows in
  if c8_bad c then [0] else
  [ match prune (c8_before c) 0 with
    | Some g' => if Z.eqb (c8_status c) 0 && acfg_eqb g' (c8_after c) then 1 else 0
    | None => if Z.eqb (c8_status c) 1 then 1 else 0
    end ].

(* rows: 100 N ids..  statements the hierarchy holds      101 N ids..  statements of the regenerated tree
         102 N ids..  control-variable assignments held   103 N ids..  assignments emitted
         104 N ids..  tests of two-way blocks             105 N ids..  conditions of the if statements emitted
   answer: one flag per pair *)
Fixpoint c10_lists (rows : list (list Z)) (tag : Z) : list Z :=
  match rows with
  | [] => []
  | (t :: r) :: rest => if Z.eqb t tag then match take_list r with Some (l, []) => l | _ => [] end
                        else c10_lists rest tag
  | [] :: rest => c10_lists rest tag
  end.

Definition run_c10 (rows : list (list Z)) : list Z :=
  let f a b := if census_check (c10_lists rows a) (c10_lists rows b) then 1 else 0 in
  [f 100 101; f 102 103; f 104 105].

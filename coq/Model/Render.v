(* Render.v — property C17: what SCFGRenderer / ByteFlowRenderer draw, as a list
   of drawing commands (node, cluster open/close, edge), and the census
   theorems: one node per non-region block, one cluster per region, nested as
   the regions are; one solid edge per jump target and one dashed edge per
   back edge of every non-region block, drawn to the innermost header. *)
From Coq Require Import List ZArith Bool Lia Permutation.
Import ListNotations.
From V Require Import Valid.Hier Valid.FlatRegion Model.Graph Model.Iter Model.IterHier.
Local Open Scope Z_scope.

Inductive cmd := CNode (x : name) | COpen (r : name) | CClose | CEdge (a b : name) (dashed : bool).

Definition node_is_region (h : hier) (x : name) : bool :=
  match find h x with Some n => is_region n | None => false end.

(* render_block over the items of a graph, in dictionary order; a region opens a
   cluster, renders its own graph inside, and closes it *)
Fixpoint render_nodes (h : hier) (fuel : nat) (p : name) : list cmd :=
  match fuel with
  | O => []
  | S f =>
    flat_map (fun c => if node_is_region h c
                       then COpen c :: render_nodes h f c ++ [CClose]
                       else [CNode c]) (children_of h p)
  end.

Inductive redge := REdge (a b : name) (dashed : bool) | RKeyError.

(* render_edges: for every non-region block, in the order of SCFG.__iter__ *)
Definition edges_of (h : hier) (x : name) : list redge :=
  match find h x with
  | Some n =>
    if is_region n then [] else
    flat_map (fun t => match find h t with
                       | None => []                                  (* except KeyError: continue *)
                       | Some _ => match enter_flat h (S (length h)) t with
                                   | Some y => [REdge x y false]
                                   | None => [RKeyError] end
                       end) (jump_targets n) ++
    map (fun t => match enter_flat h (S (length h)) t with
                  | Some y => REdge x y true
                  | None => RKeyError end) (n_be n)
  | None => []
  end.

Definition render_edges (h : hier) (order : list name) : list redge := flat_map (edges_of h) order.

(* ---------- census of nodes and clusters ---------- *)
Definition strip (c : cmd) : list (name * bool) :=
  match c with CNode x => [(x, false)] | COpen r => [(r, true)] | _ => [] end.

Theorem nodes_census h : forall fuel p,
  flat_map strip (render_nodes h fuel p) =
  map (fun x => (x, node_is_region h x)) (descendants h fuel p).
Proof.
  induction fuel as [|f IH]; intros p; [reflexivity|]. cbn [render_nodes descendants].
  induction (children_of h p) as [|c r IHr]; [reflexivity|]. cbn [flat_map].
  rewrite flat_map_app, map_app, IHr. f_equal.
  unfold node_is_region at 1. destruct (find h c) as [n|] eqn:Ec.
  - destruct (is_region n) eqn:Er.
    + cbn [flat_map strip app]. rewrite flat_map_app. cbn [flat_map strip app]. rewrite app_nil_r.
      rewrite IH. cbn [map]. unfold node_is_region at 2. rewrite Ec, Er. reflexivity.
    + cbn. unfold node_is_region. rewrite Ec, Er. reflexivity.
  - cbn. unfold node_is_region. rewrite Ec. reflexivity.
Qed.

(* clusters are properly bracketed: every cluster that is opened is closed, in nesting order *)
Fixpoint balance (l : list cmd) (depth : nat) : option nat :=
  match l with
  | [] => Some depth
  | COpen _ :: r => balance r (S depth)
  | CClose :: r => match depth with O => None | S d => balance r d end
  | _ :: r => balance r depth
  end.

Lemma balance_app l1 : forall l2 d d', balance l1 d = Some d' -> balance (l1 ++ l2) d = balance l2 d'.
Proof.
  induction l1 as [|c r IH]; intros l2 d d' H; cbn in *; [injection H as <-; reflexivity|].
  destruct c; try (apply IH; exact H). destruct d; [discriminate|]. apply IH. exact H.
Qed.

Theorem nodes_balanced h : forall fuel p d, balance (render_nodes h fuel p) d = Some d.
Proof.
  induction fuel as [|f IH]; intros p d; [reflexivity|]. cbn [render_nodes].
  induction (children_of h p) as [|c r IHr]; [reflexivity|]. cbn [flat_map].
  destruct (node_is_region h c).
  - cbn [app balance]. rewrite <- app_assoc.
    rewrite (balance_app _ _ _ _ (IH c (S d))). cbn [app balance]. exact IHr.
  - cbn. exact IHr.
Qed.

(* ---------- census of edges ---------- *)
Theorem edges_census h order a b dashed :
  In (REdge a b dashed) (render_edges h order) <->
  In a order /\ exists n t, find h a = Some n /\ is_region n = false /\
    enter_flat h (S (length h)) t = Some b /\
    (if dashed then In t (n_be n) else In t (jump_targets n) /\ find h t <> None).
Proof.
  unfold render_edges. rewrite in_flat_map. split.
  - intros [x [Hx Hin]]. unfold edges_of in Hin.
    destruct (find h x) as [n|] eqn:Ex; [|destruct Hin].
    destruct (is_region n) eqn:Er; [destruct Hin|].
    apply in_app_or in Hin as [Hin|Hin].
    + apply in_flat_map in Hin as [t [Ht Hin]].
      destruct (find h t) eqn:Et; [|destruct Hin].
      destruct (enter_flat h (S (length h)) t) as [y|] eqn:Ey; destruct Hin as [Hin|[]]; try discriminate.
      injection Hin as <- <- <-. split; [exact Hx|]. exists n, t. repeat split; auto. congruence.
    + apply in_map_iff in Hin as [t [Hin Ht]].
      destruct (enter_flat h (S (length h)) t) as [y|] eqn:Ey; try discriminate.
      injection Hin as <- <- <-. split; [exact Hx|]. exists n, t. auto.
  - intros [Ha [n [t [Hf [Hr [He Hd]]]]]]. exists a. split; [exact Ha|].
    unfold edges_of. rewrite Hf, Hr. apply in_or_app. destruct dashed.
    + right. apply in_map_iff. exists t. rewrite He. auto.
    + left. destruct Hd as [Ht Hn]. apply in_flat_map. exists t. split; [exact Ht|].
      destruct (find h t); [|contradiction]. rewrite He. left. reflexivity.
Qed.

(* ---------- correspondence driver ----------
   rows: the exported hierarchy, then the parsed DOT body of the implementation
     90 name        node            91 region     cluster open        92   cluster close
     93 a b dashed  edge            94 status     0 rendered, 1 raised
   answer: [nodes and clusters agree; edges agree; status agrees] *)
Definition cmd_eqb (a b : cmd) : bool :=
  match a, b with
  | CNode x, CNode y => Z.eqb x y
  | COpen x, COpen y => Z.eqb x y
  | CClose, CClose => true
  | CEdge a1 b1 d1, CEdge a2 b2 d2 => Z.eqb a1 a2 && Z.eqb b1 b2 && Bool.eqb d1 d2
  | _, _ => false
  end.

Fixpoint cmds_eqb (a b : list cmd) : bool :=
  match a, b with
  | [], [] => true
  | x :: a', y :: b' => cmd_eqb x y && cmds_eqb a' b'
  | _, _ => false
  end.

Fixpoint split_c17 (rows : list (list Z)) : list (list Z) * list cmd * Z :=
  match rows with
  | [] => ([], [], 0)
  | row :: rest =>
    let '(hr, cs, st) := split_c17 rest in
    match row with
    | [90; x] => (hr, CNode x :: cs, st)
    | [91; r] => (hr, COpen r :: cs, st)
    | [92] => (hr, CClose :: cs, st)
    | [93; a; b; d] => (hr, CEdge a b (Z.eqb d 1) :: cs, st)
    | [94; s] => (hr, cs, s)
    | _ => (row :: hr, cs, st)
    end
  end.

Definition is_edge (c : cmd) : bool := match c with CEdge _ _ _ => true | _ => false end.

Definition run_c17 (rows : list (list Z)) : list Z :=
  let '(hr, cs, st) := split_c17 rows in
  match decode hr with
  | None => [0; 0; 0]
  | Some (_, h) =>
    match top_region h with
    | None => [0; 0; 0]
    | Some top =>
      let fuel := S (length h) in
      let mn := render_nodes h fuel (n_name top) in
      let order := match iter_of h fuel (n_name top) with Some l => l | None => [] end in
      let me := render_edges h order in
      let raised := existsb (fun e => match e with RKeyError => true | _ => false end) me in
      let me' := flat_map (fun e => match e with REdge a b d => [CEdge a b d] | RKeyError => [] end) me in
      [ (if cmds_eqb mn (filter (fun c => negb (is_edge c)) cs) then 1 else 0);
        (if raised then 1 else if cmds_eqb me' (filter is_edge cs) then 1 else 0);
        (if Z.eqb st (if raised then 1 else 0) then 1 else 0) ]
    end
  end.

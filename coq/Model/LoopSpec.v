(* LoopSpec.v — what LoopEdit.loop_rotate does, block by block, for every graph:
   a processed block keeps its kind and back edges and its successors position
   by position, except that every successor that is an exit of the loop, or a
   header reached by a back edge, is replaced by an assignment block of its own
   (fresh, shared with nobody) that continues to the exiting latch and sets the
   control variables as the latch (and the exit branch) will read them; nothing
   else changes; the latch and the exit branch are added. *)
From Coq Require Import List ZArith Bool Lia.
Import ListNotations.
From V Require Import Valid.Hier Model.Graph Model.Edits Model.Edits2 Model.Edits3 Model.LoopEdit.
Local Open Scope Z_scope.

(* ---------- replacing several successors, position by position ---------- *)
Fixpoint passoc (t : name) (l : list (name * name)) : option name :=
  match l with
  | [] => None
  | (t0, a) :: r => if Z.eqb t t0 then Some a else passoc t r
  end.

Definition subst_all (l : list (name * name)) (jt : list name) : list name :=
  fold_left (fun acc ta => replace_first (fst ta) (snd ta) acc) l jt.

Lemma subst_all_length l : forall jt, length (subst_all l jt) = length jt.
Proof.
  induction l as [|[t a] r IH]; intros jt; [reflexivity|]. unfold subst_all in *. cbn [fold_left fst snd].
  rewrite IH. apply replace_first_length.
Qed.

Lemma subst_all_pos : forall l jt,
  NoDup jt -> NoDup (map snd l) -> NoDup (map fst l) ->
  (forall a, In a (map snd l) -> ~ In a jt /\ ~ In a (map fst l)) ->
  forall k t, nth_error jt k = Some t ->
    nth_error (subst_all l jt) k = Some (match passoc t l with Some a => a | None => t end).
Proof.
  induction l as [|[t0 a0] r IH]; intros jt Hjt Hs Hf Hfresh k t Hk; [exact Hk|].
  unfold subst_all. cbn [fold_left fst snd]. fold (subst_all r (replace_first t0 a0 jt)).
  cbn [map snd fst] in Hs, Hf, Hfresh. inversion Hs as [|? ? Ha0 Hs']; subst. inversion Hf as [|? ? Ht0 Hf']; subst.
  destruct (Hfresh a0 (or_introl eq_refl)) as [Ha0jt Ha0f].
  assert (Hjt' : NoDup (replace_first t0 a0 jt)) by (apply nodup_replace_first'; assumption).
  assert (Hfresh' : forall a, In a (map snd r) -> ~ In a (replace_first t0 a0 jt) /\ ~ In a (map fst r)).
  { intros a Ha. destruct (Hfresh a (or_intror Ha)) as [A B]. split.
    - intros Hi. apply In_replace_first in Hi as [->|Hi]; [contradiction|contradiction].
    - intros Hi. apply B. right. exact Hi. }
  cbn [passoc]. destruct (Z.eqb t t0) eqn:E.
  - apply Z.eqb_eq in E. subst t0.
    rewrite (IH _ Hjt' Hs' Hf' Hfresh' k a0 (replace_first_hit t a0 jt Hjt k Hk)).
    assert (passoc a0 r = None) as ->; [|reflexivity].
    assert (Hn : ~ In a0 (map fst r)) by (intros Hi; apply Ha0f; right; exact Hi).
    clear -Hn. induction r as [|[x y] r IH]; [reflexivity|]. cbn in *.
    destruct (Z.eqb a0 x) eqn:E; [apply Z.eqb_eq in E; subst; exfalso; apply Hn; left; reflexivity|].
    apply IH. intros Hi. apply Hn. right. exact Hi.
  - apply Z.eqb_neq in E.
    apply (IH _ Hjt' Hs' Hf' Hfresh' k t). apply replace_first_other; assumption.
Qed.

Lemma passoc_combine_in t a l1 l2 : passoc t (combine l1 l2) = Some a -> In (t, a) (combine l1 l2).
Proof.
  revert l2. induction l1 as [|x r IH]; intros [|y r2]; cbn; try discriminate.
  destruct (Z.eqb t x) eqn:E; [apply Z.eqb_eq in E; intros [= <-]; subst; left; reflexivity|].
  intros H. right. apply IH. exact H.
Qed.

Lemma passoc_none_combine t l1 l2 : length l1 = length l2 -> passoc t (combine l1 l2) = None -> ~ In t l1.
Proof.
  revert l2. induction l1 as [|x r IH]; intros [|y r2] Hl; cbn; try discriminate; [tauto|].
  destruct (Z.eqb t x) eqn:E; [discriminate|]. apply Z.eqb_neq in E. intros H [Hx|Hx]; [congruence|].
  apply (IH r2); [cbn in Hl; lia|exact H|exact Hx].
Qed.

Lemma passoc_some_combine t l1 l2 : length l1 = length l2 -> In t l1 -> exists a, passoc t (combine l1 l2) = Some a.
Proof.
  revert l2. induction l1 as [|x r IH]; intros [|y r2] Hl Hin; cbn in *; try discriminate; [destruct Hin|].
  destruct (Z.eqb t x) eqn:E; [eauto|]. apply Z.eqb_neq in E. destruct Hin as [->|Hin]; [congruence|].
  apply IH; [lia|exact Hin].
Qed.

(* ---------- one block ---------- *)
Section OneBlock.
Variables (c : lctx) (p : name).

Definition rerouted (t : name) : bool :=
  zmem t (l_exits c) || (zmem t (l_headers c) && l_isback c p t).

Definition asg_of (t : name) : list (Z * Z) :=
  if zmem t (l_exits c) then
    (if l_needs c then [(l_ev c, rev_lookup (l_exit_tbl c) t)] else []) ++
    [(l_bv c, rev_lookup (l_back_tbl c) (l_exit_target c))]
  else
    [(l_bv c, rev_lookup (l_back_tbl c) (l_head c))] ++
    (if l_needs c || l_unified c then [(l_ev c, rev_lookup (l_header_tbl c) t)] else []).

Definition nonbranch (b : eblk) : Prop := forall cc v t, e_kind b <> EBranch cc v t.

Lemma replace_jt_nonbranch b jt : nonbranch b -> replace_jt b jt = Some (mkE jt (e_be b) (e_kind b)).
Proof.
  unfold replace_jt, nonbranch. intros H. destruct (e_kind b) as [k|a|cc v t] eqn:E; try reflexivity.
  exfalso. eapply H. reflexivity.
Qed.

Lemma le_targets_spec : forall snap g new_jt names g1 jt1 names1 bp,
  le_targets c g p snap new_jt names = Ok (g1, jt1, names1) ->
  efind g p = Some bp -> nonbranch bp -> NoDup names -> ~ In p names ->
  exists used bp1,
    names = used ++ names1 /\
    efind g1 p = Some bp1 /\ e_be bp1 = e_be bp /\ e_kind bp1 = e_kind bp /\
    (forall x, x <> p -> ~ In x used -> efind g1 x = efind g x) /\
    length used = length (filter rerouted snap) /\
    jt1 = subst_all (combine (filter rerouted snap) used) new_jt /\
    (forall t a, In (t, a) (combine (filter rerouted snap) used) ->
                 efind g1 a = Some (mkE [l_latch c] [] (EAssign (asg_of t)))).
Proof.
  induction snap as [|jt rest IH]; intros g new_jt names g1 jt1 names1 bp H Hp Hnb Hnd Hpn.
  - cbn in H. injection H as <- <- <-. exists [], bp. cbn. repeat split; auto. intros t a [].
  - cbn [le_targets] in H. cbn [filter].
    destruct (zmem jt (l_exits c)) eqn:Hex.
    + (* an arc that leaves the loop *)
      assert (Hr : rerouted jt = true) by (unfold rerouted; rewrite Hex; reflexivity). rewrite Hr.
      destruct names as [|a names']; [discriminate|].
      inversion Hnd as [|? ? Han Hnd']; subst.
      assert (Hap : a <> p) by (intros ->; apply Hpn; left; reflexivity).
      set (ab := mkE [l_latch c] [] (EAssign ((if l_needs c then [(l_ev c, rev_lookup (l_exit_tbl c) jt)] else []) ++
                                               [(l_bv c, rev_lookup (l_back_tbl c) (l_exit_target c))]))) in *.
      assert (Hf : forall x, efind (dset g a ab) x = if Z.eqb x a then Some ab else efind g x)
        by (intros x; unfold efind; apply zassoc_dset).
      assert (Hp' : efind (dset g a ab) p = Some bp).
      { rewrite Hf. destruct (Z.eqb p a) eqn:E; [apply Z.eqb_eq in E; congruence|exact Hp]. }
      destruct (IH _ _ _ _ _ _ bp H Hp' Hnb Hnd' (fun Hi => Hpn (or_intror Hi)))
        as [used [bp1 [Hn [Hp1 [Hbe [Hk [Hoth [Hlen [Hjt Hasg]]]]]]]]].
      exists (a :: used), bp1. split; [cbn; rewrite Hn; reflexivity|]. split; [exact Hp1|]. split; [exact Hbe|].
      split; [exact Hk|]. split; [|split; [cbn; rewrite Hlen; reflexivity|split]].
      * intros x Hx Hxu. rewrite Hoth; [|exact Hx|intros Hi; apply Hxu; right; exact Hi].
        rewrite Hf. destruct (Z.eqb x a) eqn:E; [apply Z.eqb_eq in E; subst; exfalso; apply Hxu; left; reflexivity|reflexivity].
      * rewrite Hjt. reflexivity.
      * intros t a0 [[= <- <-]|Hin].
        -- rewrite Hoth; [|exact Hap|intros Hi; apply Han; rewrite Hn; apply in_or_app; left; exact Hi].
           rewrite Hf, Z.eqb_refl. unfold asg_of. rewrite Hex. reflexivity.
        -- apply Hasg. exact Hin.
    + destruct (zmem jt (l_headers c) && l_isback c p jt) eqn:Hhd.
      * (* an arc back to a header *)
        assert (Hr : rerouted jt = true) by (unfold rerouted; rewrite Hex, Hhd; reflexivity). rewrite Hr.
        destruct names as [|a names']; [discriminate|].
        inversion Hnd as [|? ? Han Hnd']; subst.
        assert (Hap : a <> p) by (intros ->; apply Hpn; left; reflexivity).
        destruct (dpop g p) as [[b0 g0]|] eqn:Hpop; [|discriminate].
        assert (Hb0 : b0 = bp) by (apply dpop_value in Hpop; unfold efind in Hp; congruence). subst b0.
        rewrite (replace_jt_nonbranch bp _ Hnb) in H.
        set (b1 := mkE (fold_left (fun acc h => remove_first h acc) (l_headers c) (ejts bp)) (e_be bp) (e_kind bp)) in *.
        set (ab := mkE [l_latch c] [] (EAssign ([(l_bv c, rev_lookup (l_back_tbl c) (l_head c))] ++
                     (if l_needs c || l_unified c then [(l_ev c, rev_lookup (l_header_tbl c) jt)] else [])))) in *.
        assert (Hf : forall x, efind (dset (dset g0 p b1) a ab) x =
                               if Z.eqb x a then Some ab else if Z.eqb x p then Some b1 else efind g x).
        { intros x. unfold efind. rewrite !zassoc_dset. destruct (Z.eqb x a); [reflexivity|].
          destruct (Z.eqb x p) eqn:E; [reflexivity|]. apply Z.eqb_neq in E. eapply zassoc_dpop; eauto. }
        assert (Hp' : efind (dset (dset g0 p b1) a ab) p = Some b1).
        { rewrite Hf. destruct (Z.eqb p a) eqn:E; [apply Z.eqb_eq in E; congruence|]. rewrite Z.eqb_refl. reflexivity. }
        assert (Hnb1 : nonbranch b1) by (unfold nonbranch, b1; cbn; exact Hnb).
        destruct (IH _ _ _ _ _ _ b1 H Hp' Hnb1 Hnd' (fun Hi => Hpn (or_intror Hi)))
          as [used [bp1 [Hn [Hp1 [Hbe [Hk [Hoth [Hlen [Hjt Hasg]]]]]]]]].
        exists (a :: used), bp1. split; [cbn; rewrite Hn; reflexivity|]. split; [exact Hp1|]. split; [exact Hbe|].
        split; [exact Hk|]. split; [|split; [cbn; rewrite Hlen; reflexivity|split]].
        -- intros x Hx Hxu. rewrite Hoth; [|exact Hx|intros Hi; apply Hxu; right; exact Hi].
           rewrite Hf. destruct (Z.eqb x a) eqn:E; [apply Z.eqb_eq in E; subst; exfalso; apply Hxu; left; reflexivity|].
           destruct (Z.eqb x p) eqn:E2; [apply Z.eqb_eq in E2; contradiction|reflexivity].
        -- rewrite Hjt. reflexivity.
        -- intros t a0 [[= <- <-]|Hin].
           ++ rewrite Hoth; [|exact Hap|intros Hi; apply Han; rewrite Hn; apply in_or_app; left; exact Hi].
              rewrite Hf, Z.eqb_refl. unfold asg_of. rewrite Hex. reflexivity.
           ++ apply Hasg. exact Hin.
      * (* any other arc stays *)
        assert (Hr : rerouted jt = false) by (unfold rerouted; rewrite Hex, Hhd; reflexivity). rewrite Hr.
        apply (IH _ _ _ _ _ _ bp H Hp Hnb Hnd Hpn).
Qed.

Lemma le_targets_noop : forall snap g new_jt names,
  filter rerouted snap = [] -> le_targets c g p snap new_jt names = Ok (g, new_jt, names).
Proof.
  induction snap as [|jt rest IH]; intros g new_jt names Hf; [reflexivity|].
  cbn [filter] in Hf. destruct (rerouted jt) eqn:Hr; [discriminate|].
  unfold rerouted in Hr. apply orb_false_iff in Hr as [H1 H2].
  cbn [le_targets]. rewrite H1, H2. apply IH. exact Hf.
Qed.
End OneBlock.

Lemma nodup_app_l {A} (l1 l2 : list A) : NoDup (l1 ++ l2) -> NoDup l1.
Proof.
  induction l1 as [|x r IH]; cbn; intros H; [constructor|]. inversion H as [|? ? Hx Hr]; subst.
  constructor; [intros Hi; apply Hx; apply in_or_app; left; exact Hi|auto].
Qed.

Lemma nodup_app_r {A} (l1 l2 : list A) : NoDup (l1 ++ l2) -> NoDup l2.
Proof. induction l1 as [|x r IH]; cbn; intros H; [exact H|]. inversion H; subst. auto. Qed.

(* ---------- all processed blocks ---------- *)
Section Blocks.
Variable c : lctx.

(* what block p with old content b has become, given the names usedp it consumed *)
Definition BlockDone (g1 : egraph) (p : name) (b : eblk) (usedp : list name) : Prop :=
  let arcs := combine (filter (rerouted c p) (ejts b)) usedp in
  (exists b', efind g1 p = Some b' /\ replace_jt b (subst_all arcs (ejts b)) = Some b') /\
  length usedp = length (filter (rerouted c p) (ejts b)) /\ NoDup usedp /\
  (forall t a, In (t, a) arcs -> efind g1 a = Some (mkE [l_latch c] [] (EAssign (asg_of c t)))).

Lemma le_blocks_spec : forall todo g names g1 names1,
  le_blocks c g todo names = Ok (g1, names1) ->
  NoDup todo -> NoDup names -> (forall a, In a names -> ~ In a todo) ->
  (forall p, In p todo -> exists b, efind g p = Some b /\ (nonbranch b \/ filter (rerouted c p) (ejts b) = [])) ->
  exists used,
    names = used ++ names1 /\
    (forall x, ~ In x todo -> ~ In x used -> efind g1 x = efind g x) /\
    (forall p, In p todo -> exists b usedp, efind g p = Some b /\ BlockDone g1 p b usedp /\
                                           (forall a, In a usedp -> In a used)).
Proof.
  induction todo as [|p rest IH]; intros g names g1 names1 H Htd Hnd Hfresh Hall.
  - cbn in H. injection H as <- <-. exists []. split; [reflexivity|]. split; [auto|intros p []].
  - cbn [le_blocks] in H. inversion Htd as [|? ? Hpr Htd']; subst.
    destruct (Hall p (or_introl eq_refl)) as [b [Hb Hcase]]. rewrite Hb in H.
    destruct (le_targets c g p (ejts b) (ejts b) names) as [[[g1' new_jt] names1']| |] eqn:Ht; try discriminate.
    assert (Hpn : ~ In p names) by (intros Hi; apply (Hfresh p Hi); left; reflexivity).
    (* what the inner loop did, in both cases *)
    assert (Hstep : exists usedp b0,
              names = usedp ++ names1' /\ efind g1' p = Some b0 /\
              (forall jt, replace_jt b0 jt = replace_jt b jt \/
                          (replace_jt b0 jt = Some (mkE jt (e_be b) (e_kind b)) /\ replace_jt b jt = Some (mkE jt (e_be b) (e_kind b)))) /\
              (forall x, x <> p -> ~ In x usedp -> efind g1' x = efind g x) /\
              length usedp = length (filter (rerouted c p) (ejts b)) /\
              new_jt = subst_all (combine (filter (rerouted c p) (ejts b)) usedp) (ejts b) /\
              (forall t a, In (t, a) (combine (filter (rerouted c p) (ejts b)) usedp) ->
                           efind g1' a = Some (mkE [l_latch c] [] (EAssign (asg_of c t))))).
    { destruct Hcase as [Hnb|Hnone].
      - destruct (le_targets_spec c p _ _ _ _ _ _ _ b Ht Hb Hnb Hnd Hpn)
          as [usedp [bp1 [Hn [Hp1 [Hbe [Hk [Hoth [Hlen [Hjt Hasg]]]]]]]]].
        exists usedp, bp1. split; [exact Hn|]. split; [exact Hp1|]. split.
        + intros jt. right. assert (Hnb1 : nonbranch bp1) by (unfold nonbranch; rewrite Hk; exact Hnb).
          rewrite (replace_jt_nonbranch bp1 jt Hnb1), (replace_jt_nonbranch b jt Hnb), Hbe, Hk. auto.
        + auto.
      - rewrite (le_targets_noop c p _ g (ejts b) names Hnone) in Ht. injection Ht as <- <- <-.
        exists [], b. rewrite Hnone. cbn. split; [reflexivity|]. split; [exact Hb|]. split; [intros jt; left; reflexivity|].
        split; [auto|]. split; [reflexivity|]. split; [reflexivity|intros t a []]. }
    destruct Hstep as [usedp [b0 [Hn [Hp1 [Hrj [Hoth [Hlen [Hjt Hasg]]]]]]]].
    destruct (dpop g1' p) as [[b0' g2]|] eqn:Hpop; [|discriminate].
    assert (b0' = b0) by (apply dpop_value in Hpop; unfold efind in Hp1; congruence). subst b0'.
    destruct (replace_jt b0 new_jt) as [b1|] eqn:Hr1; [|discriminate].
    assert (Hrb : replace_jt b new_jt = Some b1).
    { destruct (Hrj new_jt) as [E|[E1 E2]]; [rewrite <- E; exact Hr1|congruence]. }
    assert (Hf3 : forall x, efind (dset g2 p b1) x = if Z.eqb x p then Some b1 else efind g1' x).
    { intros x. unfold efind. rewrite zassoc_dset. destruct (Z.eqb x p) eqn:E; [reflexivity|].
      apply Z.eqb_neq in E. eapply zassoc_dpop; eauto. }
    assert (Hnd1 : NoDup names1') by (rewrite Hn in Hnd; apply nodup_app_r in Hnd; exact Hnd).
    assert (Hfresh1 : forall a, In a names1' -> ~ In a rest).
    { intros a Ha Hi. apply (Hfresh a); [rewrite Hn; apply in_or_app; right; exact Ha|right; exact Hi]. }
    assert (Hup : forall a, In a usedp -> In a names) by (intros a Ha; rewrite Hn; apply in_or_app; left; exact Ha).
    assert (Hsame : forall q, In q rest -> efind (dset g2 p b1) q = efind g q).
    { intros q Hq. rewrite Hf3. destruct (Z.eqb q p) eqn:E; [apply Z.eqb_eq in E; subst; contradiction|].
      apply Hoth; [apply Z.eqb_neq; exact E|]. intros Hi. apply (Hfresh q (Hup q Hi)). right. exact Hq. }
    assert (Hall1 : forall q, In q rest -> exists bq, efind (dset g2 p b1) q = Some bq /\
                                                     (nonbranch bq \/ filter (rerouted c q) (ejts bq) = [])).
    { intros q Hq. destruct (Hall q (or_intror Hq)) as [bq [Hbq Hcq]]. exists bq. rewrite (Hsame q Hq). auto. }
    destruct (IH _ _ _ _ H Htd' Hnd1 Hfresh1 Hall1) as [usedr [Hn1 [Hoth1 Hdone1]]].
    exists (usedp ++ usedr). split; [rewrite Hn, Hn1, app_assoc; reflexivity|]. split; [|].
    + intros x Hx Hxu. rewrite Hoth1; [|intros Hi; apply Hx; right; exact Hi|intros Hi; apply Hxu; apply in_or_app; right; exact Hi].
      rewrite Hf3. destruct (Z.eqb x p) eqn:E; [apply Z.eqb_eq in E; subst; exfalso; apply Hx; left; reflexivity|].
      apply Hoth; [apply Z.eqb_neq; exact E|intros Hi; apply Hxu; apply in_or_app; left; exact Hi].
    + (* names consumed later are not those consumed here *)
      assert (Hdisj : forall a, In a usedp -> ~ In a usedr).
      { intros a Ha Hr. rewrite Hn, Hn1 in Hnd. clear -Hnd Ha Hr.
        induction usedp as [|u us IHu]; [destruct Ha|]. cbn in Hnd. inversion Hnd as [|? ? Hu Hnd']; subst.
        destruct Ha as [->|Ha]; [apply Hu; apply in_or_app; right; apply in_or_app; left; exact Hr|auto]. }
      intros q [<-|Hq].
      * exists b, usedp. split; [exact Hb|]. split; [|intros a Ha; apply in_or_app; left; exact Ha].
        assert (Hkeep : forall x, (x = p \/ In x usedp) -> efind g1 x = efind (dset g2 p b1) x).
        { intros x Hx. apply Hoth1.
          - intros Hi. destruct Hx as [->|Hx]; [contradiction|]. apply (Hfresh x (Hup x Hx)). right. exact Hi.
          - intros Hi. destruct Hx as [->|Hx]; [|exact (Hdisj x Hx Hi)].
            apply (Hfresh p); [rewrite Hn, Hn1; apply in_or_app; right; apply in_or_app; left; exact Hi|left; reflexivity]. }
        unfold BlockDone. split; [|split; [exact Hlen|split; [rewrite Hn in Hnd; apply nodup_app_l in Hnd; exact Hnd|]]].
        -- exists b1. split; [rewrite (Hkeep p (or_introl eq_refl)), Hf3, Z.eqb_refl; reflexivity|].
           rewrite <- Hjt. exact Hrb.
        -- intros t a Hin. assert (Ha : In a usedp) by (apply in_combine_r in Hin; exact Hin).
           rewrite (Hkeep a (or_intror Ha)), Hf3.
           destruct (Z.eqb a p) eqn:E; [apply Z.eqb_eq in E; subst; exfalso; apply Hpn; apply Hup; exact Ha|].
           apply Hasg. exact Hin.
      * destruct (Hdone1 q Hq) as [bq [usedq [Hbq [Hd Hsub]]]]. exists bq, usedq.
        split; [|split; [exact Hd|intros a Ha; apply in_or_app; right; apply Hsub; exact Ha]].
        rewrite (Hsame q Hq) in Hbq. exact Hbq.
Qed.
End Blocks.

(* Conserve.v — property C05 for the individual edits, universally: an original
   block is still there afterwards, still an original block with the same
   payload class, the same number of successors, and each successor unchanged
   or renamed to a block (or region) that the edit inserted.  Corollaries of the
   positional specifications used for the path theorems. *)
From Coq Require Import List ZArith Bool Lia.
Import ListNotations.
From V Require Import Valid.Hier Model.Graph Model.Edits Model.Edits2 Model.Edits3 Model.LoopEdit Model.LoopSpec
                      Model.JoinPath Model.Refine Model.CbPath Model.LoopPath Model.Extract Model.ExtractPath.
Local Open Scope Z_scope.

(* header unification *)
Theorem cb_conserves g top new var preds Ss names cls g' :
  NoDup preds /\ ~ In new preds ->
  (NoDup names /\ forall a, In a names -> efind g a = None /\ a <> new /\ ~ In a preds /\ ~ In a Ss /\ a <> top) ->
  (forall p b, In p preds -> efind g p = Some b ->
      NoDup (e_jt b) /\ (forall a, In a names -> ~ In a (e_jt b)) /\
      (forall c v t, e_kind b = EBranch c v t -> NoDup (map fst t))) ->
  efind g new = None ->
  insert_cb g new var preds Ss names cls = Ok g' ->
  forall x b c, efind g x = Some b -> e_kind b = EPlain c ->
    exists b', efind g' x = Some b' /\ e_kind b' = EPlain c /\ e_be b' = e_be b /\
      length (e_jt b') = length (e_jt b) /\
      forall k s t', nth_error (e_jt b) k = Some s -> nth_error (e_jt b') k = Some t' -> t' = s \/ In t' names.
Proof.
  intros Hpreds Hnames Hpjt Hnew Hcb x b c Hb Hk.
  destruct (CbPath.spec g top new var preds Ss names cls g' Hpreds Hnames Hpjt Hcb) as [tbl [_ [Hp Ho]]].
  destruct (in_dec Z.eq_dec x preds) as [Hin|Hnin].
  - destruct (Hp x Hin) as [b0 [b' [Hb0 [Hb' [Hlen [Hbe [Hrj [_ Hpos]]]]]]]]. rewrite Hb in Hb0. injection Hb0 as <-.
    exists b'. split; [exact Hb'|]. pose proof (CbPath.replace_jt_kind b _ b' Hrj) as Hkind. rewrite Hk in Hkind.
    split; [exact Hkind|]. split; [exact Hbe|]. split; [symmetry; exact Hlen|].
    intros k s t' Hs Ht'. destruct (Hpos k s t' Hs Ht') as [Q1 Q2].
    destruct (in_dec Z.eq_dec s Ss) as [HS|HS]; [right; apply (Q2 HS)|left; apply (Q1 HS)].
  - exists b. assert (Hx : efind g' x = Some b).
    { rewrite Ho; [exact Hb|intros ->; congruence|exact Hnin|].
      intros Hi. destruct (proj2 Hnames x Hi) as [A _]. congruence. }
    split; [exact Hx|]. split; [exact Hk|]. split; [reflexivity|]. split; [reflexivity|].
    intros k s t' Hs Ht'. left. congruence.
Qed.

(* region extraction: a block keeps its kind and arity; a successor is kept or becomes the new region *)
Theorem extract_conserves hd rname h lvl blocks entries ex rk h' :
  rname <> hd ->
  extract h lvl blocks entries hd ex rk rname = XOk h' ->
  find h rname = None ->
  (forall x n, find h x = Some n -> is_region n = false -> Good hd rname n) ->
  (exists nl, find h lvl = Some nl /\ is_region nl = true) ->
  (exists rank : name -> nat,
     (forall x n rk0 h0 e0 c0 p0 o0, find h x = Some n -> n_kind n = KRegion rk0 h0 e0 c0 p0 o0 -> (rank h0 < rank x)%nat) /\
     (rank hd < rank lvl)%nat) ->
  forall x n p, find h x = Some n -> n_kind n = KOrig p ->
    exists n', find h' x = Some n' /\ n_kind n' = KOrig p /\ length (n_jt n') = length (n_jt n) /\
      forall k t t', nth_error (n_jt n) k = Some t -> nth_error (n_jt n') k = Some t' -> t' = t \/ (t = hd /\ t' = rname).
Proof.
  intros Hne Hx Hfresh HGood Hlvl Hrank x n p Hn Hk.
  destruct (node_after hd rname Hne h lvl blocks entries ex rk h' Hx Hfresh HGood Hlvl Hrank x n Hn) as [n' [Hn' [A _]]].
  assert (Hl : is_region n = false) by (unfold is_region; rewrite Hk; reflexivity).
  destruct (A Hl) as [[_ [[Hlen Hpos] K]] _]. exists n'. split; [exact Hn'|].
  unfold KindRel in K. rewrite Hk in K. destruct (n_kind n'); try contradiction. subst.
  split; [reflexivity|]. split; [symmetry; exact Hlen|exact Hpos].
Qed.

(* loop rotation (any number of headers: the statement is about LoopEdit.loop_rotate) *)
Section Rotate.
Variables (g : egraph) (top hd : name) (headers exits todo : list name) (unified : bool)
          (header_tbl : list (Z * name)) (isback : name -> name -> bool)
          (latch sexit : name) (ev bv : Z) (names : list name) (g' : egraph).
Let needs : bool := match exits with _ :: _ :: _ => true | _ => false end.
Hypothesis Hrot : loop_rotate g hd headers exits todo unified header_tbl isback latch sexit ev bv names = Ok g'.
Hypothesis Htodo : NoDup todo /\
  forall p, In p todo -> exists b, efind g p = Some b /\ e_be b = [] /\ NoDup (e_jt b) /\
                                   (forall a, In a names -> ~ In a (e_jt b)) /\
                                   (nonbranch b \/
                                    forall t, In t (e_jt b) -> zmem t exits = false /\ zmem t headers && isback p t = false).
Hypothesis Hnames : NoDup names /\
  forall a, In a names -> efind g a = None /\ ~ In a todo /\ a <> latch /\ a <> sexit /\ a <> top.
Hypothesis Hlatch : efind g latch = None /\ latch <> top /\ ~ In latch todo.
Hypothesis Hsexit : needs = true -> efind g sexit = None /\ sexit <> latch /\ sexit <> top /\ ~ In sexit todo.
Hypothesis Htop : ~ In top (ekeys g).

Theorem rotate_conserves : forall x b c, efind g x = Some b -> e_kind b = EPlain c ->
  exists b', efind g' x = Some b' /\ e_kind b' = EPlain c /\ e_be b' = e_be b /\
    length (e_jt b') = length (e_jt b) /\
    forall k t t', nth_error (e_jt b) k = Some t -> nth_error (e_jt b') k = Some t' -> t' = t \/ In t' names.
Proof.
  intros x b c Hb Hk.
  destruct (LoopPath.rot_parts g top hd headers exits todo unified header_tbl isback latch sexit ev bv names g' Hrot)
    as [xt [g1 [rest [Hxt [Hblocks Hg']]]]].
  assert (Hx : In x (ekeys g)) by (eapply efind_keys; eauto).
  destruct (in_dec Z.eq_dec x todo) as [Hin|Hnin].
  - destruct (LoopPath.processed g top hd headers exits todo unified header_tbl isback latch sexit ev bv names g'
               Htodo Hnames Hlatch Hsexit Htop xt g1 rest Hblocks Hg' x Hin)
      as [b0 [usedp [b' [Hb0 [Hbe [Hnd [Hlen [Hun [Hndu [Hb' [Hrj _]]]]]]]]]]].
    rewrite Hb in Hb0. injection Hb0 as <-.
    assert (Hnb : nonbranch b) by (intros cc v t E0; congruence).
    rewrite (replace_jt_nonbranch b _ Hnb) in Hrj. injection Hrj as <-.
    eexists. split; [exact Hb'|]. cbn [e_kind e_be e_jt]. split; [exact Hk|]. split; [reflexivity|].
    split; [apply subst_all_length|].
    intros k t t' Ht Ht'.
    destruct (proj2 Htodo x Hin) as [b1 [Hb1 [_ [_ [Hfr _]]]]]. rewrite Hb in Hb1. injection Hb1 as <-.
    cbn [e_jt] in Ht'.
    match type of Ht' with nth_error (subst_all (combine (filter (rerouted ?cc x) _) _) _) _ = _ => set (c0 := cc) in * end.
    assert (Hpp : nth_error (subst_all (combine (filter (rerouted c0 x) (e_jt b)) usedp) (e_jt b)) k =
                  Some (match passoc t (combine (filter (rerouted c0 x) (e_jt b)) usedp) with Some a => a | None => t end)).
    { apply subst_all_pos; try assumption.
      - rewrite LoopPath.map_snd_combine by (symmetry; exact Hlen). exact Hndu.
      - rewrite LoopPath.map_fst_combine by (symmetry; exact Hlen). apply LoopPath.nodup_filter. exact Hnd.
      - intros a Ha. rewrite LoopPath.map_snd_combine in Ha by (symmetry; exact Hlen).
        split; [apply Hfr; apply Hun; exact Ha|].
        rewrite LoopPath.map_fst_combine by (symmetry; exact Hlen). intros Hi. apply filter_In in Hi as [Hi _].
        apply (Hfr a (Hun a Ha)). exact Hi. }
    rewrite Hpp in Ht'. injection Ht' as <-.
    destruct (passoc t _) as [a|] eqn:Hpa; [right|left; reflexivity].
    apply passoc_combine_in in Hpa. apply Hun. apply in_combine_r in Hpa. exact Hpa.
  - exists b. split.
    + rewrite (LoopPath.untouched g top hd headers exits todo unified header_tbl isback latch sexit ev bv names g'
                 Htodo Hnames Hlatch Hsexit Htop xt g1 rest Hblocks Hg' x Hx Hnin). exact Hb.
    + split; [exact Hk|]. split; [reflexivity|]. split; [reflexivity|]. intros k t t' Ht Ht'. left. congruence.
Qed.

(* property C03 for one loop: after the rotation no processed or untouched block of the loop jumps
   directly to an exit, or back to a header along an arc classified as a back edge - every such arc
   now ends in an assignment block (which continues to the latch) *)
Theorem rotate_no_direct_arcs (loop : list name) :
  (forall x, In x exits -> In x (ekeys g)) -> (forall x, In x headers -> In x (ekeys g)) ->
  (forall x b t, In x loop -> efind g x = Some b -> In t (e_jt b) ->
     (In t exits \/ (In t headers /\ isback x t = true)) -> In x todo) ->
  (forall p b, In p todo -> efind g p = Some b -> nonbranch b) ->
  forall x b', In x loop -> In x (ekeys g) -> efind g' x = Some b' ->
    forall t', In t' (e_jt b') -> ~ In t' exits /\ ~ (In t' headers /\ isback x t' = true).
Proof.
  intros Hexk Hhdk Hcover Hnbs x b' Hxl Hxk Hb' t' Ht'.
  destruct (LoopPath.rot_parts g top hd headers exits todo unified header_tbl isback latch sexit ev bv names g' Hrot)
    as [xt [g1 [rest [Hxt [Hblocks Hg']]]]].
  assert (Hfreshk : forall a, In a names -> ~ In a (ekeys g)).
  { intros a Ha Hi. destruct (proj2 Hnames a Ha) as [A _]. destruct (keys_efind g a Hi) as [b0 Hb0]. congruence. }
  destruct (in_dec Z.eq_dec x todo) as [Hin|Hnin].
  - destruct (LoopPath.processed g top hd headers exits todo unified header_tbl isback latch sexit ev bv names g'
               Htodo Hnames Hlatch Hsexit Htop xt g1 rest Hblocks Hg' x Hin)
      as [b [usedp [b2 [Hb [Hbe [Hnd [Hlen [Hun [Hndu [Hb2 [Hrj _]]]]]]]]]]].
    rewrite Hb' in Hb2. injection Hb2 as <-.
    rewrite (replace_jt_nonbranch b _ (Hnbs x b Hin Hb)) in Hrj. injection Hrj as <-. cbn [e_jt] in Ht'.
    destruct (proj2 Htodo x Hin) as [b1 [Hb1 [_ [_ [Hfr _]]]]]. rewrite Hb in Hb1. injection Hb1 as <-.
    apply In_nth_error in Ht' as [k Hk].
    match type of Hk with nth_error (subst_all (combine (filter (rerouted ?cc x) _) _) _) _ = _ => set (c0 := cc) in * end.
    destruct (nth_error (e_jt b) k) as [t|] eqn:Ht.
    2:{ exfalso. apply nth_error_None in Ht. rewrite <- (subst_all_length (combine (filter (rerouted c0 x) (e_jt b)) usedp)) in Ht.
        assert (k < length (subst_all (combine (filter (rerouted c0 x) (e_jt b)) usedp) (e_jt b)))%nat
          by (apply nth_error_Some; intros Hc; pose proof (eq_trans (eq_sym Hc) Hk) as X; discriminate X). lia. }
    assert (Hpp : nth_error (subst_all (combine (filter (rerouted c0 x) (e_jt b)) usedp) (e_jt b)) k =
                  Some (match passoc t (combine (filter (rerouted c0 x) (e_jt b)) usedp) with Some a => a | None => t end)).
    { apply subst_all_pos; try assumption.
      - rewrite LoopPath.map_snd_combine by (symmetry; exact Hlen). exact Hndu.
      - rewrite LoopPath.map_fst_combine by (symmetry; exact Hlen). apply LoopPath.nodup_filter. exact Hnd.
      - intros a Ha. rewrite LoopPath.map_snd_combine in Ha by (symmetry; exact Hlen).
        split; [apply Hfr; apply Hun; exact Ha|].
        rewrite LoopPath.map_fst_combine by (symmetry; exact Hlen). intros Hi. apply filter_In in Hi as [Hi _].
        apply (Hfr a (Hun a Ha)). exact Hi. }
    pose proof (eq_trans (eq_sym Hpp) Hk) as Heq. injection Heq as Heq.
    destruct (passoc t (combine (filter (rerouted c0 x) (e_jt b)) usedp)) as [a|] eqn:Hpa.
    + subst t'. apply passoc_combine_in in Hpa. assert (Han : In a names) by (apply Hun; apply in_combine_r in Hpa; exact Hpa).
      split; [intros Hi; exact (Hfreshk a Han (Hexk a Hi))|intros [Hi _]; exact (Hfreshk a Han (Hhdk a Hi))].
    + subst t'. apply passoc_none_combine in Hpa; [|symmetry; exact Hlen].
      assert (Hrr : rerouted c0 x t = false).
      { destruct (rerouted c0 x t) eqn:E0; [|reflexivity]. exfalso. apply Hpa. apply filter_In. split; [eapply nth_error_In; eauto|exact E0]. }
      unfold rerouted, c0 in Hrr. cbn [l_exits l_headers l_isback] in Hrr. apply orb_false_iff in Hrr as [R1 R2].
      split; [apply zmem_false; exact R1|]. intros [Hi Hbk]. apply zmem_In in Hi. rewrite Hi, Hbk in R2. discriminate.
  - rewrite (LoopPath.untouched g top hd headers exits todo unified header_tbl isback latch sexit ev bv names g'
               Htodo Hnames Hlatch Hsexit Htop xt g1 rest Hblocks Hg' x Hxk Hnin) in Hb'.
    split.
    + intros Hi. apply Hnin. eapply Hcover; eauto.
    + intros [Hi Hbk]. apply Hnin. eapply Hcover; eauto.
Qed.
End Rotate.

(* CbRename.v — header unification (Edits2.insert_cb) commutes with a renaming of targets that is
   injective on the names that matter and fixes the successors S, the new head and the fresh names. *)
From Coq Require Import List ZArith Bool Lia.
Import ListNotations.
From V Require Import Valid.Hier Model.Graph Model.Edits Model.Edits2 Model.Edits3 Model.LoopEdit Model.LoopSpec
     Model.Total Model.LoopRename Model.InsRename.
Local Open Scope Z_scope.

Section Rename.
Variable rho : name -> name.
Variable D : name -> Prop.
Hypothesis Hinj : forall a b, D a -> D b -> rho a = rho b -> a = b.
Variables (new : name) (var : Z) (S : list name).
Hypothesis Fnew : rho new = new.
Hypothesis Dnew : D new.
Hypothesis FS : forall s, In s S -> rho s = s /\ D s.

Notation mb := (mapb rho).

Lemma zmem_S t : D t -> zmem (rho t) S = zmem t S.
Proof.
  intros Dt. destruct (zmem t S) eqn:E.
  - apply zmem_In in E. rewrite (proj1 (FS t E)). apply zmem_In. exact E.
  - apply zmem_false. intros Hi. apply zmem_false in E. apply E.
    assert (rho t = t) by (apply Hinj; [apply (FS _ Hi)|exact Dt|apply (FS _ Hi)]). congruence.
Qed.

Lemma filter_S jt : (forall y, In y jt -> D y) ->
  filter (fun t => zmem t S) (map rho jt) = filter (fun t => zmem t S) jt.
Proof.
  induction jt as [|t r IH]; intros Hd; [reflexivity|]. cbn [map filter].
  rewrite (zmem_S t (Hd t (or_introl eq_refl))).
  destruct (zmem t S) eqn:E.
  - apply zmem_In in E. rewrite (proj1 (FS t E)), IH; [reflexivity|]. intros y Hy. apply Hd. right. exact Hy.
  - apply IH. intros y Hy. apply Hd. right. exact Hy.
Qed.

Lemma msnd_S (tbl : list (Z * name)) : (forall p, In p tbl -> In (snd p) S) -> map_snd rho tbl = tbl.
Proof.
  unfold map_snd. induction tbl as [|[k v] r IH]; intros H; [reflexivity|]. cbn [map fst snd].
  rewrite (proj1 (FS v (H (k, v) (or_introl eq_refl)))), IH; [reflexivity|]. intros p Hp. apply H. right. exact Hp.
Qed.

Lemma tset_values (tbl : list (Z * name)) k v : (forall p, In p tbl -> In (snd p) S) -> In v S ->
  forall p, In p (tset tbl k v) -> In (snd p) S.
Proof.
  unfold tset. induction tbl as [|[k' v'] r IH]; intros H Hv p Hp; cbn [dset] in Hp.
  - destruct Hp as [<-|[]]. exact Hv.
  - destruct (Z.eqb k k').
    + destruct Hp as [<-|Hp]; [exact Hv|apply H; right; exact Hp].
    + destruct Hp as [<-|Hp]; [apply (H (k', v')); left; reflexivity|]. apply IH; auto. intros q Hq. apply H. right. exact Hq.
Qed.

(* the keys that matter *)
Variable K : name -> Prop.

Lemma cb_arcs_rho : forall ss (g1 g2 : egraph) jt value tbl names g1' jt1 v1 tbl1 names1,
  cb_arcs g1 new var ss jt value tbl names = Some (g1', jt1, v1, tbl1, names1) ->
  Rel rho K g1 g2 ->
  (forall s, In s ss -> In s S) ->
  (forall y, In y jt -> D y) ->
  (forall a, In a names -> D a /\ rho a = a) ->
  (forall p, In p tbl -> In (snd p) S) ->
  exists g2', cb_arcs g2 new var ss (map rho jt) value tbl names = Some (g2', map rho jt1, v1, tbl1, names1) /\
    Rel rho K g1' g2' /\
    (forall y, In y jt1 -> D y) /\
    (forall p, In p tbl1 -> In (snd p) S) /\
    (forall a, In a names1 -> In a names) /\
    (forall x, ~ In x names -> efind g1' x = efind g1 x /\ efind g2' x = efind g2 x).
Proof.
  induction ss as [|s r IH]; intros g1 g2 jt value tbl names g1' jt1 v1 tbl1 names1 H HR Hss Hdj Hn Ht; cbn [cb_arcs] in H |- *.
  - injection H as <- <- <- <- <-. exists g2. repeat split; auto.
  - destruct names as [|a names']; [discriminate|].
    destruct (Hn a (or_introl eq_refl)) as [Da Fa].
    assert (Hs : In s S) by (apply Hss; left; reflexivity).
    destruct (FS s Hs) as [Fs Ds].
    set (ab := mkE [new] [] (EAssign [(var, value)])) in *.
    assert (Hab : mb ab = ab) by (unfold mapb, ab; cbn; rewrite Fnew; reflexivity).
    assert (Hrf : map rho (replace_first s a jt) = replace_first s a (map rho jt)).
    { rewrite (replace_first_rho rho D Hinj s a jt Ds Hdj), Fs, Fa. reflexivity. }
    rewrite <- Hrf.
    destruct (IH (dset g1 a ab) (dset g2 a ab) _ _ _ _ _ _ _ _ _ H) as [g2' [E2 [R2 [J1 [T1 [S1 Fr]]]]]].
    + rewrite <- Hab at 2. apply rel_dset. exact HR.
    + intros s' Hs'. apply Hss. right. exact Hs'.
    + intros y Hy. apply In_replace_first in Hy as [->|Hy]; [exact Da|apply Hdj; exact Hy].
    + intros a' Ha'. apply Hn. right. exact Ha'.
    + apply tset_values; assumption.
    + exists g2'. split; [exact E2|]. split; [exact R2|]. split; [exact J1|]. split; [exact T1|].
      split; [intros a' Ha'; right; apply S1; exact Ha'|].
      intros x Hx. destruct (Fr x (fun Hi => Hx (or_intror Hi))) as [A B].
      assert (x <> a) by (intros ->; apply Hx; left; reflexivity).
      split; [rewrite A|rewrite B]; unfold efind; rewrite zassoc_dset; destruct (Z.eqb_spec x a); congruence.
Qed.

Lemma cb_preds_rho : forall preds (g1 g2 : egraph) value tbl names g1' tbl',
  cb_preds g1 new var S preds value tbl names = Ok (g1', tbl') ->
  Rel rho K g1 g2 ->
  (forall p, In p preds -> K p) -> (forall a, In a names -> K a) ->
  NoDup preds ->
  (forall p b, In p preds -> efind g1 p = Some b ->
     (forall y, In y (e_jt b) -> D y) /\ (forall c v t, e_kind b = EBranch c v t -> forall q, In q t -> D (snd q))) ->
  (forall a, In a names -> D a /\ rho a = a /\ ~ In a preds) ->
  (forall p, In p tbl -> In (snd p) S) ->
  exists g2', cb_preds g2 new var S preds value tbl names = Ok (g2', tbl') /\ Rel rho K g1' g2' /\
    (forall p, In p tbl' -> In (snd p) S) /\
    (forall x, ~ K x -> efind g1' x = efind g1 x /\ efind g2' x = efind g2 x).
Proof.
  induction preds as [|p rest IH]; intros g1 g2 value tbl names g1' tbl' H HR HKp HKn Hnd Hb Hn Ht; cbn [cb_preds] in H |- *.
  - injection H as <- <-. exists g2. repeat split; auto.
  - destruct (efind g1 p) as [b|] eqn:Hp1; [|discriminate].
    assert (Kp : K p) by (apply HKp; left; reflexivity).
    assert (Hp2 : efind g2 p = Some (mb b)) by (rewrite (HR p Kp), Hp1; reflexivity). rewrite Hp2.
    destruct (Hb p b (or_introl eq_refl) Hp1) as [Hdj Hdt].
    assert (Hmj : e_jt (mb b) = map rho (e_jt b)) by reflexivity. rewrite Hmj. rewrite (filter_S (e_jt b) Hdj).
    destruct (cb_arcs g1 new var (zsort (filter (fun t => zmem t S) (e_jt b))) (e_jt b) value tbl names)
      as [[[[[g1a jt1] v1] tbl1] names1]|] eqn:Ha; [|discriminate].
    destruct (cb_arcs_rho _ g1 g2 _ _ _ _ _ _ _ _ _ Ha HR) as [g2a [E2 [R2 [J1 [T1 [S1 Fr]]]]]].
    + intros s Hs. apply (proj1 (zsort_In _ _)) in Hs. apply filter_In in Hs. apply zmem_In. apply Hs.
    + exact Hdj.
    + intros a Ha0. destruct (Hn a Ha0) as [A [B _]]. auto.
    + exact Ht.
    + rewrite E2.
      destruct (dpop g1a p) as [[b0 g1b]|] eqn:Hpop; [|discriminate].
      assert (Hpn : ~ In p names) by (intros Hi; destruct (Hn p Hi) as [_ [_ C]]; apply C; left; reflexivity).
      assert (Hb0 : efind g1a p = Some b) by (rewrite (proj1 (Fr p Hpn)); exact Hp1).
      assert (b0 = b) by (apply dpop_value in Hpop; unfold efind in Hb0; congruence). subst b0.
      assert (Hb2 : efind g2a p = Some (mb b)) by (rewrite (R2 p Kp), Hb0; reflexivity).
      destruct (dpop_total g2a p (mb b) Hb2) as [g2b Hpop2]. rewrite Hpop2.
      rewrite (replace_jt_rho rho D Hinj b jt1 Hdj J1 Hdt).
      destruct (replace_jt b jt1) as [b'|] eqn:Hr; [|discriminate]. cbn [option_map].
      apply NoDup_cons_iff in Hnd as [Hnp Hnd'].
      assert (Hf1 : forall x, efind (dset g1b p b') x = if Z.eqb x p then Some b' else efind g1a x).
      { intros x. unfold efind. rewrite zassoc_dset. destruct (Z.eqb x p) eqn:E; [reflexivity|]. apply Z.eqb_neq in E. eapply zassoc_dpop; eauto. }
      assert (Hf2 : forall x, efind (dset g2b p (mb b')) x = if Z.eqb x p then Some (mb b') else efind g2a x).
      { intros x. unfold efind. rewrite zassoc_dset. destruct (Z.eqb x p) eqn:E; [reflexivity|]. apply Z.eqb_neq in E. eapply zassoc_dpop; eauto. }
      destruct (IH (dset g1b p b') (dset g2b p (mb b')) v1 tbl1 names1 g1' tbl' H) as [g2' [E' [R' [T' Fr']]]].
      * intros x Kx. rewrite Hf1, Hf2. destruct (Z.eqb x p); [reflexivity|apply R2; exact Kx].
      * intros q Hq. apply HKp. right. exact Hq.
      * intros a Ha0. apply HKn. apply S1. exact Ha0.
      * exact Hnd'.
      * intros q bq Hq Hbq. rewrite Hf1 in Hbq. destruct (Z.eqb_spec q p) as [->|_]; [contradiction|].
        assert (Hqn : ~ In q names) by (intros Hi; destruct (Hn q Hi) as [_ [_ C]]; apply C; right; exact Hq).
        rewrite (proj1 (Fr q Hqn)) in Hbq. apply (Hb q bq (or_intror Hq) Hbq).
      * intros a Ha0. destruct (Hn a (S1 a Ha0)) as [A [B C]]. repeat split; auto. intros Hi. apply C. right. exact Hi.
      * exact T1.
      * exists g2'. split; [exact E'|]. split; [exact R'|]. split; [exact T'|].
        intros x Hx. destruct (Fr' x Hx) as [A B].
        assert (x <> p) by (intros ->; contradiction).
        assert (Hxn : ~ In x names) by (intros Hi; apply Hx; apply HKn; exact Hi).
        destruct (Fr x Hxn) as [A0 B0].
        split; [rewrite A, Hf1|rewrite B, Hf2]; destruct (Z.eqb_spec x p); congruence.
Qed.

Theorem insert_cb_rho (g1 g2 : egraph) preds names cls g1' :
  insert_cb g1 new var preds S names cls = Ok g1' ->
  (forall x, K x <-> In x preds \/ In x names \/ x = new) ->
  Rel rho K g1 g2 ->
  NoDup preds ->
  (forall p b, In p preds -> efind g1 p = Some b ->
     (forall y, In y (e_jt b) -> D y) /\ (forall c v t, e_kind b = EBranch c v t -> forall q, In q t -> D (snd q))) ->
  (forall a, In a names -> D a /\ rho a = a /\ ~ In a preds) ->
  exists g2', insert_cb g2 new var preds S names cls = Ok g2' /\
    (forall x, K x -> efind g2' x = option_map mb (efind g1' x)) /\
    (forall x, ~ K x -> efind g1' x = efind g1 x /\ efind g2' x = efind g2 x).
Proof.
  intros H HK HR Hnd Hb Hn. unfold insert_cb in *.
  destruct (cb_preds g1 new var S preds 0 [] names) as [[g1a tbl]| |] eqn:Hp; try discriminate.
  destruct (cb_preds_rho preds g1 g2 0 [] names g1a tbl Hp HR) as [g2a [E2 [R2 [T2 Fr]]]].
  - intros p Hp0. apply HK. left. exact Hp0.
  - intros a Ha. apply HK. right. left. exact Ha.
  - exact Hnd.
  - exact Hb.
  - exact Hn.
  - intros p [].
  - rewrite E2. injection H as <-.
    set (hb := mkE S [] (EBranch cls var tbl)).
    assert (Hhb : mb hb = hb).
    { unfold mapb, hb. cbn. rewrite (msnd_S tbl T2). f_equal.
      clear -FS. induction S as [|s r IH]; [reflexivity|]. cbn. rewrite (proj1 (FS s (or_introl eq_refl))), IH; [reflexivity|].
      intros s' Hs'. apply FS. right. exact Hs'. }
    eexists. split; [reflexivity|]. split.
    + intros x Kx. unfold efind. rewrite !zassoc_dset. destruct (Z.eqb x new); [cbn; rewrite Hhb; reflexivity|]. apply R2. exact Kx.
    + intros x Hx. assert (x <> new) by (intros ->; apply Hx; apply HK; right; right; reflexivity).
      destruct (Fr x Hx) as [A B]. split; unfold efind in *; rewrite zassoc_dset; destruct (Z.eqb_spec x new); congruence.
Qed.
End Rename.

(* Iter.v — property C16: the breadth-first iterators of SCFG, modelled with the
   same queue discipline (first in, first out; a name is marked seen when it is
   taken from the queue), and the theorem that they enumerate exactly what is
   reachable in the level they walk: every item once, head first, every other
   item after one of its predecessors — for every graph, with no bound. *)
From Coq Require Import List ZArith Bool Lia Permutation.
Import ListNotations.
From V Require Import Valid.Hier Model.Graph.
Local Open Scope Z_scope.

Section BFS.
Variable level : list name.               (* the keys of the graph that is iterated *)
Variable succs : name -> list name.       (* where the iterator continues after an item *)
Variable head : name.

Definition inlevel (x : name) : bool := zmem x level.

(* out is kept in reverse order *)
Fixpoint bfs (fuel : nat) (todo seen out : list name) : option (list name) :=
  match fuel with
  | O => None
  | S f =>
    match todo with
    | [] => Some (rev out)
    | x :: rest =>
      if zmem x seen then bfs f rest seen out
      else if inlevel x then bfs f (rest ++ succs x) (x :: seen) (x :: out)
           else bfs f rest (x :: seen) out
    end
  end.

Definition weight (seen : list name) : nat :=
  fold_right (fun c acc => if zmem c seen then acc else (length (succs c) + acc)%nat) O level.

Definition bound : nat := S (S (weight [])).

Definition view : option (list name) := bfs bound [head] [] [].

(* x comes after one of its predecessors in l *)
Definition Before (l : list name) (x : name) : Prop :=
  exists l1 l2 p, l = l1 ++ x :: l2 /\ In p l1 /\ In x (succs p).

Definition succs_in (x : name) : list name := filter inlevel (succs x).

Hypothesis Hnd : NoDup level.
Hypothesis Hhead : inlevel head = true.

Record Inv (todo seen out : list name) : Prop := {
  i_nodup : NoDup out;
  i_out : forall x, In x out -> inlevel x = true /\ In x seen;
  i_seen : forall x, In x seen -> inlevel x = true -> In x out;
  i_todo : forall x, In x todo -> x = head \/ exists p, In p out /\ In x (succs p);
  i_closed : forall x t, In x out -> In t (succs x) -> In t seen \/ In t todo;
  i_head : In head out \/ In head todo;
  i_before : forall x, In x out -> x = head \/ Before (rev out) x;
  i_first : out <> [] -> last out 0 = head;
  i_start : out = [] -> todo = [head] /\ seen = []
}.

Lemma before_snoc l y x : Before l x -> Before (l ++ [y]) x.
Proof.
  intros [l1 [l2 [p [E [Hp Hx]]]]]. exists l1, (l2 ++ [y]), p. subst.
  rewrite <- app_assoc. auto.
Qed.

Lemma inv_init : Inv [head] [] [].
Proof.
  constructor.
  - constructor.
  - intros y [].
  - intros y [].
  - intros y [<-|[]]. left; reflexivity.
  - intros y t [].
  - right. left. reflexivity.
  - intros y [].
  - intros H. contradiction.
  - auto.
Qed.

Lemma inv_step x rest seen out :
  Inv (x :: rest) seen out ->
  if zmem x seen then Inv rest seen out
  else if inlevel x then Inv (rest ++ succs x) (x :: seen) (x :: out)
       else Inv rest (x :: seen) out.
Proof.
  intros [H1 H2 H3 H4 H5 H6 H7 H8 H9].
  destruct (zmem x seen) eqn:Hs.
  - apply zmem_In in Hs. constructor; auto.
    + intros y Hy. apply H4. right. exact Hy.
    + intros y t Hy Ht. destruct (H5 y t Hy Ht) as [A|[A|A]]; auto. subst. auto.
    + destruct H6 as [A|[A|A]]; auto. subst. left. apply H3; auto.
    + intros E. destruct (H9 E) as [_ E2]. subst. destruct Hs.
  - apply zmem_false in Hs. destruct (inlevel x) eqn:Hl.
    + constructor.
      * constructor; [|exact H1]. intros Hin. apply Hs. apply (H2 x Hin).
      * intros y [<-|Hy]; [split; [exact Hl|left; reflexivity]|].
        destruct (H2 y Hy). split; [assumption|right; assumption].
      * intros y [<-|Hy] Hly; [left; reflexivity|right; auto].
      * intros y Hy. apply in_app_or in Hy as [Hy|Hy].
        -- destruct (H4 y (or_intror Hy)) as [A|[p [A B]]]; [left; exact A|].
           right. exists p. split; [right; exact A|exact B].
        -- right. exists x. split; [left; reflexivity|exact Hy].
      * intros y t [<-|Hy] Ht.
        -- right. apply in_or_app. right. exact Ht.
        -- destruct (H5 y t Hy Ht) as [A|[A|A]].
           ++ left. right. exact A.
           ++ subst. left. left. reflexivity.
           ++ right. apply in_or_app. left. exact A.
      * destruct H6 as [A|[A|A]].
        -- left. right. exact A.
        -- subst. left. left. reflexivity.
        -- right. apply in_or_app. left. exact A.
      * intros y [<-|Hy].
        -- destruct (H4 x (or_introl eq_refl)) as [A|[p [A B]]]; [left; exact A|].
           right. cbn [rev]. exists (rev out), [], p.
           split; [reflexivity|]. split; [apply in_rev in A; exact A|exact B].
        -- destruct (H7 y Hy) as [A|A]; [left; exact A|]. right. cbn [rev]. apply before_snoc. exact A.
      * intros _. destruct out as [|o r].
        -- destruct (H9 eq_refl) as [E _]. injection E as -> _. reflexivity.
        -- change (last (x :: o :: r) 0) with (last (o :: r) 0). apply H8. discriminate.
      * discriminate.
    + constructor; auto.
      * intros y Hy. destruct (H2 y Hy). split; [assumption|right; assumption].
      * intros y [<-|Hy] Hly; [congruence|auto].
      * intros y Hy. apply H4. right. exact Hy.
      * intros y t Hy Ht. destruct (H5 y t Hy Ht) as [A|[A|A]].
        -- left. right. exact A.
        -- subst. left. left. reflexivity.
        -- right. exact A.
      * destruct H6 as [A|[A|A]]; auto. subst. congruence.
      * intros E. destruct (H9 E) as [E2 _]. injection E2 as -> _. congruence.
Qed.

Lemma bfs_sound fuel : forall todo seen out l,
  Inv todo seen out -> bfs fuel todo seen out = Some l ->
  exists seen' out', l = rev out' /\ Inv [] seen' out'.
Proof.
  induction fuel as [|f IH]; intros todo seen out l Hinv; cbn [bfs]; [discriminate|].
  destruct todo as [|x rest].
  - intros [= <-]. exists seen, out. auto.
  - pose proof (inv_step x rest seen out Hinv) as Hs.
    destruct (zmem x seen); [apply IH; exact Hs|].
    destruct (inlevel x); apply IH; exact Hs.
Qed.

(* ---------- the fuel is always enough ---------- *)
Lemma weight_cons x seen :
  In x level -> ~ In x seen -> (weight (x :: seen) + length (succs x) = weight seen)%nat.
Proof.
  unfold weight. clear Hhead. induction level as [|c r IH]; intros Hin Hns; [destruct Hin|].
  inversion Hnd as [|? ? Hc Hnd']; subst. cbn [fold_right].
  destruct Hin as [->|Hin].
  - assert (E1 : zmem x (x :: seen) = true) by (apply zmem_In; left; reflexivity).
    assert (E2 : zmem x seen = false) by (apply zmem_false; exact Hns).
    rewrite E1, E2.
    (* x does not occur in r: the rest of the sum is unchanged *)
    assert (Hsame : forall l, ~ In x l ->
              fold_right (fun c acc => if zmem c (x :: seen) then acc else (length (succs c) + acc)%nat) O l =
              fold_right (fun c acc => if zmem c seen then acc else (length (succs c) + acc)%nat) O l).
    { induction l as [|d l IHl]; intros Hd; [reflexivity|]. cbn [fold_right].
      assert (d <> x) by (intros ->; apply Hd; left; reflexivity).
      assert (E : zmem d (x :: seen) = zmem d seen).
      { unfold zmem. cbn [existsb]. destruct (Z.eqb d x) eqn:Ed; [apply Z.eqb_eq in Ed; contradiction|reflexivity]. }
      rewrite E, IHl; [reflexivity|]. intros Hi. apply Hd. right. exact Hi. }
    rewrite (Hsame r Hc). lia.
  - assert (c <> x) by (intros ->; contradiction).
    assert (E : zmem c (x :: seen) = zmem c seen).
    { unfold zmem. cbn [existsb]. destruct (Z.eqb c x) eqn:Ed; [apply Z.eqb_eq in Ed; contradiction|reflexivity]. }
    rewrite E. specialize (IH Hnd' Hin Hns). destruct (zmem c seen); lia.
Qed.

Lemma weight_out x seen : inlevel x = false -> weight (x :: seen) = weight seen.
Proof.
  unfold weight, inlevel. intros Hx. apply zmem_false in Hx. clear Hnd Hhead.
  induction level as [|c r IH]; [reflexivity|]. cbn [fold_right].
  assert (c <> x) by (intros ->; apply Hx; left; reflexivity).
  assert (E : zmem c (x :: seen) = zmem c seen).
  { unfold zmem. cbn [existsb]. destruct (Z.eqb c x) eqn:Ed; [apply Z.eqb_eq in Ed; contradiction|reflexivity]. }
  rewrite E, IH; [reflexivity|]. intros Hi. apply Hx. right. exact Hi.
Qed.

Lemma bfs_total fuel : forall todo seen out,
  (length todo + weight seen < fuel)%nat -> bfs fuel todo seen out <> None.
Proof.
  induction fuel as [|f IH]; intros todo seen out Hlt; [lia|]. cbn [bfs].
  destruct todo as [|x rest]; [discriminate|]. cbn [length] in Hlt.
  destruct (zmem x seen) eqn:Hs; [apply IH; lia|].
  apply zmem_false in Hs. destruct (inlevel x) eqn:Hl.
  - apply IH. rewrite app_length.
    assert (Hin : In x level) by (apply zmem_In; exact Hl).
    pose proof (weight_cons x seen Hin Hs). lia.
  - apply IH. rewrite (weight_out x seen Hl). lia.
Qed.

Theorem view_spec :
  exists l, view = Some l /\ NoDup l /\ hd_error l = Some head /\
    (forall x, In x l -> In x level) /\
    (forall x, Reach succs_in head x -> In x l) /\
    (forall x, In x l -> x = head \/ Before l x).
Proof.
  unfold view. destruct (bfs bound [head] [] []) as [l|] eqn:E.
  - exists l. split; [reflexivity|].
    destruct (bfs_sound _ _ _ _ _ inv_init E) as [seen [out [-> Hinv]]].
    destruct Hinv as [H1 H2 H3 H4 H5 H6 H7 H8 H9].
    assert (Hh : In head out) by (destruct H6 as [A|[]]; exact A).
    split; [apply NoDup_rev; exact H1|]. split.
    + destruct out as [|o r]; [destruct Hh|]. specialize (H8 ltac:(discriminate)).
      clear -H8. revert o H8. induction r as [|a r IH]; intros o H8; cbn in *; [congruence|].
      specialize (IH a H8). cbn [rev] in *. destruct (rev r ++ [a]) eqn:Er; [destruct (rev r); discriminate|].
      cbn in *. exact IH.
    + split; [intros x Hx; apply in_rev in Hx; apply zmem_In; apply (H2 x Hx)|]. split.
      * intros x Hr. apply (proj1 (in_rev out x)).
        remember head as h0 eqn:Eh in Hr.
        induction Hr as [a|a b c Hr IH Hc]; [subst; exact Hh|].
        specialize (IH Eh).
        unfold succs_in in Hc. apply filter_In in Hc as [Hc Hlc].
        destruct (H5 b c IH Hc) as [A|[]]. apply H3; assumption.
      * intros x Hx. apply in_rev in Hx. apply H7. exact Hx.
  - exfalso. revert E. apply bfs_total. unfold bound. cbn [length]. lia.
Qed.

Corollary view_permutation :
  (forall x, In x level -> Reach succs_in head x) ->
  exists l, view = Some l /\ Permutation l level /\ hd_error l = Some head.
Proof.
  intros Hconn. destruct view_spec as [l [E [Hnd' [Hhd [Hsub [Hall _]]]]]].
  exists l. split; [exact E|]. split; [|exact Hhd].
  apply NoDup_Permutation; auto. intros x. split; [apply Hsub|]. intros Hx. apply Hall. apply Hconn. exact Hx.
Qed.

End BFS.

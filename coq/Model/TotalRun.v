(* TotalRun.v — the correspondence drivers for extract_region and
   insert_block_and_control_blocks on hierarchies, extended by one column: does
   the recorded call meet the precondition of the totality theorem
   (Total2.extract_total / insert_cb_h_total)? *)
From Coq Require Import List ZArith Bool.
Import ListNotations.
From V Require Import Valid.Hier Model.Graph Model.Edits Model.Extract Model.CbHier Model.Total2 Model.Applic Model.LoopHierApplic.
Local Open Scope Z_scope.

Definition pre_of_extract (rows : list (list Z)) : Z :=
  let '(br, ar, op, st) := split_x rows in
  match decode br, op with
  | Some (_, h), lvl :: hd :: ex :: rk :: rname :: r =>
    match take_list r with
    | Some (blocks, r1) =>
      match take_list r1 with
      | Some (entries, []) => if pre_extract h lvl entries ex then 1 else 0
      | _ => 0
      end
    | None => 0
    end
  | _, _ => 0
  end.

(* do the hypotheses of the universal path theorem (Applic.extract_keeps_walks_b) hold for this call, and is
   the model's result fit for flattening (so that "equal to the implementation's result up to the order of
   the node list" means "the same walks": HierEquiv.compared_equal_same_walks)? *)
Definition walk_of_extract (rows : list (list Z)) : Z :=
  let '(br, ar, op, st) := split_x rows in
  match decode br, op with
  | Some (_, h), lvl :: hd :: ex :: rk :: rname :: r =>
    if walk_pre_extract h lvl hd rname &&
       match take_list r with
       | Some (blocks, r1) =>
         match take_list r1 with
         | Some (entries, []) =>
           match extract h lvl blocks entries hd ex rk rname with
           | XOk h' => flat_okb h' (-1) true
           | _ => true
           end
         | _ => false
         end
       | None => false
       end
    then 1 else 0
  | _, _ => 0
  end.

Definition run_extract2 (rows : list (list Z)) : list Z :=
  run_extract rows ++ [pre_of_extract rows; walk_of_extract rows].

Definition pre_of_cbh (rows : list (list Z)) : Z :=
  let '(br, ar, op, st) := split_cbh rows in
  match decode br, op with
  | Some (_, h), lvl :: new :: var :: r =>
    match take_list r with
    | Some (preds, r1) =>
      match take_list r1 with
      | Some (Ss, r2) =>
        match take_list r2 with
        | Some (names, []) => if pre_cbh h lvl preds Ss names then 1 else 0
        | _ => 0
        end
      | None => 0
      end
    | None => 0
    end
  | _, _ => 0
  end.

Definition walk_of_cbh (rows : list (list Z)) : Z :=
  let '(br, ar, op, st) := split_cbh rows in
  match decode br, op with
  | Some (_, h), lvl :: new :: var :: r =>
    match take_list r with
    | Some (preds, r1) =>
      match take_list r1 with
      | Some (Ss, r2) =>
        match take_list r2 with
        | Some (names, []) =>
          if walk_pre_cbh h lvl new var preds Ss names &&
             match insert_cb_h h lvl new var preds Ss names with
             | XOk h' => flat_okb h' (-1) true
             | _ => true
             end
          then 1 else 0
        | _ => 0
        end
      | None => 0
      end
    | None => 0
    end
  | _, _ => 0
  end.

Definition run_cbh2 (rows : list (list Z)) : list Z := run_cbh rows ++ [pre_of_cbh rows; walk_of_cbh rows].

(* Serial2Run.v — C15 drivers: the dictionary comparison of Serial.run_c15,
   extended by the decision whether the written hierarchy meets the hypothesis
   of the round-trip theorem (Serial2Proof.closedb). *)
From Coq Require Import List ZArith Bool.
Import ListNotations.
From V Require Import Valid.Hier Model.Serial Model.Serial2 Model.Serial2Proof.
Local Open Scope Z_scope.

(* answer: [dictionary = model's to_dict; class codes and names fine; hierarchy closed] *)
Definition run_c15b (rows : list (list Z)) : list Z :=
  let '(hr, _) := split_c15 rows in
  run_c15 rows ++ [match decode hr with Some (_, h) => if closedb h then 1 else 0 | None => 0 end].

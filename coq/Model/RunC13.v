(* RunC13.v — correspondence driver for C13: the implementation's answers to
   the graph queries (exported as rows) are compared with the model /
   reference definitions of Queries.v.  One result per query row:
   1 = agree, 0 = disagree. *)
From Coq Require Import List ZArith Bool.
Import ListNotations.
From V Require Import Valid.Hier Model.Graph Model.Queries Model.Dfs.
Local Open Scope Z_scope.

Definition decode_graph_row (row : list Z) : option (name * blk) :=
  match row with
  | 20 :: nm :: r =>
    match take_list r with
    | Some (jt, r1) => match take_list r1 with
                       | Some (be, []) => Some (nm, mkBlk jt be)
                       | _ => None end
    | None => None
    end
  | _ => None
  end.

Fixpoint split_rows (rows : list (list Z)) : graph * list (list Z) :=
  match rows with
  | [] => ([], [])
  | row :: rest =>
    let '(g, q) := split_rows rest in
    match decode_graph_row row with
    | Some nb => (nb :: g, q)
    | None => (g, row :: q)
    end
  end.

Fixpoint take_lists (n : nat) (l : list Z) : option (list (list Z) * list Z) :=
  match n with
  | O => Some ([], l)
  | S n' => match take_list l with
            | Some (a, r) => match take_lists n' r with
                             | Some (b, r') => Some (a :: b, r')
                             | None => None end
            | None => None
            end
  end.

Definition b2z (b : bool) : Z := if b then 1 else 0.

Definition table_ok (tbl : option (list (name * list name))) (b : name) (ds : list name) : bool :=
  match tbl with
  | Some t => match zassoc b t with Some ds' => list_eqb ds ds' | None => false end
  | None => false
  end.

Definition answer (g : graph) (df db : option (list (name * list name))) (row : list Z) : Z :=
  match row with
  | [30; e] => b2z (match find_head g with Some h => Z.eqb h e | None => Z.eqb e 0 end)
  | 31 :: r =>
    match take_list r with
    | Some (sub, eok :: r1) =>
      match take_list r1 with
      | Some (hs, r2) =>
        match take_list r2 with
        | Some (es, []) =>
          b2z (match headers_entries g sub [] with
               | Some (hs', es') => Z.eqb eok 1 && list_eqb hs hs' && list_eqb es es'
               | None => Z.eqb eok 0 end)
        | _ => 0 end
      | None => 0 end
    | _ => 0 end
  | 32 :: r =>
    match take_list r with
    | Some (sub, eok :: r1) =>
      match take_list r1 with
      | Some (xs, r2) =>
        match take_list r2 with
        | Some (es, []) =>
          b2z (match exiting_exits g sub with
               | Some (xs', es') => Z.eqb eok 1 && list_eqb xs xs' && list_eqb es es'
               | None => Z.eqb eok 0 end)
        | _ => 0 end
      | None => 0 end
    | _ => 0 end
  | [33; a; b; r] =>
    b2z (match gfind g a with
         | None => Z.eqb r 2
         | Some _ => match reach_ref g a b with
                     | Some true => Z.eqb r 1
                     | Some false => Z.eqb r 0
                     | None => false end
         end &&
         (* the line-by-line model of is_reachable_dfs (Model/Dfs.v) gives the same answer *)
         match reach_dfs g a b with
         | None => Z.eqb r 2
         | Some (Some true) => Z.eqb r 1
         | Some (Some false) => Z.eqb r 0
         | Some None => false
         end)
  | 34 :: b :: r => match take_list r with Some (ds, []) => b2z (table_ok df b ds) | _ => 0 end
  | 35 :: b :: r => match take_list r with Some (ds, []) => b2z (table_ok db b ds) | _ => 0 end
  | [36] => b2z (match dentries (keys g) (gpred_in g) with [] => true | _ => false end)
  | [37] => b2z (match dentries (keys g) (gsucc_in g) with [] => true | _ => false end)
  | 38 :: n :: r =>
    match take_lists (Z.to_nat n) r with
    | Some (comps, []) => b2z (scc_agrees g comps)
    | _ => 0 end
  | _ => 0
  end.

Definition run_c13 (rows : list (list Z)) : list Z :=
  let '(g, qs) := split_rows rows in
  let df := doms_fwd g in
  let db := doms_bwd g in
  map (answer g df db) qs.

(* PipeBounded4.v — the bounded theorem itself, kept apart because checking it
   means running the pipeline model and the validators on all 3879 closed
   graphs with at most 4 blocks inside the kernel's virtual machine. *)
From Coq Require Import List ZArith Bool Lia.
Import ListNotations.
From V Require Import Model.PipeBounded.

Lemma all_ok_0 : all_ok 0 = true. Proof. vm_compute. reflexivity. Qed.
Lemma all_ok_1 : all_ok 1 = true. Proof. vm_compute. reflexivity. Qed.
Lemma all_ok_2 : all_ok 2 = true. Proof. vm_compute. reflexivity. Qed.
Lemma all_ok_3 : all_ok 3 = true. Proof. vm_compute. reflexivity. Qed.
Lemma all_ok_4 : all_ok 4 = true. Proof. vm_compute. reflexivity. Qed.

Theorem all_ok_le4 : forall n, (n <= 4)%nat -> all_ok n = true.
Proof.
  intros n Hn.
  destruct n as [|[|[|[|[|n]]]]]; [exact all_ok_0|exact all_ok_1|exact all_ok_2|exact all_ok_3|exact all_ok_4|lia].
Qed.

Theorem pipeline_good_le4 : forall n g, (n <= 4)%nat -> In g (closed_graphs n) -> PipelineGood g.
Proof. intros n g Hn. apply all_ok_sound. apply all_ok_le4. exact Hn. Qed.

(* the input space is not empty, and has the size the harness enumerates *)
Example closed_counts : map (fun n => length (closed_graphs n)) [1; 2; 3; 4]%nat = [1; 2; 60; 3816]%nat.
Proof. vm_compute. reflexivity. Qed.

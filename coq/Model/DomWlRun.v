(* DomWlRun.v — correspondence driver for transformations._find_dominators_internal.
   rows:  60 nodes..          list(scfg.graph.keys())
          61 entries..        in the order the implementation iterates them
          62 n preds..        preds_table[n]
          63 n succs..        succs_table[n], in the order the implementation iterates it
          64 status           0 returned, 1 KeyError, 2 AssertionError, 3 RuntimeError (no entry points)
          65 key doms..       the returned dictionary, in dictionary order, every set sorted
          66 n changed        the nodes processed, in order (n looked up in preds_table), changed = its
                              successors were pushed (n looked up in succs_table)
   answer: [decoded; same status; same table, order-exact; same log] *)
From Coq Require Import List ZArith Bool.
Import ListNotations.
From V Require Import Valid.Hier Model.Graph Model.Edits Model.DomWl Model.DomWlProof.
Local Open Scope Z_scope.

Record domrows := mkDR {
  dr_nodes : list name; dr_entries : list name;
  dr_preds : list (name * list name); dr_succs : list (name * list name);
  dr_status : list Z; dr_table : list (name * list name); dr_log : list (name * bool); dr_bad : bool }.

Fixpoint split_dom (rows : list (list Z)) : domrows :=
  match rows with
  | [] => mkDR [] [] [] [] [] [] [] false
  | row :: rest =>
    let r := split_dom rest in
    match row with
    | 60 :: l => mkDR l (dr_entries r) (dr_preds r) (dr_succs r) (dr_status r) (dr_table r) (dr_log r) (dr_bad r)
    | 61 :: l => mkDR (dr_nodes r) l (dr_preds r) (dr_succs r) (dr_status r) (dr_table r) (dr_log r) (dr_bad r)
    | 62 :: n :: l => mkDR (dr_nodes r) (dr_entries r) ((n, l) :: dr_preds r) (dr_succs r) (dr_status r) (dr_table r) (dr_log r) (dr_bad r)
    | 63 :: n :: l => mkDR (dr_nodes r) (dr_entries r) (dr_preds r) ((n, l) :: dr_succs r) (dr_status r) (dr_table r) (dr_log r) (dr_bad r)
    | 64 :: l => mkDR (dr_nodes r) (dr_entries r) (dr_preds r) (dr_succs r) l (dr_table r) (dr_log r) (dr_bad r)
    | 65 :: n :: l => mkDR (dr_nodes r) (dr_entries r) (dr_preds r) (dr_succs r) (dr_status r) ((n, l) :: dr_table r) (dr_log r) (dr_bad r)
    | [66; n; c] => mkDR (dr_nodes r) (dr_entries r) (dr_preds r) (dr_succs r) (dr_status r) (dr_table r) ((n, Z.eqb c 1) :: dr_log r) (dr_bad r)
    | _ => mkDR (dr_nodes r) (dr_entries r) (dr_preds r) (dr_succs r) (dr_status r) (dr_table r) (dr_log r) true
    end
  end.

Definition row_of (tbl : list (name * list name)) (n : name) : list name :=
  match zassoc n tbl with Some l => l | None => [] end.

Definition table_eqb (a b : dmap) : bool :=
  list_eqb (map fst a) (map fst b) &&
  forallb (fun p => list_eqb (snd (fst p)) (snd (snd p))) (combine a b).

Definition log_eqb (a b : list (name * bool)) : bool :=
  list_eqb (map fst a) (map fst b) && forallb (fun p => Bool.eqb (snd (fst p)) (snd (snd p))) (combine a b).

Definition run_dom (rows : list (list Z)) : list Z :=
  let r := split_dom rows in
  if dr_bad r then [0; 0; 0; 0] else
  let preds := row_of (dr_preds r) in
  let succs := row_of (dr_succs r) in
  let B := fold_right (fun p acc => Nat.max (length (snd p)) acc) 0%nat (dr_succs r) in
  let fuel := S (mu (dr_nodes r) B (init_D (dr_nodes r) (dr_entries r)) (init_stk (dr_nodes r) (dr_entries r))) in
  match find_dominators (dr_nodes r) (dr_entries r) preds succs fuel, dr_status r with
  | WOk D lg, [0] => [1; 1; if table_eqb D (dr_table r) then 1 else 0; if log_eqb lg (dr_log r) then 1 else 0]
  | WKey, [1] => [1; 1; 1; 1]
  | WAssert, [2] => [1; 1; 1; 1]
  | WNoEntry, [3] => [1; 1; 1; 1]
  | _, _ => [1; 0; 0; 0]
  end.

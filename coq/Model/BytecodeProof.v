(* BytecodeProof.v — proof of the C09 theorem: for every well-formed stream the
   block cutter succeeds and its result satisfies CutSpec. *)
From Coq Require Import List ZArith Bool Lia Sorting.Sorted.
Import ListNotations.
From V Require Import Valid.Hier Model.Graph Model.Bytecode.
Local Open Scope Z_scope.

(* ---------- the chain of offsets ---------- *)
Lemma chained_tail i r : chained (i :: r) -> chained r.
Proof. cbn. tauto. Qed.

Lemma chain_ge : forall r i, chained (i :: r) -> forall j, In j r -> next_off i <= i_off j.
Proof.
  induction r as [|k r IH]; intros i Hc j Hj; [destruct Hj|].
  cbn in Hc. destruct Hc as [Hs [_ [Hk Hr]]].
  destruct Hj as [<-|Hj]; [unfold next_off; lia|].
  specialize (IH k Hr j Hj). cbn in Hr. unfold next_off in *. lia.
Qed.

Lemma size_pos : forall s i, chained s -> In i s -> 2 <= i_size i /\ Z.even (i_size i) = true.
Proof.
  induction s as [|k r IH]; intros i Hc Hi; [destruct Hi|].
  destruct Hi as [<-|Hi]; [cbn in Hc; tauto|]. apply IH; [eapply chained_tail; eauto|exact Hi].
Qed.

Lemma lt_next : forall s i j, chained s -> In i s -> In j s -> i_off i < i_off j -> next_off i <= i_off j.
Proof.
  induction s as [|a r IH]; intros i j Hc Hi Hj Hlt; [destruct Hi|].
  destruct Hi as [<-|Hi]; destruct Hj as [<-|Hj].
  - lia.
  - eapply chain_ge; eauto.
  - pose proof (chain_ge r a Hc i Hi). destruct (size_pos _ a Hc (or_introl eq_refl)). unfold next_off in *. lia.
  - apply (IH i j); auto. eapply chained_tail; eauto.
Qed.

Lemma off_inj : forall s i j, chained s -> In i s -> In j s -> i_off i = i_off j -> i = j.
Proof.
  induction s as [|a r IH]; intros i j Hc Hi Hj He; [destruct Hi|].
  destruct (size_pos _ a Hc (or_introl eq_refl)) as [Hsz _].
  destruct Hi as [<-|Hi]; destruct Hj as [<-|Hj].
  - reflexivity.
  - pose proof (chain_ge r a Hc j Hj). unfold next_off in *. lia.
  - pose proof (chain_ge r a Hc i Hi). unfold next_off in *. lia.
  - apply (IH i j); auto. eapply chained_tail; eauto.
Qed.

Lemma last_cons {A} (a b : A) (l : list A) d : last (a :: b :: l) d = last (b :: l) d.
Proof. reflexivity. Qed.

Lemma le_last : forall s i, chained s -> In i s -> i_off i <= last_offset s.
Proof.
  unfold last_offset, offs. induction s as [|a r IH]; intros i Hc Hi; [destruct Hi|].
  destruct r as [|b r']; [destruct Hi as [<-|[]]; cbn; lia|].
  cbn [map]. rewrite last_cons. change (i_off b :: map i_off r') with (map i_off (b :: r')).
  destruct Hi as [<-|Hi].
  - pose proof (chain_ge _ a Hc b (or_introl eq_refl)).
    destruct (size_pos _ a Hc (or_introl eq_refl)).
    specialize (IH b (chained_tail _ _ Hc) (or_introl eq_refl)). unfold next_off in *. lia.
  - apply IH; [eapply chained_tail; eauto|exact Hi].
Qed.

Lemma last_in : forall s, s <> [] -> exists i, In i s /\ i_off i = last_offset s.
Proof.
  unfold last_offset, offs. induction s as [|a r IH]; intros Hne; [contradiction|].
  destruct r as [|b r']; [exists a; split; [left; reflexivity|reflexivity]|].
  destruct (IH ltac:(discriminate)) as [i [Hi He]]. exists i. split; [right; exact Hi|].
  cbn [map]. rewrite last_cons. exact He.
Qed.

Lemma exists_next : forall s i, chained s -> In i s -> i_off i <> last_offset s ->
  exists j, In j s /\ i_off j = next_off i.
Proof.
  induction s as [|a r IH]; intros i Hc Hi Hne; [destruct Hi|].
  destruct Hi as [<-|Hi].
  - destruct r as [|b r']; [exfalso; apply Hne; reflexivity|].
    exists b. split; [right; left; reflexivity|]. cbn in Hc. unfold next_off. tauto.
  - destruct r as [|b r']; [destruct Hi|].
    assert (Hl : last_offset (a :: b :: r') = last_offset (b :: r')) by reflexivity.
    rewrite Hl in Hne. destruct (IH i (chained_tail _ _ Hc) Hi Hne) as [j [Hj He]].
    exists j. split; [right; exact Hj|exact He].
Qed.

Lemma all_even : forall s, chained s -> (forall i r, s = i :: r -> Z.even (i_off i) = true) ->
  forall j, In j s -> Z.even (i_off j) = true.
Proof.
  induction s as [|a r IH]; intros Hc H0 j Hj; [destruct Hj|].
  destruct Hj as [<-|Hj]; [eapply H0; reflexivity|].
  apply (IH (chained_tail _ _ Hc)); [|exact Hj].
  intros i r' E. subst r. cbn in Hc. destruct Hc as [_ [He [Hn _]]].
  rewrite Hn. rewrite Z.even_add. rewrite (H0 a (i :: r') eq_refl), He. reflexivity.
Qed.

Lemma all_nonneg : forall s, chained s -> (forall i r, s = i :: r -> i_off i = 0) ->
  forall j, In j s -> 0 <= i_off j.
Proof.
  intros s Hc H0 j Hj. destruct s as [|a r]; [destruct Hj|].
  pose proof (H0 a r eq_refl). destruct Hj as [<-|Hj]; [lia|].
  pose proof (chain_ge r a Hc j Hj). destruct (size_pos _ a Hc (or_introl eq_refl)).
  unfold next_off in *. lia.
Qed.

(* ---------- jump_insts ---------- *)
Lemma jump_insts_some : forall s o ts, jump_insts s o = Some ts ->
  exists i, In i s /\ i_off i = o /\ jump_of i = Some ts.
Proof.
  induction s as [|a r IH]; intros o ts; cbn; [discriminate|].
  destruct (jump_insts r o) as [t|] eqn:E.
  - intros [= <-]. destruct (IH _ _ E) as [i [Hi H]]. exists i. split; [right; exact Hi|exact H].
  - destruct (Z.eqb (i_off a) o) eqn:Eo; [|discriminate].
    apply Z.eqb_eq in Eo. intros H. exists a. split; [left; reflexivity|]. auto.
Qed.

Lemma jump_insts_of : forall s i, chained s -> In i s -> jump_insts s (i_off i) = jump_of i.
Proof.
  induction s as [|a r IH]; intros i Hc Hi; [destruct Hi|]. cbn.
  destruct Hi as [<-|Hi].
  - destruct (jump_insts r (i_off a)) as [t|] eqn:E.
    + exfalso. destruct (jump_insts_some _ _ _ E) as [j [Hj [He _]]].
      pose proof (chain_ge r a Hc j Hj). destruct (size_pos _ a Hc (or_introl eq_refl)).
      unfold next_off in *. lia.
    + rewrite Z.eqb_refl. reflexivity.
  - rewrite (IH i (chained_tail _ _ Hc) Hi).
    destruct (jump_of i) as [t|] eqn:E; [reflexivity|].
    destruct (Z.eqb (i_off a) (i_off i)) eqn:Eo; [|reflexivity].
    apply Z.eqb_eq in Eo. pose proof (chain_ge r a Hc i Hi).
    destruct (size_pos _ a Hc (or_introl eq_refl)). unfold next_off in *. lia.
Qed.

Lemma jump_insts_none : forall s o, jump_insts s o = None ->
  forall i, In i s -> i_off i = o -> i_cls i = IPlain.
Proof.
  induction s as [|a r IH]; intros o Hn i Hi He; [destruct Hi|]. cbn in Hn.
  destruct (jump_insts r o) as [t|] eqn:E; [discriminate|].
  destruct Hi as [<-|Hi]; [|eapply IH; eauto].
  rewrite He, Z.eqb_refl in Hn. unfold jump_of in Hn. destruct (i_cls a); try discriminate. reflexivity.
Qed.

(* ---------- consecutive pairs of a strictly sorted list ---------- *)
Lemma consec_cons a b l e : consec (a :: b :: l) e = (a, b) :: consec (b :: l) e.
Proof. reflexivity. Qed.

Lemma consec_fst : forall l e, map fst (consec l e) = l.
Proof.
  induction l as [|a l IH]; intros e; [reflexivity|].
  destruct l as [|b l']; [reflexivity|]. rewrite consec_cons. cbn [map fst]. rewrite IH. reflexivity.
Qed.

Lemma consec_snd : forall l e, l <> [] -> map snd (consec l e) = tl l ++ [e].
Proof.
  induction l as [|a l IH]; intros e Hne; [contradiction|].
  destruct l as [|b l']; [reflexivity|]. rewrite consec_cons. cbn [map snd tl].
  rewrite IH by discriminate. reflexivity.
Qed.

Lemma sorted_hd_lt a l : StronglySorted Z.lt (a :: l) -> forall x, In x l -> a < x.
Proof. intros H x Hx. inversion H as [|? ? _ Hf]; subst. rewrite Forall_forall in Hf. auto. Qed.

Lemma consec_gap : forall l e, StronglySorted Z.lt l -> (forall x, In x l -> x < e) ->
  forall b e', In (b, e') (consec l e) ->
    In b l /\ b < e' /\ (In e' l \/ e' = e) /\ forall x, In x l -> ~ (b < x < e').
Proof.
  induction l as [|a l IH]; intros e Hs He b e' Hin; [destruct Hin|].
  destruct l as [|c l'].
  - cbn in Hin. destruct Hin as [[= <- <-]|[]].
    split; [left; reflexivity|]. split; [apply He; left; reflexivity|]. split; [right; reflexivity|].
    intros x [<-|[]]. lia.
  - rewrite consec_cons in Hin. destruct Hin as [[= <- <-]|Hin].
    + split; [left; reflexivity|]. pose proof (sorted_hd_lt _ _ Hs c (or_introl eq_refl)).
      split; [assumption|]. split; [left; right; left; reflexivity|].
      intros x [<-|[<-|Hx]]; [lia|lia|].
      inversion Hs as [|? ? Hs' _]; subst. pose proof (sorted_hd_lt _ _ Hs' x Hx). lia.
    + inversion Hs as [|? ? Hs' _]; subst.
      destruct (IH e Hs' (fun x Hx => He x (or_intror Hx)) b e' Hin) as [A [B [C D]]].
      split; [right; exact A|]. split; [exact B|]. split; [destruct C; [left; right; assumption|right; assumption]|].
      intros x [<-|Hx]; [|auto].
      pose proof (sorted_hd_lt _ _ Hs b A). lia.
Qed.

Lemma consec_cover : forall l e, StronglySorted Z.lt l -> (forall x, In x l -> x < e) ->
  forall a r, l = a :: r -> forall o, a <= o < e -> exists b e', In (b, e') (consec l e) /\ b <= o < e'.
Proof.
  induction l as [|a0 l IH]; intros e Hs He a r E o Ho; [discriminate|]. injection E as -> ->.
  destruct r as [|c l'].
  - exists a, e. split; [left; reflexivity|lia].
  - rewrite consec_cons. destruct (Z_lt_dec o c) as [Hlt|Hge].
    + exists a, c. split; [left; reflexivity|lia].
    + inversion Hs as [|? ? Hs' _]; subst.
      destruct (IH e Hs' (fun x Hx => He x (or_intror Hx)) c l' eq_refl o ltac:(lia)) as [b [e' [Hin Hb]]].
      exists b, e'. split; [right; exact Hin|exact Hb].
Qed.

(* ---------- mapM ---------- *)
Lemma mapM_total {A B} (f : A -> option B) l :
  (forall a, In a l -> f a <> None) -> exists r, mapM f l = Some r.
Proof.
  induction l as [|a l IH]; intros H; [exists []; reflexivity|]. cbn.
  destruct (f a) as [b|] eqn:E; [|exfalso; eapply H; [left; reflexivity|exact E]].
  destruct (IH (fun x Hx => H x (or_intror Hx))) as [r Er]. rewrite Er. eauto.
Qed.

Lemma mapM_forall2 {A B} (f : A -> option B) : forall l r, mapM f l = Some r ->
  Forall2 (fun a b => f a = Some b) l r.
Proof.
  induction l as [|a l IH]; intros r; cbn; [intros [= <-]; constructor|].
  destruct (f a) as [b|] eqn:E; [|discriminate]. destruct (mapM f l) as [br|]; [|discriminate].
  intros [= <-]. constructor; [exact E|apply IH; reflexivity].
Qed.

Lemma nonempty_split {A} (l : list A) : l <> [] -> exists a r, l = a :: r.
Proof. destruct l as [|a r]; [contradiction|eauto]. Qed.

(* ---------- the main theorem ---------- *)
Section Main.
Variable s : stream.
Hypothesis Hwf : WfStream s.

Let Hc : chained s := wf_chain s Hwf.
Let L := leaders s.
Let E := end_offset s.

Lemma even_off i : In i s -> Z.even (i_off i) = true.
Proof.
  apply (all_even s Hc). intros a r Ea. rewrite (wf_first s Hwf a r Ea). reflexivity.
Qed.

Lemma nonneg_off i : In i s -> 0 <= i_off i.
Proof. apply (all_nonneg s Hc). exact (wf_first s Hwf). Qed.

Lemma L_sorted : StronglySorted Z.lt L.
Proof. apply zsort_sorted. Qed.

Lemma L_in x : In x L <-> In x (raw_leaders s).
Proof. apply zsort_In. Qed.

Lemma arg_off i : In i s -> (i_cls i = ICond \/ i_cls i = IUncond) -> exists j, In j s /\ i_off j = i_arg i.
Proof.
  intros Hi Hk. pose proof (wf_args s Hwf i Hi Hk) as H. unfold offs in H.
  apply in_map_iff in H as [j [He Hj]]. eauto.
Qed.

Lemma raw_form x : In x (raw_leaders s) ->
  (exists i, In i s /\ x = i_off i) \/ (exists i, In i s /\ i_cls i = ICond /\ x = i_off i + 2).
Proof.
  unfold raw_leaders. intros H. apply in_flat_map in H as [i [Hi Hx]]. unfold leaders_of in Hx.
  apply in_app_or in Hx as [Hx|Hx].
  - destruct (_ || _); [|destruct Hx]. destruct Hx as [<-|[]]. left. eauto.
  - destruct (i_cls i) eqn:Ek.
    + destruct Hx.
    + destruct Hx as [<-|[<-|[]]]; [right; eauto|].
      destruct (arg_off i Hi (or_introl Ek)) as [j [Hj He]]. left. exists j. auto.
    + destruct Hx as [<-|[]]. destruct (arg_off i Hi (or_intror Ek)) as [j [Hj He]]. left. exists j. auto.
    + destruct Hx.
Qed.

Lemma cond_not_last i : In i s -> i_cls i = ICond -> i_off i <> last_offset s.
Proof.
  intros Hi Hk He. destruct (wf_closed s Hwf i Hi He) as [H|H]; congruence.
Qed.

Lemma raw_bounds x : In x (raw_leaders s) -> 0 <= x < E /\ Z.even x = true.
Proof.
  intros H. unfold E, end_offset. destruct (raw_form x H) as [[i [Hi ->]]|[i [Hi [Hk ->]]]].
  - pose proof (nonneg_off i Hi). pose proof (le_last s i Hc Hi). split; [lia|apply even_off; exact Hi].
  - pose proof (nonneg_off i Hi).
    destruct (exists_next s i Hc Hi (cond_not_last i Hi Hk)) as [j [Hj He]].
    pose proof (le_last s j Hc Hj). destruct (size_pos s i Hc Hi). unfold next_off in *.
    split; [lia|]. rewrite Z.even_add, (even_off i Hi). reflexivity.
Qed.

Lemma tgt_leader i : In i s -> i_tgt i = true -> In (i_off i) (raw_leaders s).
Proof.
  intros Hi Ht. unfold raw_leaders. apply in_flat_map. exists i. split; [exact Hi|].
  unfold leaders_of. rewrite Ht, orb_true_r. apply in_or_app. left. left. reflexivity.
Qed.

Lemma jump_leaders i ts t : In i s -> jump_of i = Some ts -> In t ts -> In t (raw_leaders s).
Proof.
  intros Hi Hj Ht. unfold raw_leaders. apply in_flat_map. exists i. split; [exact Hi|].
  unfold leaders_of, jump_of in *. apply in_or_app. right.
  destruct (i_cls i); try discriminate; injection Hj as <-; exact Ht.
Qed.

Lemma zero_leader : In 0 (raw_leaders s).
Proof.
  destruct (nonempty_split s (wf_nonempty _ Hwf)) as [a [r Es]].
  pose proof (wf_first _ Hwf a r Es) as H0.
  unfold raw_leaders. apply in_flat_map. exists a. split; [rewrite Es; left; reflexivity|].
  unfold leaders_of. rewrite H0. cbn. left. reflexivity.
Qed.

Lemma L_head : exists r, L = 0 :: r.
Proof.
  pose proof L_sorted as Hs. pose proof (proj2 (L_in 0) zero_leader) as H0.
  destruct L as [|a r] eqn:EL; [destruct H0|]. exists r. f_equal.
  destruct H0 as [->|H0]; [reflexivity|].
  pose proof (sorted_hd_lt _ _ Hs 0 H0).
  assert (In a (raw_leaders s)) by (apply L_in; rewrite EL; left; reflexivity).
  pose proof (raw_bounds a H1). lia.
Qed.

Lemma L_lt_E x : In x L -> x < E.
Proof. intros H. apply L_in in H. pose proof (raw_bounds x H). lia. Qed.

Lemma E_even : Z.even E = true.
Proof.
  unfold E, end_offset. destruct (last_in s (wf_nonempty _ Hwf)) as [i [Hi He]].
  rewrite <- He, Z.even_add, (even_off i Hi). reflexivity.
Qed.

(* a pair of consecutive leaders *)
Definition Pair (b e : Z) : Prop := In (b, e) (consec L E).

Lemma pair_facts b e : Pair b e ->
  In b L /\ b < e /\ (In e L \/ e = E) /\ (forall x, In x L -> ~ (b < x < e)) /\
  Z.even b = true /\ Z.even e = true /\ 0 <= b.
Proof.
  intros Hp. destruct (consec_gap L E L_sorted L_lt_E b e Hp) as [A [B [C D]]].
  assert (Hb : In b (raw_leaders s)) by (apply L_in; exact A).
  pose proof (raw_bounds b Hb) as [Hb1 Hb2].
  repeat split; auto; try lia.
  destruct C as [C| ->]; [|apply E_even]. apply L_in in C. apply (raw_bounds e C).
Qed.

Lemma pair_unique b e e' : Pair b e -> Pair b e' -> e = e'.
Proof.
  intros Hp Hp'.
  destruct (pair_facts b e Hp) as [_ [Hlt [He [Hg _]]]].
  destruct (pair_facts b e' Hp') as [_ [Hlt' [He' [Hg' _]]]].
  destruct He as [He| ->]; destruct He' as [He'| ->].
  - pose proof (Hg _ He'). pose proof (Hg' _ He). lia.
  - pose proof (Hg' _ He). pose proof (L_lt_E _ He). lia.
  - pose proof (Hg _ He'). pose proof (L_lt_E _ He'). lia.
  - reflexivity.
Qed.

Lemma even_gap a b : Z.even a = true -> Z.even b = true -> a < b -> a + 2 <= b.
Proof.
  intros Ha Hb Hlt. apply Z.even_spec in Ha as [x ->]. apply Z.even_spec in Hb as [y ->]. lia.
Qed.

(* if the last instruction of a block is a jump or return, the block ends right after it *)
Lemma term_offset b e i :
  Pair b e -> In i s -> b <= i_off i < e -> i_cls i <> IPlain -> e = i_off i + 2.
Proof.
  intros Hp Hi Hin Hk. destruct (pair_facts b e Hp) as [_ [_ [_ [Hgap [_ [He _]]]]]].
  pose proof (even_gap _ _ (even_off i Hi) He ltac:(lia)) as Hge.
  destruct (i_cls i) eqn:Ek; [contradiction| | |].
  - assert (Hl : In (i_off i + 2) L).
    { apply L_in. unfold raw_leaders. apply in_flat_map. exists i. split; [exact Hi|].
      unfold leaders_of. rewrite Ek. apply in_or_app. right. left. reflexivity. }
    specialize (Hgap _ Hl). lia.
  - pose proof (wf_cachefree s Hwf i Hi (or_introl Ek)) as Hsz.
    destruct (Z.eq_dec (i_off i) (last_offset s)) as [Hlast|Hnl].
    + pose proof (proj1 (proj2 (pair_facts b e Hp))).
      destruct (proj1 (proj2 (proj2 (pair_facts b e Hp)))) as [Hel| ->].
      * pose proof (L_lt_E e Hel). unfold E, end_offset in *. lia.
      * unfold E, end_offset. lia.
    + destruct (exists_next s i Hc Hi Hnl) as [j [Hj Hej]].
      assert (Hl : In (i_off j) L)
        by (apply L_in; apply tgt_leader; [exact Hj|eapply (wf_nodead s Hwf i j); eauto]).
      specialize (Hgap _ Hl). unfold next_off in *. lia.
  - pose proof (wf_cachefree s Hwf i Hi (or_intror Ek)) as Hsz.
    destruct (Z.eq_dec (i_off i) (last_offset s)) as [Hlast|Hnl].
    + destruct (proj1 (proj2 (proj2 (pair_facts b e Hp)))) as [Hel| ->].
      * pose proof (L_lt_E e Hel). unfold E, end_offset in *. lia.
      * unfold E, end_offset. lia.
    + destruct (exists_next s i Hc Hi Hnl) as [j [Hj Hej]].
      assert (Hl : In (i_off j) L)
        by (apply L_in; apply tgt_leader; [exact Hj|eapply (wf_nodead s Hwf i j); eauto]).
      specialize (Hgap _ Hl). unfold next_off in *. lia.
Qed.

(* the targets of every block exist *)
Lemma targets_total b e : Pair b e -> targets_of s L e <> None.
Proof.
  intros Hp. unfold targets_of. destruct (jump_insts s (e - 2)) as [ts|] eqn:Ej.
  - destruct (jump_insts_some _ _ _ Ej) as [i [Hi [He Hj]]].
    assert (Hall : forallb (fun t => zmem t L) ts = true).
    { apply forallb_forall. intros t Ht. apply zmem_In. apply L_in. eapply jump_leaders; eauto. }
    rewrite Hall. discriminate.
  - destruct (pair_facts b e Hp) as [_ [Hlt [[Hel| ->] _]]].
    + assert (Hm : zmem e L = true) by (apply zmem_In; exact Hel). rewrite Hm. discriminate.
    + exfalso. destruct (last_in s (wf_nonempty _ Hwf)) as [i [Hi He]].
      assert (Hk : i_cls i = IPlain).
      { eapply jump_insts_none; eauto. unfold E, end_offset. lia. }
      destruct (wf_closed s Hwf i Hi He); congruence.
Qed.

Lemma block_of_leader bl x :
  Forall2 (fun be b => mk_block s be = Some b) (consec L E) bl -> In x L ->
  exists b e, Pair x e /\ In b bl /\ b_begin b = x /\ b_end b = e.
Proof.
  intros HF Hx.
  assert (Hfst : In x (map fst (consec L E))) by (rewrite consec_fst; exact Hx).
  apply in_map_iff in Hfst as [[x' e] [Hf Hin]]. cbn in Hf. subst x'.
  unfold Pair. clear Hx. revert bl HF Hin. generalize (consec L E) as cs.
  induction cs as [|c cs IH]; intros bl HF Hin; [destruct Hin|].
  inversion HF as [|? b0 ? bl' Hb HF']; subst.
  destruct Hin as [->|Hin].
  - exists b0, e. split; [left; reflexivity|]. split; [left; reflexivity|].
    unfold mk_block in Hb. destruct (targets_of s (leaders s) (snd (x, e))); [|discriminate].
    injection Hb as <-. auto.
  - destruct (IH bl' HF' Hin) as [b [e' [A [B C]]]]. exists b, e'. split; [right; exact A|].
    split; [right; exact B|exact C].
Qed.

Lemma pair_of_block bl b :
  Forall2 (fun be b => mk_block s be = Some b) (consec L E) bl -> In b bl ->
  Pair (b_begin b) (b_end b) /\ targets_of s L (b_end b) = Some (b_succ b).
Proof.
  unfold Pair. generalize (consec L E) as cs. intros cs HF. induction HF as [|c b0 cs bl' Hb HF IH]; intros Hin; [destruct Hin|].
  destruct Hin as [->|Hin].
  - unfold mk_block in Hb. destruct (targets_of s (leaders s) (snd c)) as [ts|] eqn:Et; [|discriminate].
    injection Hb as <-. cbn. split; [left; destruct c; reflexivity|exact Et].
  - destruct (IH Hin) as [A B]. split; [right; exact A|exact B].
Qed.

Theorem cut_spec : exists bl, cut s = Some bl /\ CutSpec s bl.
Proof.
  destruct (mapM_total (mk_block s) (consec L E)) as [bl Ebl].
  { intros [b e] Hin. unfold mk_block. cbn [snd].
    pose proof (targets_total b e Hin) as Ht. fold L. destruct (targets_of s L e); [discriminate|contradiction]. }
  exists bl. split; [exact Ebl|].
  pose proof (mapM_forall2 _ _ _ Ebl) as HF.
  assert (Hbeg : map b_begin bl = L).
  { rewrite <- (consec_fst L E). clear -HF. induction HF as [|c b cs bl' Hb HF IH]; [reflexivity|].
    cbn [map]. rewrite IH. f_equal. unfold mk_block in Hb.
    destruct (targets_of s (leaders s) (snd c)); [|discriminate]. injection Hb as <-. reflexivity. }
  assert (Hend : map b_end bl = tl L ++ [E]).
  { destruct L_head as [r Er]. rewrite <- (consec_snd L E) by (rewrite Er; discriminate).
    clear -HF. induction HF as [|c b cs bl' Hb HF IH]; [reflexivity|].
    cbn [map]. rewrite IH. f_equal. unfold mk_block in Hb.
    destruct (targets_of s (leaders s) (snd c)); [|discriminate]. injection Hb as <-. reflexivity. }
  constructor.
  - rewrite Hbeg. split; [apply L_sorted|]. destruct L_head as [r ->]. reflexivity.
  - rewrite Hend, Hbeg. reflexivity.
  - intros b Hb. destruct (pair_of_block bl b HF Hb) as [Hp _]. apply (pair_facts _ _ Hp).
  - (* cover *)
    intros i Hi. destruct L_head as [r Er].
    destruct (consec_cover L E L_sorted L_lt_E 0 r Er (i_off i)) as [b [e [Hp Hin]]].
    { pose proof (nonneg_off i Hi). pose proof (le_last s i Hc Hi). unfold E, end_offset. lia. }
    destruct (block_of_leader bl b HF (proj1 (pair_facts b e Hp))) as [bb [e' [Hp' [Hbb [Hb1 Hb2]]]]].
    exists bb. split; [exact Hbb|]. unfold InBlock. rewrite Hb1, Hb2.
    rewrite (pair_unique b e' e Hp' Hp). exact Hin.
  - (* enter *)
    intros i b Hi Hb Hin Ht. destruct (pair_of_block bl b HF Hb) as [Hp _].
    destruct (pair_facts _ _ Hp) as [_ [_ [_ [Hg _]]]].
    assert (Hl : In (i_off i) L) by (apply L_in; apply tgt_leader; assumption).
    specialize (Hg _ Hl). unfold InBlock in Hin. lia.
  - (* inner *)
    intros i j b Hi Hj Hb Hini Hinj Hlt. destruct (pair_of_block bl b HF Hb) as [Hp _].
    destruct (i_cls i) eqn:Ek; [reflexivity| | |]; exfalso;
      (assert (Hne : i_cls i <> IPlain) by congruence;
       pose proof (term_offset _ _ i Hp Hi Hini Hne) as He;
       pose proof (lt_next s i j Hc Hi Hj Hlt) as Hn; destruct (size_pos s i Hc Hi);
       unfold InBlock, next_off in *; lia).
  - (* successors *)
    intros i b Hi Hb Hini Hlast. destruct (pair_of_block bl b HF Hb) as [Hp Ht].
    destruct (pair_facts _ _ Hp) as [HbL [Hblt [HeL [Hg [Hbe [Hee Hb0]]]]]].
    unfold InBlock in Hini.
    assert (Hholds_leader : forall t o, In t L -> t <= o -> (forall x, In x L -> ~ (t < x <= o)) -> o < E ->
                                        Holds bl t o).
    { intros t o HtL Hle Hno HoE.
      destruct (block_of_leader bl t HF HtL) as [bb [e' [Hp' [Hbb [Hb1 Hb2]]]]].
      exists bb. split; [exact Hbb|]. split; [exact Hb1|]. unfold InBlock. rewrite Hb1, Hb2.
      destruct (pair_facts t e' Hp') as [_ [Hlt' [[He'|He'] _]]].
      - specialize (Hno _ He'). lia.
      - subst. lia. }
    destruct (i_cls i) eqn:Ek.
    + (* plain: falls through to the block that begins where this one ends *)
      assert (Hnone : jump_insts s (b_end b - 2) = None).
      { destruct (jump_insts s (b_end b - 2)) as [ts|] eqn:Ej; [|reflexivity]. exfalso.
        destruct (jump_insts_some _ _ _ Ej) as [i' [Hi' [He' Hj']]].
        assert (Hne : i_cls i' <> IPlain) by (unfold jump_of in Hj'; destruct (i_cls i'); congruence).
        assert (Hin' : InBlock b (i_off i')).
        { unfold InBlock. pose proof (even_gap _ _ Hbe Hee Hblt). lia. }
        pose proof (Hlast i' Hi' Hin') as Hle.
        pose proof (even_gap _ _ (even_off i Hi) Hee ltac:(lia)).
        assert (i_off i' = i_off i) by lia.
        rewrite (off_inj s i' i Hc Hi' Hi H0) in Hne. congruence. }
      unfold targets_of in Ht. rewrite Hnone in Ht.
      destruct (zmem (b_end b) L) eqn:Hm; [|discriminate]. injection Ht as Ht.
      unfold isucc. rewrite Ek, <- Ht. split; [reflexivity|].
      intros k t o Hk1 Hk2. destruct k as [|[|k]]; cbn in Hk1, Hk2; try discriminate.
      injection Hk1 as <-. injection Hk2 as <-.
      apply zmem_In in Hm.
      (* the end is an instruction offset, hence the next instruction *)
      assert (Heq : b_end b = next_off i).
      { destruct (raw_form _ (proj1 (L_in _) Hm)) as [[j [Hj Hej]]|[j [Hj [Hkj Hej]]]].
        - assert (i_off i < i_off j) by lia. pose proof (lt_next s i j Hc Hi Hj H).
          destruct (Z_lt_dec (i_off j) (next_off i)) as [Hjl|Hjg]; [lia|].
          (* i is not last (j exists after it), its successor instruction is inside or at the end *)
          assert (Hnl : i_off i <> last_offset s) by (pose proof (le_last s j Hc Hj); lia).
          destruct (exists_next s i Hc Hi Hnl) as [n [Hn Hen]].
          destruct (Z_lt_dec (i_off n) (b_end b)) as [Hlt|Hge]; [|lia].
          assert (InBlock b (i_off n)) by (unfold InBlock; destruct (size_pos s i Hc Hi); unfold next_off in *; lia).
          pose proof (Hlast n Hn H1). destruct (size_pos s i Hc Hi). unfold next_off in *. lia.
        - exfalso. assert (Hinj : InBlock b (i_off j)).
          { unfold InBlock. pose proof (even_gap _ _ Hbe Hee Hblt). lia. }
          pose proof (Hlast j Hj Hinj).
          pose proof (even_gap _ _ (even_off i Hi) Hee ltac:(lia)).
          assert (i_off j = i_off i) by lia.
          rewrite (off_inj s j i Hc Hj Hi H1) in Hkj. congruence. }
      apply Hholds_leader; [exact Hm|lia| |].
      * intros x Hx. lia.
      * pose proof (L_lt_E _ Hm). lia.
    + (* conditional *)
      assert (Hne : i_cls i <> IPlain) by congruence.
      pose proof (term_offset _ _ i Hp Hi Hini Hne) as He.
      unfold targets_of in Ht. replace (b_end b - 2) with (i_off i) in Ht by lia.
      rewrite (jump_insts_of s i Hc Hi) in Ht. unfold jump_of in Ht. rewrite Ek in Ht.
      destruct (forallb _ _) eqn:Hall; [|discriminate]. injection Ht as Ht.
      unfold isucc. rewrite Ek, <- Ht. split; [reflexivity|].
      rewrite forallb_forall in Hall.
      intros k t o Hk1 Hk2. destruct k as [|[|[|k]]]; cbn in Hk1, Hk2; try discriminate;
        injection Hk1 as <-; injection Hk2 as <-.
      * (* fall-through: the block that begins at off + 2 holds the next instruction *)
        assert (Hm : In (i_off i + 2) L) by (apply zmem_In; apply Hall; left; reflexivity).
        destruct (size_pos s i Hc Hi) as [Hsz Hsze].
        destruct (exists_next s i Hc Hi (cond_not_last i Hi Ek)) as [n [Hn Hen]].
        apply Hholds_leader; [exact Hm|unfold next_off; lia| |].
        -- intros x Hx [Hx1 Hx2].
           destruct (Z.eq_dec x (next_off i)) as [->|Hnx].
           ++ assert (2 < i_size i) by (unfold next_off in *; lia).
              apply (wf_condcache s Hwf i Hi Ek H). apply L_in. exact Hx.
           ++ destruct (raw_form _ (proj1 (L_in _) Hx)) as [[j [Hj Hej]]|[j [Hj [Hkj Hej]]]].
              ** subst x. assert (i_off i < i_off j) by lia.
                 pose proof (lt_next s i j Hc Hi Hj H). lia.
              ** subst x. assert (i_off i < i_off j) by lia.
                 pose proof (lt_next s i j Hc Hi Hj H). lia.
        -- pose proof (le_last s n Hc Hn). unfold E, end_offset. lia.
      * (* jump target *)
        assert (Hm : In (i_arg i) L) by (apply zmem_In; apply Hall; right; left; reflexivity).
        apply Hholds_leader; [exact Hm|lia|intros x Hx; lia|apply L_lt_E; exact Hm].
    + (* unconditional *)
      assert (Hne : i_cls i <> IPlain) by congruence.
      pose proof (term_offset _ _ i Hp Hi Hini Hne) as He.
      unfold targets_of in Ht. replace (b_end b - 2) with (i_off i) in Ht by lia.
      rewrite (jump_insts_of s i Hc Hi) in Ht. unfold jump_of in Ht. rewrite Ek in Ht.
      destruct (forallb _ _) eqn:Hall; [|discriminate]. injection Ht as Ht.
      unfold isucc. rewrite Ek, <- Ht. split; [reflexivity|].
      rewrite forallb_forall in Hall.
      intros k t o Hk1 Hk2. destruct k as [|[|k]]; cbn in Hk1, Hk2; try discriminate.
      injection Hk1 as <-. injection Hk2 as <-.
      assert (Hm : In (i_arg i) L) by (apply zmem_In; apply Hall; left; reflexivity).
      apply Hholds_leader; [exact Hm|lia|intros x Hx; lia|apply L_lt_E; exact Hm].
    + (* return *)
      assert (Hne : i_cls i <> IPlain) by congruence.
      pose proof (term_offset _ _ i Hp Hi Hini Hne) as He.
      unfold targets_of in Ht. replace (b_end b - 2) with (i_off i) in Ht by lia.
      rewrite (jump_insts_of s i Hc Hi) in Ht. unfold jump_of in Ht. rewrite Ek in Ht.
      cbn in Ht. injection Ht as Ht. unfold isucc. rewrite Ek, <- Ht. split; [reflexivity|].
      intros k t o Hk1. destruct k; discriminate.
Qed.

End Main.
